"""The real library behind a small uniform interface: load a generated definition, parse, dump, canonicalise."""
from __future__ import annotations

import io
import struct as _struct

from . import common, defs
from .common import A

_dc = None


def dc():
    global _dc
    if _dc is None:
        _dc = common.import_repo()
    return _dc


CONSTS = {"K2": 2, "K0": 0}


class Loaded:
    """A generated top-level structure loaded into a fresh cstruct instance."""

    def __init__(self, tree, *, endian="<", align=False, compiled=False, pointer="uint64", name="T"):
        m = dc()
        self.tree, self.endian, self.align, self.compiled, self.pointer = tree, endian, align, compiled, pointer
        self.cs = m.cstruct(endian=endian, pointer=pointer)
        self.text = defs.PREAMBLE + "#define K2 2\n#define K0 0\n" + defs.render_struct(name, tree)
        self.cs.load(self.text, compiled=compiled, align=align)
        self.T = getattr(self.cs, name)

    def cfg_sexp(self):
        return [A("cfg"), A("le" if self.endian == "<" else "be"), self.pointer, [[A(k), v] for k, v in CONSTS.items()]]

    def ty_sexp(self):
        return real_ty_sexp(self.tree, self.T, self.align)


def real_ty_sexp(tree, T, aligned):
    """model type S-expression from the generator tree, with `_name`s of anonymous members taken from the real class"""
    k = tree[0]
    if k == "sc":
        return [A("sc"), tree[1]]
    if k == "enum":
        kind, base, _ = defs.ENUMS[tree[1]]
        return [A(kind), base]
    if k == "ptr":
        return [A("ptr"), real_ty_sexp(tree[1], getattr(T, "type", T), aligned)]
    if k == "arr":
        l = tree[2]
        ls = {"fixed": lambda: [A("fixed"), l[1]], "expr": lambda: [A("expr"), l[1]], "null": lambda: A("null"), "eof": lambda: A("eof")}[l[0]]()
        # (a library that hands out a wrong class for an array type must not trip the harness here: the oracles report it)
        return [A("arr"), real_ty_sexp(tree[1], getattr(T, "type", T), aligned), ls]
    fs = []
    for f, rf in zip(tree[1], T.__fields__):
        fs.append([A("f"), rf._name, 1 if f["name"] is None else 0, real_ty_sexp(f["ty"], rf.type, aligned), f["bits"] or 0])
    return [A(k), 1 if aligned else 0, fs]


def canon(v):
    """Python value -> the value S-expression the model prints (structure, not text)."""
    m = dc()
    from enum import Enum

    if isinstance(v, m.Union):
        return [A("union"), bytes(getattr(v, "_buf", b"") or b""), *[canon(getattr(v, f._name)) for f in v.__class__.__fields__]]
    if isinstance(v, m.Structure):
        return [A("rec"), *[canon(getattr(v, f._name)) for f in v.__class__.__fields__]]
    if type(v).__name__ == "UnionProxy":
        return canon(object.__getattribute__(v, "__target__"))
    if isinstance(v, m.Pointer):
        return [A("ptr"), int(v)]
    if isinstance(v, Enum):
        return [A("enum"), int(v.value)]
    if isinstance(v, float):
        pc = getattr(type(v), "packchar", "d")
        if v != v:
            return [A("flt"), A("nan")]
        return [A("flt"), int.from_bytes(_struct.pack(">" + pc, v), "big")]
    if isinstance(v, bool):
        return [A("int"), int(v)]
    if isinstance(v, int):
        return [A("int"), int(v)]
    if isinstance(v, bytes):
        return [A("bytes"), bytes(v)]
    if isinstance(v, str):
        b = v.encode("utf-16-le", "surrogatepass")
        return [A("wstr"), *[int.from_bytes(b[i : i + 2], "little") for i in range(0, len(b), 2)]]
    if isinstance(v, list):
        return [A("list"), *[canon(x) for x in v]]
    if isinstance(v, m.Void):
        return [A("void")]
    return [A("other"), repr(type(v))]


ERRMAP = {
    "EOFError": "EOFError", "error": "Overflow", "OverflowError": "Overflow", "ArraySizeError": "ArraySizeError",
    "ValueError": "ValueError", "TypeError": "TypeError", "UnicodeDecodeError": "UnicodeError", "UnicodeEncodeError": "UnicodeError",
    "NullPointerDereference": "NullPointerDereference", "NotImplementedError": "NotImplementedError", "ResolveError": "ResolveError",
    "ExpressionParserError": "ExprError", "ExpressionTokenizerError": "ExprError", "ZeroDivisionError": "ExprError",
}


def err_class(e: BaseException) -> str:
    return ERRMAP.get(type(e).__name__, type(e).__name__)


def parse(T, data: bytes, pos: int = 0):
    """-> ('ok', obj, newpos) | ('err', class)"""
    s = io.BytesIO(data)
    s.seek(pos)
    try:
        v = T._read(s) if pos else T(s)
    except Exception as e:  # noqa: BLE001
        return ("err", err_class(e))
    return ("ok", v, s.tell())


def dump(T, v):
    try:
        return ("ok", T.dumps(v) if not hasattr(v, "dumps") else v.dumps())
    except Exception as e:  # noqa: BLE001
        return ("err", err_class(e))


def has_nan(c) -> bool:
    if isinstance(c, list):
        if len(c) == 2 and c[0] == "flt":
            return False
        return any(has_nan(x) for x in c)
    return False


def flt_is_nan(bits: int, size: int) -> bool:
    e, m = {2: (5, 10), 4: (8, 23), 8: (11, 52)}[size]
    ex = (bits >> m) & ((1 << e) - 1)
    return ex == (1 << e) - 1 and (bits & ((1 << m) - 1)) != 0


def same_val(real, model, ignore_union_buf=False) -> bool:
    """compare a canonical real value with the model's value; a real NaN matches any model float"""
    if isinstance(real, list) and isinstance(model, list):
        if ignore_union_buf and real and model and str(real[0]) == "union" and str(model[0]) == "union":
            return len(real) == len(model) and all(same_val(a, b, True) for a, b in zip(real[2:], model[2:]))
        if len(real) == 2 and real[0] == "flt" and real[1] == "nan":
            return len(model) == 2 and model[0] == "flt"
        return len(real) == len(model) and all(same_val(a, b, ignore_union_buf) for a, b in zip(real, model))
    if isinstance(real, (bytes, bytearray)):
        real = common.hx(bytes(real))
    if isinstance(model, (bytes, bytearray)):
        model = common.hx(bytes(model))
    return str(real) == str(model)


def contains_nan(c) -> bool:
    if isinstance(c, list):
        if len(c) == 2 and c[0] == "flt" and c[1] == "nan":
            return True
        return any(contains_nan(x) for x in c)
    return False


# ------------------------------------------------------------------------------------------------ histories on one instance
# (added for the multi-step probes of C01/C02/C04: configuration changes between operations on ONE cstruct instance)

class Session:
    """One cstruct instance that lives through a history: several `load` calls (each with its own compiled/align flags),
    changes of `cs.endian` / `cs.pointer` in between, parses and dumps.  Every step is recorded so that a violation can be
    replayed as a script (`script()`)."""

    def __init__(self, *, endian="<", pointer="uint64", preamble=True):
        m = dc()
        self.endian, self.pointer = endian, pointer
        self.cs = m.cstruct(endian=endian, pointer=pointer)
        self.steps: list[str] = [f"from dissect.cstruct import cstruct; cs = cstruct(endian={endian!r}, pointer={pointer!r})"]
        if preamble:
            self.load_text(defs.PREAMBLE + "#define K2 2\n#define K0 0\n")

    def note(self, step: str):
        self.steps.append(step)

    def load_text(self, text, *, compiled=False, align=False):
        self.steps.append(f"cs.load({text!r}, compiled={compiled}, align={align})")
        self.cs.load(text, compiled=compiled, align=align)

    def load(self, tree, name="T", *, compiled=False, align=False, text=None):
        """load one generated definition under `name`; -> a Loaded view bound to this (shared) instance"""
        text = text if text is not None else defs.render_struct(name, tree)
        self.load_text(text, compiled=compiled, align=align)
        return self.view(tree, name, text=text, compiled=compiled, align=align)

    def view(self, tree, name, *, text="", compiled=False, align=False):
        L = object.__new__(Loaded)
        L.tree, L.endian, L.align, L.compiled, L.pointer = tree, self.endian, align, compiled, self.pointer
        L.cs, L.text, L.T = self.cs, text, getattr(self.cs, name)
        L.session = self
        return L

    def set_endian(self, endian):
        self.steps.append(f"cs.endian = {endian!r}")
        self.cs.endian = endian
        self.endian = endian

    def set_pointer(self, pointer):
        self.steps.append(f"cs.pointer = cs.{pointer}")
        self.cs.pointer = getattr(self.cs, pointer)
        self.pointer = pointer

    def script(self, extra=()) -> str:
        return "\n".join([*self.steps, *extra])


def retarget(L, *, endian=None, pointer=None):
    """a copy of a Loaded view whose recorded configuration follows the instance's current one (for cfg_sexp / refimpl.Cfg)"""
    M = object.__new__(Loaded)
    M.__dict__.update(L.__dict__)
    if endian is not None:
        M.endian = endian
    if pointer is not None:
        M.pointer = pointer
    return M


def aggregates(tree, T, path="T"):
    """(path, subtree, real class) for every struct/union node of a generated tree (the top included), found by walking
    the tree and the real class side by side (arrays and pointers are peeled through `.type`)"""
    out = []
    k = tree[0]
    if k in ("arr", "ptr"):
        return aggregates(tree[1], T.type, path + ("[]" if k == "arr" else "*"))
    if k in ("struct", "union"):
        out.append((path, tree, T))
        for f, rf in zip(tree[1], T.__fields__):
            out += aggregates(f["ty"], rf.type, f"{path}.{rf._name}")
    return out
