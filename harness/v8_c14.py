"""Types shared between cstruct objects (helper of props/c14.py, round 7).

"Loading definitions, changing endianness or adding types on one cstruct object never affects types of another.  Parsing is a pure function
of type and bytes" - here for programs in which a type object of one cstruct object is REGISTERED ON ANOTHER one.  `add_type()` is documented
for "adding already bound types", so `b.add_type("hdr_le", a.hdr)`, `b.addtype("le16", a.uint16)`, `b.add_type("word_t", a.word_t,
replace=True)` are legal: `b` gets a further name for a type that belongs to `a`.  Whatever `b` then does with that name - parse through it,
embed it in its own structures (compiled or not, aligned or not), make arrays / pointers / bit fields of it, change its own endianness or
pointer width, hand it on to a third object - the type still belongs to `a`, and `a` must not notice any of it.

A session (every step is one line of Python source, executed by the harness and recorded; the replay scripts are made of these lines):
  * 2-3 cstruct objects c0, c1(, c2).  c0 and c1 differ in endianness (85 %) or at least in pointer width; pointer types uint64 / uint32 /
    uint16; `compiled` and `align` random per object.  All objects define the SAME type names - typedef `word_t`, enum / flag `E`, a small
    structure `N`, a main structure `S` (3-8 members: integers of 1-16 bytes, floats, char / wchar and arrays of them, integer arrays, the
    enum, the typedef, the nested structure and arrays of it, bit-field runs, a pointer, a count followed by an expression-sized array),
    optionally a union `U` - from the same text or from independently drawn texts.
  * share (definitional): `b.add_type(name, EXPR)` / `b.addtype(...)`, EXPR a type of ANOTHER object: `a.S`, `a.N`, `a.U`, `a.E`, `a.word_t`,
    `a.resolve("word_t")`, `a.typedefs["S"]`, built-in scalars (`a.uint16`, `a.int24`, `a.uint128`, `a.double`, `a.wchar`, `a.char`, ...),
    arrays made through the type (`a.uint16[3]`, `a.S[2]`, `a.N[2]`, `a.wchar[4]`), names `a` imported itself (handing on).  `name` is new in
    `b`, or (12 %) an existing name of `b` re-pointed with replace=True (`word_t`, `E`, `N`, `uint16`, `uint32`).  In 70 % of the sessions
    types only travel from lower to higher numbered objects (c0 only exports), otherwise in any direction.
  * embed (definitional): `b.load("struct W { uint8 t; ALIAS m; ALIAS v[2]; ALIAS *p; ALIAS f : 3; ALIAS d[t & 1]; own members ... };",
    compiled=?, align=?)`, unions of static imported types, `typedef ALIAS W;`.
  * use (not definitional; on any object, through own and imported names): parse good and truncated input, `.dumps()`, default
    construction, `T[2](...)`, `cs.read(name, ...)`, `len(T)`, `T.dumps(T(...))`, `cs.resolve(name)`.
  * configure (definitional): `x.endian = ...`, `x.pointer = x.uint32`; further own definitions loaded into any object.

Observation of a cstruct object (function `_obs8` below, embedded in every script): its endianness and pointer type, and for every name on
its probe list - its own names (S, N, U, E, word_t, 4-6 built-in scalars, structures loaded later from own types only) and its mixed names
(imported aliases, structures embedding them, re-pointed names) - the layout (name, size, alignment, dynamic, __align__, __compiled__, the
session variable of the cstruct object the type is bound to (`T.cs`), element type / count, fields: name, offset, bits, alignment, type
recursively), len(T), three parses (value by member name, stream position, dumps of the parsed value), default construction and its dump,
and a parse through `T[2]`.

Oracles, after every step acting on object X, for every object Y of the session:
  1. before / after: what Y showed before the step it shows after it, for
       - Y's own names: whenever Y is not X (whatever X did - sharing Y's types, loading, re-configuring), and for Y = X unless the step
         was `X.endian = ...` / `X.pointer = ...`;
       - Y's mixed names: unless the step re-configured (endian / pointer) X = Y or an object Y imported types from;
     (a name re-pointed by this very step with replace=True is left out for X).
  2. new universe: after every share for the owner of the type and for the importer, after 35 % of the other definitional steps for X and
     the objects that imported from X, and for all objects at the end of the session: Y shows what it shows in a new universe in which only the definitional lines
     (constructor, load, add_type, endian, pointer) of Y and of the objects Y (transitively) imported types from were executed - for an
     object that only exports, a universe in which no other cstruct object exists.
Every definitional line must succeed (the generator only writes lines the library accepts); one that raises is a violation as well.
Nothing is excluded.  Finding F8 (shared container defaults) is not in play: no instance is mutated in place here.

Not judged here (it is the same in the new universe, so it is no hidden state): on the unmodified library a structure of `b` that embeds a
packed integer of `a` reads that member with b's byte order when compiled and with a's byte order when interpreted.

Every reported case carries two standalone scripts (`script_a`, `script_b`) whose printed observations must be equal; `--replay` re-executes them.
"""
from __future__ import annotations

from . import impl, v4_c14

OBS8_SRC = r'''

def _lay8(T, univ, depth=0):
    g = lambda n: getattr(T, n, "<missing>")
    cs = getattr(T, "cs", None)
    own = next((k for k, o in univ.items() if o is cs), "<no session object>")
    out = [g("__name__"), g("size"), g("alignment"), g("dynamic"), getattr(T, "__align__", None), getattr(T, "__compiled__", None), "bound to " + own]
    if depth > 7:
        return out
    inner = getattr(T, "type", None)
    if isinstance(inner, type):
        ne = getattr(T, "num_entries", None)
        ne = ne if isinstance(ne, (int, type(None))) else ("expression", str(getattr(ne, "expression", type(ne).__name__)))
        out.append(("of", ne, getattr(T, "null_terminated", None), _lay8(inner, univ, depth + 1)))
    fs = getattr(T, "__fields__", None)
    if isinstance(fs, list):
        out.append([(f._name, f.offset, f.bits, f.alignment, _lay8(f.type, univ, depth + 1)) for f in fs])
    return out


def _obs8(cs, univ, names, probes):
    """-> {name: [(label, text)]}: what the names `names` of the cstruct object `cs` look like and do"""
    res = {"(configuration)": [("endian, pointer type, pointer size", repr(_try(lambda: (cs.endian, cs.pointer.__name__, cs.pointer.size))))]}
    for n in names:
        out = res[n] = []
        r = _try(lambda: cs.resolve(n))
        if r[0] != "ok" or not isinstance(r[1], type):
            out.append(("resolving " + n, repr(r)[:200]))
            continue
        T = r[1]
        out.append(("layout of " + n + " (name, size, alignment, dynamic, __align__, __compiled__, cstruct object it is bound to, fields: name, offset, bits, "
                    "alignment, type)", _norm(repr(_try(lambda: _lay8(T, univ))))))
        out.append(("len(" + n + ")", repr(_try(lambda: len(T)))))
        for d in probes:
            def parse():
                s = _io.BytesIO(d)
                v = T(s)
                return (_val(v), "stream position", s.tell(), "dumps", _try(lambda: v.dumps().hex()))
            out.append(("%s(bytes.fromhex(%r)) (value, stream position, dumps)" % (n, d.hex()), _norm(repr(_try(parse)))))
        def default():
            v = T()
            return (_val(v), "dumps", _try(lambda: v.dumps().hex()))
        out.append((n + "() (value, dumps)", _norm(repr(_try(default)))))
        def arr():
            s = _io.BytesIO(probes[0])
            v = T[2](s)
            return (_val(v), "stream position", s.tell(), "dumps", _try(lambda: v.dumps().hex()))
        out.append(("%s[2](bytes.fromhex(%r)) (value, stream position, dumps)" % (n, probes[0].hex()), _norm(repr(_try(arr)))))
    return res


def _show8(cs, univ, names, probes):
    for n, rows in _obs8(cs, univ, names, probes).items():
        for label, text in rows:
            print(label, "->", text)
'''
HEADER = "from dissect.cstruct import cstruct\n" + v4_c14.OBS_SRC + OBS8_SRC
_CODE = compile(v4_c14.OBS_SRC + OBS8_SRC, "<v8_c14 observation>", "exec")

# --------------------------------------------------------------------------------------------------------------------
# definitions
# --------------------------------------------------------------------------------------------------------------------
INTS = ["uint8", "int8", "uint16", "int16", "uint24", "int24", "uint32", "int32", "uint48", "uint64", "int64", "uint128", "int128", "uint16", "uint32"]
WORD_BASES = ["uint16", "uint32", "uint64", "int32", "uint24"]
ENUM_BASES = ["uint8", "uint16", "uint32", "uint64", "int32"]
BIT_STORES = {"uint8": 8, "uint16": 16, "uint32": 32, "uint64": 64}
# built-in names an object may be observed through / may export, with their kind
BUILTINS = {"uint8": "int", "uint16": "int", "int16": "int", "uint32": "int", "int32": "int", "uint24": "int", "int24": "int", "uint48": "int",
            "uint64": "int", "int64": "int", "uint128": "int", "int128": "int", "float": "float", "double": "float", "float16": "float",
            "wchar": "wchar", "char": "char"}


def gen_simple(rnd, menu):
    k = rnd.choice(menu)
    if k == "int":
        return f"{rnd.choice(INTS)} {{n}};"
    if k == "word":
        return "word_t {n};"
    if k == "float":
        return f"{rnd.choice(['float', 'double'])} {{n}};"
    if k == "char":
        return "char {n};"
    if k == "enum":
        return "E {n};"
    if k == "intarr":
        return f"{rnd.choice(INTS)} {{n}}[{rnd.randint(1, 4)}];"
    if k == "chararr":
        return f"char {{n}}[{rnd.randint(1, 5)}];"
    if k == "wchar":
        return "wchar {n};"
    if k == "wchararr":
        return f"wchar {{n}}[{rnd.randint(1, 3)}];"
    if k == "nested":
        return "N {n};"
    if k == "nestedarr":
        return f"N {{n}}[{rnd.randint(1, 3)}];"
    if k == "ptr":
        return f"{rnd.choice(['uint16', 'N', 'char', 'word_t'])} *{{n}};"
    raise AssertionError(k)


def gen_def(rnd):
    """-> (text, {"dyn": S is dynamically sized, "union": U exists})"""
    cnt = [0]

    def nm(p="m"):
        cnt[0] += 1
        return f"{p}{cnt[0]}"

    out = [f"typedef {rnd.choice(WORD_BASES)} word_t;",
           f"{rnd.choice(['enum', 'enum', 'flag'])} E : {rnd.choice(ENUM_BASES)} {{ EA = 1, EB = 2, EC = 4 }};"]
    out.append("struct N { " + " ".join(gen_simple(rnd, ["int", "int", "int", "char", "float", "enum", "word"]).format(n=nm()) for _ in range(rnd.randint(1, 3))) + " };")
    ms, want, prev_store = [], rnd.randint(3, 8), None
    menu = ["int", "int", "int", "word", "intarr", "intarr", "float", "char", "chararr", "wchar", "wchararr", "enum", "nested", "nested", "nestedarr", "bits", "ptr"]
    while len(ms) < want:
        k = rnd.choice(menu)
        if k == "bits":
            store = rnd.choice([s for s in BIT_STORES if s != prev_store])   # (a run directly after a run on the same storage type would continue that unit)
            left = BIT_STORES[store]
            for _ in range(rnd.randint(1, 3)):
                if left <= 0:
                    break
                w = rnd.randint(1, min(left, rnd.choice([3, 7, 12, 20])))
                ms.append(f"{store} {nm('b')} : {w};")
                left -= w
            prev_store = store
        else:
            ms.append(gen_simple(rnd, [k]).format(n=nm()))
            prev_store = None
    dyn = rnd.random() < 0.35
    if dyn:
        c = nm("k")
        ms.append(f"{rnd.choice(['uint8', 'uint16'])} {c};")
        ms.append(f"{rnd.choice(['uint8', 'uint16', 'uint32', 'int16', 'word_t', 'N'])} {nm('d')}[{rnd.choice(['{c} & 3', '{c} % 3', '({c} & 1) + 1']).format(c=c)}];")
        if rnd.random() < 0.5:
            ms.append(gen_simple(rnd, ["int"]).format(n=nm()))
    out.append("struct S { " + " ".join(ms) + " };")
    union = rnd.random() < 0.4
    if union:
        out.append("union U { " + " ".join(gen_simple(rnd, ["int", "intarr", "chararr", "word"]).format(n=nm("u")) for _ in range(rnd.randint(2, 3))) + " };")
    return "\n".join(out), {"dyn": dyn, "union": union}


class StepFailed(Exception):
    def __init__(self, src, exc):
        super().__init__(src)
        self.src, self.exc = src, exc


class Session:
    def __init__(self, dc, rnd):
        self.rnd, self.dc = rnd, dc
        self.ns = {"cstruct": dc.cstruct}
        exec(_CODE, self.ns)  # noqa: S102 - our own source text above
        self.lines: list[tuple] = []   # (actor index | None, "def" | "use", source)
        self.objs: list[dict] = []     # {"var", "endian", "pointer", "info", "own": {name: kind}, "mixed": {name: kind}, "imports": set of indices, "repointed": bool}
        self.counter = 0
        self.shares = 0
        self.probes = [bytes(rnd.randrange(256) for _ in range(128)), bytes(rnd.choice([0, 1, 2, 3, 0x41, 0xFF]) for _ in range(128)),
                       bytes(rnd.randrange(256) for _ in range(rnd.randint(0, 9)))]
        self.oneway = rnd.random() < 0.7

    def name(self, p):
        self.counter += 1
        return f"{p}{self.counter}"

    def run(self, actor, kind, src):
        self.lines.append((actor, kind, src))
        try:
            exec(compile(src, "<v8_c14 step>", "exec"), self.ns)  # noqa: S102 - lines generated by this module
        except Exception as e:  # noqa: BLE001
            raise StepFailed(src, e) from None

    def univ_src(self, ks):
        return "{" + ", ".join(f"{self.objs[k]['var']!r}: {self.objs[k]['var']}" for k in sorted(ks)) + "}"

    def deps(self, k):
        """k and every object k (transitively) imported types from"""
        seen, todo = set(), [k]
        while todo:
            j = todo.pop()
            if j not in seen:
                seen.add(j)
                todo += list(self.objs[j]["imports"])
        return seen

    def names(self, k):
        o = self.objs[k]
        return list(o["own"]) + list(o["mixed"])

    def observe(self, k):
        return self.ns["_obs8"](self.ns[self.objs[k]["var"]], {o["var"]: self.ns[o["var"]] for o in self.objs}, self.names(k), self.probes)

    def twin_lines(self, k):
        ds = self.deps(k)
        return [src for a, kind, src in self.lines if kind == "def" and a in ds], ds

    def twin(self, k):
        """observation of object k in a new universe that executes only the definitional lines of k and of the objects it imported from"""
        lines, ds = self.twin_lines(k)
        ns = {"cstruct": self.dc.cstruct}
        exec(_CODE, ns)  # noqa: S102
        try:
            for src in lines:
                exec(compile(src, "<v8_c14 new universe>", "exec"), ns)  # noqa: S102
        except Exception as e:  # noqa: BLE001
            return {"(new universe)": [("executing the definitional lines", f"raises {type(e).__name__}: {str(e)[:120]}")]}
        return ns["_obs8"](ns[self.objs[k]["var"]], {self.objs[j]["var"]: ns[self.objs[j]["var"]] for j in ds}, self.names(k), self.probes)

    def show_src(self, k, ks, names):
        return f"_show8({self.objs[k]['var']}, {self.univ_src(ks)}, {list(names)!r}, {self.probes!r})"

    # ------------------------------------------------------------------------------------------------------------ setup
    def setup(self):
        rnd = self.rnd
        n = rnd.choice([2, 2, 3])
        first = rnd.choice("<>")
        text0, info0 = gen_def(rnd)
        ptr0 = rnd.choice(["uint64", "uint64", "uint32", "uint16"])
        for k in range(n):
            if k == 0:
                endian, pointer = first, ptr0
            elif k == 1:
                if rnd.random() < 0.85:
                    endian, pointer = {"<": ">", ">": "<"}[first], rnd.choice(["uint64", "uint32", "uint16", ptr0])
                else:
                    endian, pointer = first, rnd.choice([p for p in ["uint64", "uint32", "uint16"] if p != ptr0])
            else:
                endian, pointer = rnd.choice("<>"), rnd.choice(["uint64", "uint32", "uint16"])
            text, info = (text0, info0) if (k == 0 or rnd.random() < 0.5) else gen_def(rnd)
            var = f"c{k}"
            own = {"S": "dynstruct" if info["dyn"] else "struct", "N": "struct", "E": "enum", "word_t": "int"}
            if info["union"]:
                own["U"] = "struct"
            for b in rnd.sample(sorted(BUILTINS), rnd.randint(4, 6)):
                own[b] = BUILTINS[b]
            self.objs.append({"var": var, "endian": endian, "pointer": pointer, "info": info, "own": own, "mixed": {}, "imports": set(), "repointed": False,
                              "text": text})
            self.run(k, "def", f"{var} = cstruct(endian={endian!r}, pointer={pointer!r})")
            self.run(k, "def", f"{var}.load({text!r}, compiled={rnd.random() < 0.5}, align={rnd.random() < 0.3})")

    # ------------------------------------------------------------------------------------------------------------ steps
    def export_expr(self, a):
        """-> (python expression of a type of object a, kind)"""
        rnd, o = self.rnd, self.objs[a]
        v = o["var"]
        r = rnd.random()

        def kind_of(n):   # (a name of this object that was re-pointed to a foreign type has the kind of that type)
            return o["mixed"].get(n) or o["own"].get(n) or BUILTINS[n]

        if r < 0.12 and o["mixed"]:
            n = rnd.choice(sorted(o["mixed"]))          # handing on what it imported / built from imports
            return f"{v}.{n}", o["mixed"][n]
        if r < 0.55:
            n = rnd.choice([x for x in ("S", "S", "N", "E", "word_t", "U") if x in o["own"] or x in o["mixed"]])
            form = rnd.random()
            expr = f"{v}.{n}" if form < 0.7 else (f"{v}.resolve({n!r})" if form < 0.85 else f"{v}.typedefs[{n!r}]")
            return expr, kind_of(n)
        if r < 0.85:
            n = rnd.choice(sorted(BUILTINS))
            return f"{v}.{n}", kind_of(n)
        n = rnd.choice(["uint16", "uint32", "int24", "S", "N", "wchar", "word_t", "E", "double", "uint64"])
        return f"{v}.{n}[{rnd.randint(1, 3)}]", "array"

    def share(self):
        rnd = self.rnd
        n = len(self.objs)
        if self.oneway:
            b = rnd.randrange(1, n)
            a = rnd.randrange(0, b)
        else:
            a, b = rnd.sample(range(n), 2)
        expr, kind = self.export_expr(a)
        ob = self.objs[b]
        method = rnd.choice(["add_type", "add_type", "addtype"])
        if rnd.random() < 0.12:
            name = rnd.choice(["word_t", "E", "N", "uint16", "uint32"])
            src = f"{ob['var']}.{method}({name!r}, {expr}, replace=True)"
            ob["own"].pop(name, None)
            ob["repointed"] = True
            what = "share:re-point-existing-name"
        else:
            name = self.name("x")
            src = f"{ob['var']}.{method}({name!r}, {expr})"
            what = "share:new-name"
        ob["mixed"][name] = kind
        ob["imports"].add(a)
        self.shares += 1
        return b, "def", src, f"{what}:{kind}", {"owner": a, "replaced": name}

    def embed(self):
        rnd = self.rnd
        cands = [k for k, o in enumerate(self.objs) if o["mixed"]]
        if not cands:
            return self.share()
        b = rnd.choice(cands)
        ob = self.objs[b]
        v = ob["var"]
        cnt = [0]

        def nm(p="m"):
            cnt[0] += 1
            return f"{p}{cnt[0]}"

        def member(alias, kind):
            forms = {"struct": ["{a} {n};", "{a} {n};", "{a} {n}[2];", "{a} *{n};", "{a} {n}[t & 1];"],
                     "dynstruct": ["{a} {n};", "{a} {n};", "{a} {n}[2];", "{a} *{n};", "{a} {n}[t & 1];"],
                     "int": ["{a} {n};", "{a} {n};", "{a} {n}[3];", "{a} *{n};", "{a} {n}[t & 3];", "BITS"],
                     "enum": ["{a} {n};", "{a} {n}[2];", "{a} {n}[t & 1];"],
                     "float": ["{a} {n};", "{a} {n}[2];"], "wchar": ["{a} {n};", "{a} {n}[3];"], "char": ["{a} {n};", "{a} {n}[4];"],
                     "array": ["{a} {n};", "{a} *{n};"]}[kind]
            f = rnd.choice(forms)
            if f == "BITS":
                return " ".join(f"{alias} {nm('b')} : {rnd.randint(1, 4)};" for _ in range(rnd.randint(1, 2)))
            return f.format(a=alias, n=nm())

        name = self.name("W")
        aliases = sorted(ob["mixed"].items())
        r = rnd.random()
        static = [(a, k) for a, k in aliases if k in ("int", "enum", "float", "char", "wchar", "struct")]
        if r < 0.12:
            a, k = rnd.choice(aliases)
            text, kind, what = f"typedef {a} {name};", k, "embed:typedef"
        elif r < 0.25 and static:
            ms = [f"{a} {nm('u')};" for a, k in rnd.sample(static, min(len(static), rnd.randint(1, 2)))] + [gen_simple(rnd, ["int", "intarr"]).format(n=nm("u"))]
            rnd.shuffle(ms)
            text, kind, what = f"union {name} {{ " + " ".join(ms) + " };", "struct", "embed:union"
        else:
            ms = [member(*rnd.choice(aliases)) for _ in range(rnd.randint(1, 4))]
            ownmenu = ["int", "int", "intarr", "char", "float"] + [m for m, n in (("word", "word_t"), ("enum", "E"), ("nested", "N")) if n in ob["own"] or n in ob["mixed"]]
            ms += [gen_simple(rnd, ownmenu).format(n=nm()) for _ in range(rnd.randint(0, 3))]
            rnd.shuffle(ms)
            text, kind, what = f"struct {name} {{ uint8 t; " + " ".join(ms) + " };", "dynstruct", "embed:struct"
        kw = ""
        if rnd.random() < 0.7:
            kw += f", compiled={rnd.random() < 0.5}"
        if rnd.random() < 0.4:
            kw += f", align={rnd.random() < 0.5}"
        ob["mixed"][name] = kind
        return b, "def", f"{v}.load({text!r}{kw})", what + (":compiled" if "compiled=True" in kw else ":interpreted"), {}

    def use(self):
        rnd = self.rnd
        k = rnd.randrange(len(self.objs))
        o = self.objs[k]
        v = o["var"]
        pool = sorted(o["mixed"]) * 4 + sorted(o["own"])
        n = rnd.choice(pool)
        T = f"{v}.{n}" if n.isidentifier() else f"{v}.resolve({n!r})"
        data = bytes(rnd.randrange(256) for _ in range(rnd.choice([96, 96, 64, 200])))
        short = bytes(rnd.randrange(256) for _ in range(rnd.randint(0, 3)))
        form, expr = rnd.choice([
            ("parse", f"{T}(bytes.fromhex({data.hex()!r}))"), ("parse", f"{T}(bytes.fromhex({data.hex()!r}))"),
            ("parse-and-dump", f"{T}(bytes.fromhex({data.hex()!r})).dumps()"), ("parse-and-dump", f"{T}.dumps({T}(bytes.fromhex({data.hex()!r})))"),
            ("default", f"{T}()"), ("default-and-dump", f"{T}().dumps()"),
            ("array-through-the-type", f"{T}[{rnd.randint(1, 3)}](bytes.fromhex({data.hex()!r}))"),
            ("cs.read", f"{v}.read({n!r}, bytes.fromhex({data.hex()!r}))"),
            ("truncated-parse", f"{T}(bytes.fromhex({short.hex()!r}))"), ("len", f"len({T})"), ("resolve", f"{v}.resolve({n!r})"),
            ("write", f"{T}(bytes.fromhex({data.hex()!r})).write(_io.BytesIO())"),
        ])
        return k, "use", f"_r = _try(lambda: {expr})", f"use:{form}:{'imported-or-mixed' if n in o['mixed'] else 'own'}-name", {}

    def configure(self):
        rnd = self.rnd
        k = rnd.randrange(len(self.objs))
        o = self.objs[k]
        if rnd.random() < 0.65:
            e = rnd.choice("<>")
            return k, "def", f"{o['var']}.endian = {e!r}", "configure:endian", {"config": True}
        p = rnd.choice([t for t in ("uint64", "uint32", "uint16") if t not in o["mixed"]] or ["int64"])   # (not a name that was re-pointed to a foreign type)
        return k, "def", f"{o['var']}.pointer = {o['var']}.{p}", "configure:pointer", {"config": True}

    def load_more(self):
        rnd = self.rnd
        k = rnd.randrange(len(self.objs))
        o = self.objs[k]
        name = self.name("M")
        menu = ["int", "int", "intarr", "float", "chararr", "wchar", "ptr"] + [m for m, n in (("word", "word_t"), ("enum", "E"), ("nested", "N"), ("nestedarr", "N")) if n in o["own"] or n in o["mixed"]]
        ms = [gen_simple(rnd, menu).format(n=f"m{i}") for i in range(rnd.randint(1, 4))]
        # (after a name of this object was re-pointed to a foreign type, what it loads may contain foreign types: observed as mixed)
        (o["mixed"] if o["repointed"] else o["own"])[name] = "struct"
        return k, "def", f"{o['var']}.load({('struct ' + name + ' { ' + ' '.join(ms) + ' };')!r}, compiled={rnd.random() < 0.5})", "load-own-definition", {}


def _diff(got, want, names):
    for n in names:
        g, w = got.get(n), want.get(n)
        if g != w:
            g, w = g or [("(missing)", "")], w or [("(missing)", "")]
            pairs = [(x, y) for x, y in zip(g, w) if x != y] or [(g[-1], w[-1])]
            # (what the type DOES - a parse, a dump - is reported rather than how it looks, when both differ)
            a, b = next(((x, y) for x, y in pairs if not x[0].startswith("layout")), pairs[0])
            return n, a, b
    return None


def shared_session(env, res, viol, rnd, dc, nsteps):
    sess = Session(dc, rnd)
    try:
        sess.setup()
        before = [sess.observe(k) for k in range(len(sess.objs))]
        endian = {o["var"]: (o["endian"], o["pointer"]) for o in sess.objs}

        def report(oracle, y, hit, got_label, want_label, script_a, script_b, step):
            n, a, b = hit
            viol(f"types shared between cstruct objects: after `{step[:200]}` ({oracle}) {sess.objs[y]['var']} shows {a[0]} = {str(a[1])[:260]}; "
                 f"{want_label}: {b[0] if b[0] != a[0] else ''} {str(b[1])[:260]}",
                 {"family": "v8:shared", "oracle": oracle, "step": step, "object": sess.objs[y]["var"], "name": n, "what": a[0],
                  got_label: str(a[1])[:2000], want_label: str(b[1])[:2000], "endianness and pointer type at construction": endian,
                  "session": [src[:300] for _, _, src in sess.lines], "script_a": script_a, "script_b": script_b})

        def check_twin(y, step, got):
            want = sess.twin(y)
            res.count(("v8:shared:new-universe", tuple(s for _, _, s in sess.lines), y), sess.shares > 0)
            res.feat("v8:shared:oracle:new-universe" + (":object-that-only-exports" if len(sess.deps(y)) == 1 else ":object-with-imports"))
            hit = _diff(got, want, ["(new universe)", "(configuration)"] + sess.names(y))
            if hit is None:
                return True
            lines, ds = sess.twin_lines(y)
            everyone = range(len(sess.objs))
            report("compared with a new universe that executed only the definitional lines of the objects concerned", y, hit, "in the session",
                   "in the new universe", "\n".join([HEADER] + [s for _, _, s in sess.lines] + [sess.show_src(y, everyone, [hit[0]])]),
                   "\n".join([HEADER] + lines + [sess.show_src(y, ds, [hit[0]])]), step)
            return False

        for _ in range(nsteps):
            r = rnd.random()
            step = sess.share() if (r < 0.3 or not sess.shares) else sess.embed() if r < 0.5 else sess.use() if r < 0.85 else \
                sess.configure() if r < 0.94 else sess.load_more()
            x, kind, src, what, extra = step
            sess.run(x, kind, src)
            res.feat("v8:shared:step:" + what)
            after = [sess.observe(k) for k in range(len(sess.objs))]
            config = bool(extra.get("config"))
            for y, oy in enumerate(sess.objs):
                own = [n for n in oy["own"] if n in before[y]]
                mixed = [n for n in oy["mixed"] if n in before[y] and not (y == x and n == extra.get("replaced"))]
                names = []
                if not (config and y == x):
                    names += ["(configuration)"] + own
                if not (config and x in sess.deps(y)):
                    names += mixed
                res.count(("v8:shared:before-after", tuple(s for _, _, s in sess.lines), y), sess.shares > 0)
                if y != x:
                    res.feat("v8:shared:oracle:before-after:other-object" + (":owner-of-the-type-just-shared" if extra.get("owner") == y else ""))
                hit = _diff(after[y], before[y], names)
                if hit is not None:
                    everyone = range(len(sess.objs))
                    report("before / after" + ("" if y == x else f"; the step acted on {sess.objs[x]['var']}"), y, hit, "after the step", "before the step",
                           "\n".join([HEADER] + [s for _, _, s in sess.lines] + [sess.show_src(y, everyone, [hit[0]])]),
                           "\n".join([HEADER] + [s for _, _, s in sess.lines[:-1]] + [sess.show_src(y, everyone, [hit[0]])]), src)
                    return
            before = after
            if kind == "def":
                # (a new universe costs as much as the session so far: always for the two parties of a share, now and then for the others)
                if "owner" in extra:
                    todo = [extra["owner"], x]
                else:
                    todo = [y for y in range(len(sess.objs)) if (y == x or x in sess.deps(y)) and rnd.random() < 0.35]
                for y in todo:
                    if not check_twin(y, src, after[y]):
                        return
        for y in range(len(sess.objs)):
            if not check_twin(y, sess.lines[-1][2] + "   # (end of the session)", before[y]):
                return
        res.feat("v8:shared:session-completed")
        if any(o["endian"] != sess.objs[0]["endian"] for o in sess.objs):
            res.feat("v8:shared:objects-differ-in-endianness")
        if any(o["pointer"] != sess.objs[0]["pointer"] for o in sess.objs):
            res.feat("v8:shared:objects-differ-in-pointer-width")
    except StepFailed as e:
        res.feat("v8:shared:line-raised")
        viol(f"a call that must succeed raises {type(e.exc).__name__}: {str(e.exc)[:200]} - line `{e.src[:300]}` of a session that shares types between "
             "cstruct objects (constructor / load / add_type of an already bound type / endian / pointer)",
             {"family": "v8:shared-line", "line": e.src, "script": "\n".join([HEADER] + [s for _, _, s in sess.lines])})


def run(env, res, viol, rnd, n, steps=(6, 14)):
    dc = impl.dc()
    for _ in range(n):
        try:
            shared_session(env, res, viol, rnd, dc, rnd.randint(*steps))
        except Exception as e:  # noqa: BLE001 - the library must not trip the harness
            viol(f"a shared-types session raised {type(e).__name__}: {str(e)[:200]} outside the recorded lines", {"family": "v8:shared-harness"})


def _run_script(src):
    import contextlib
    import io
    buf = io.StringIO()
    with contextlib.redirect_stdout(buf):
        try:
            exec(compile(src, "<v8_c14 replay>", "exec"), {})  # noqa: S102 - scripts written by this module
        except Exception as e:  # noqa: BLE001
            print("script-error:", type(e).__name__, str(e)[:200])
    return buf.getvalue()


def replay(case) -> int:
    """re-run the recorded scripts on the current tree: 1 = the two universes still show different things"""
    impl.dc()
    if case.get("family") == "v8:shared-line":
        out = _run_script(case["script"])
        if "script-error:" in out:
            print("still fails:", out.strip().split("\n")[-1][:400])
            return 1
        print("the case passes on this tree")
        return 0
    if "script_a" not in case:
        return 0
    a, b = _run_script(case["script_a"]).split("\n"), _run_script(case["script_b"]).split("\n")
    if a != b:
        d = next((i for i, (x, y) in enumerate(zip(a, b)) if x != y), min(len(a), len(b)) - 1)
        print("session / after :", a[d][:600] if d < len(a) else "(missing)")
        print("other universe  :", b[d][:600] if d < len(b) else "(missing)")
        print("still fails: an object shows something else than before the step / than in a new universe")
        return 1
    print("the case passes on this tree")
    return 0
