"""C20, round 10: STUBS REGENERATED AFTER THE DEFINITIONS CHANGED.

Every other family of C20 renders the stub of a freshly loaded cstruct object exactly once.  This one walks the stub generator's
entry points REPEATEDLY IN ONE PROCESS while the definitions change underneath through the public API, on one cstruct object and on
two cstruct objects that hold same-named but different structures.  A case is a SCRIPT over the abstract definition sets of
harness/v9_c20.py (the harness wrote the items, so it knows - without asking the library - which names each object defines and which
data attributes every structure has at every moment):

    objects     1 or 2 cstruct objects; the second holds a VARIANT of the first set (the same names; structures with fields removed /
                added), under its own endianness / pointer width / compiled / aligned options and its own loading route
                (load, loadfile, split load calls, construction API with fields at creation or through add_field, load + API mixed,
                legacy parser text / file for legacy-compatible sets)
    initial     every object is rendered once before anything changes
    steps       2-5 (thorough: 2-8) of
        add-field          S.add_field(...) x 1-3 on a top-level structure / union, one commit per field or inside
                           `with S.start_update():` - scalars, user types, arrays (fixed, multi-dimensional, constant-sized,
                           null-terminated), pointers, bit-fields, named and anonymous nested members made with _make_struct / _make_union
        add-field-nested   the same on the type of a NAMED NESTED member (`struct {...} x;`, `struct In {...} x[2];`) - the structure
                           that the enclosing class renders as an inline class
        load-more          further definitions into the same object (load, loadfile, legacy parser, construction API) that may use
                           the structures changed before
        replace-type       cs.add_type(name, <new type>, replace=True) on a name nothing else refers to: a structure / union /
                           enum / alias becomes another structure of the SAME NAME with other fields, or an alias of another type
        register-nested    cs.add_type(tag, <type of a tagged nested member>): what was rendered inline is global from now on
        none               nothing changes (plain regeneration)
    after every step the object the step touched (and, often, the other one) is rendered again

Entry points walked per rendering: generate_cstruct_stub(cs); generate_structure_stub(T, cs_prefix="cstruct.") for every structure;
generate_structure_stub(T, ...) under another spelling of the prefixes (none, cs_prefix only, cs_prefix + module_prefix);
generate_cstruct_stub(cs, module_prefix=, cls_name=); now and then generate_file_stub on a real module that exposes the LIVE objects
(both of them in one file).

Oracle after every rendering = the property for the CURRENT definitions, from the abstract items the harness maintains (never a
comparison with an earlier text): the module's AST oracle, NAMES / FIELDS / INSTANCES of harness/v9_c20.py (the stub declares every
name the object defines now, exactly once, nothing else - a replaced name as what it is now; every structure class and inline class
annotates exactly the current data attributes in order - fields added through add_field included - with the hint the declaration
prescribes, and repeats them as __init__ keywords; a parsed instance provides every declared name), the field-name lists of the
other prefix spellings, and for the file stub: one class `_<var>` per live object, each declaring exactly its own object's names and
fields.  The final state of every object goes to the Lean model as well.

Documented exclusions (behaviour of the UNMODIFIED library, not a stub matter):
* add-field-nested never targets an ANONYMOUS member: the enclosing structure folds the fields of an anonymous member into its own
  table when IT is committed (Structure._update_fields), so a field added to the anonymous member afterwards is not an attribute of
  the enclosing structure until that one is committed again - there is nothing for the stub to name.
* replace-type only replaces names that no other definition of the set refers to: a field keeps the type OBJECT it was declared
  with, whose name then resolves to the new type on the cstruct object (the hint `cstruct.<name>` would name another type than the
  field's) - a consequence of replace=True, not of the stub generator.
* new fields only use types defined BEFORE the structure they are added to (no structure may come to contain itself).
* parsed INSTANCES of a structure that embeds a structure which was extended afterwards are not looked at (see mark_stale: the
  enclosing structure keeps the layout / the compiled reader of its own last commit); its stub is checked in full.
"""
from __future__ import annotations

import ast
import json
import os
import random
import shutil
import sys
import tempfile
import types as pytypes

from . import v9_c20 as v9
from .v9_c20 import _f, _sc, _st, folded, unwrap, wrap

SHARED = "c20v10_shared"
PREFIXES = [{}, {"cs_prefix": "cs."}, {"cs_prefix": "_c_def.", "module_prefix": "__cs__."}, {"cs_prefix": "cstruct.", "module_prefix": "dc."}]
OPS = ["add-field"] * 5 + ["add-field-nested"] * 4 + ["load-more"] * 3 + ["replace-type"] * 3 + ["register-nested"] * 3 + ["none"]


def jcopy(x):
    return json.loads(json.dumps(x))


# --------------------------------------------------------------------------------------------- abstract state

def all_names(it):
    if it["k"] in ("enum", "alias"):
        return [it["name"]]
    if it["k"] == "struct":
        return ([it["tag"]] if it["tag"] else []) + it["names"]
    return []


def scope(items, i):
    """(type names, enum names) defined by the items before index i"""
    names, enums = [], set()
    for it in items[:i]:
        names.extend(all_names(it))
        if it["k"] == "enum":
            enums.add(it["name"])
    return names, enums


def referenced(items):
    """every type name some item refers to"""
    out = set()

    def walk(ty):
        if ty[0] == "sc":
            out.add(ty[1])
        elif ty[0] in ("ptr", "arr"):
            walk(ty[1])
        else:
            for f in ty[3]:
                walk(f["ty"])

    for it in items:
        if it["k"] == "alias":
            walk(it["ty"])
        elif it["k"] == "struct":
            for f in it["fields"]:
                walk(f["ty"])
    return out


def find_field(fields, name):
    """the field dict that gives instances the data attribute `name` (anonymous members searched)"""
    for f in fields:
        if f["name"] is None:
            got = find_field(f["ty"][3], name)
            if got is not None:
                return got
        elif f["name"] == name:
            return f
    return None


def nested_members(it):
    """[(data attribute name, aggregate tree)] of the NAMED nested members of a structure item (through anonymous members)"""
    out = []
    for name, ty, _ in folded(it["fields"]):
        base, stars, _ = unwrap(ty)
        if base[0] == "agg" and not stars:
            out.append((name, base))
    return out


def apply_abstract(items, st):
    """the step's effect on the abstract definition set"""
    op = st["op"]
    if op == "add-field":
        items[st["item"]]["fields"].extend(jcopy(st["fields"]))
    elif op == "add-field-nested":
        f = find_field(items[st["item"]]["fields"], st["member"])
        unwrap(f["ty"])[0][3].extend(jcopy(st["fields"]))
    elif op == "load-more":
        items.extend(jcopy(st["items"]))
    elif op == "replace-type":
        items[st["item"]] = jcopy(st["new"])
    elif op == "register-nested":
        f = find_field(items[st["item"]]["fields"], st["member"])
        base, _, dims = unwrap(f["ty"])
        f["ty"] = wrap(["sc", base[2]], 0, dims)
        items.insert(st["item"], _st(base[1], "plain", base[2], [], base[3]))


# --------------------------------------------------------------------------------------------- generator of scripts

class Scoped:
    """limit the generator's type names to the ones defined before item i while new fields are written"""

    def __init__(self, g, items, i, legacy=False):
        self.g, self.names, self.legacy = g, scope(items, i), legacy
        self.consts = [it["name"] for it in items[:i] if it["k"] == "const" and it["text"] in ("1", "2", "3", "4")]

    def __enter__(self):
        g = self.g
        self.saved = (g.types, g.arrayable, g.legacy, g.consts)
        g.types, g.arrayable, g.legacy, g.consts = list(self.names[0]), set(self.names[1]), self.legacy, list(self.consts)
        return g

    def __exit__(self, *a):
        self.g.types, self.g.arrayable, self.g.legacy, self.g.consts = self.saved


def new_fields(g, items, i, it, n, nest):
    taken = {w[0] for w in folded(it["fields"])}
    with Scoped(g, items, i):
        return jcopy(g.fields(n, 0 if nest else 1, taken, it["kind"], 1))


def plant_nested(rnd, g, items):
    """give a structure of the set a named nested member (often tagged, sometimes an array of)"""
    idx = [i for i, it in enumerate(items) if it["k"] == "struct"]
    if not idx:
        return
    i = rnd.choice(idx)
    it = items[i]
    taken = {w[0] for w in folded(it["fields"])}
    k2 = rnd.choice(["struct", "struct", "union"])
    with Scoped(g, items, i):
        sub = jcopy(g.fields(rnd.randint(1, 3), 1, set(), k2, 1))
        tag = g.fresh("In") if rnd.random() < 0.65 else None
        it["fields"].insert(rnd.randint(0, len(it["fields"])), {"name": g.fname(taken), "ty": wrap(["agg", k2, tag, sub], 0, rnd.choice([[], [], [2], [2, 3], [1]]))})


def variant(rnd, g, items):
    """the same names, other structures"""
    out = jcopy(items)
    idx = [i for i, it in enumerate(out) if it["k"] == "struct"]
    for i in idx:
        it = out[i]
        if i != idx[-1] and rnd.random() < 0.35:
            continue
        if rnd.random() < 0.4 and len(it["fields"]) > 1 and not it.get("selfref"):
            it["fields"].pop(rnd.randrange(len(it["fields"])))
        else:
            it["fields"].extend(new_fields(g, out, i, it, rnd.randint(1, 2), not v9.legacy_ok(items)))
    return out


def make_step(rnd, g, items, op, legacy_set):
    """a step of kind `op` for the abstract set, or None when the set has no target for it"""
    structs = [i for i, it in enumerate(items) if it["k"] == "struct"]
    if op == "none":
        return {"op": "none"}
    if op == "add-field":
        if not structs:
            return None
        i = rnd.choice(structs)
        it = items[i]
        return {"op": op, "item": i, "target": v9.type_name_of(it), "mode": rnd.choice(["commit", "update", "update"]),
                "fields": new_fields(g, items, i, it, rnd.randint(1, 3), True)}
    if op in ("add-field-nested", "register-nested"):
        cands = []
        for i in structs:
            for name, base in nested_members(items[i]):
                if op == "add-field-nested" or base[2]:
                    cands.append((i, name, base))
        if not cands:
            return None
        i, name, base = rnd.choice(cands)
        if op == "register-nested":
            return {"op": op, "item": i, "target": v9.type_name_of(items[i]), "member": name, "tag": base[2]}
        taken = {w[0] for w in folded(base[3])}
        with Scoped(g, items, i):
            fields = jcopy(g.fields(rnd.randint(1, 2), 1, taken, base[1], 1))
        return {"op": op, "item": i, "target": v9.type_name_of(items[i]), "member": name, "mode": rnd.choice(["commit", "update"]), "fields": fields}
    if op == "load-more":
        route = rnd.choice(["load", "load", "loadfile", "api"] + (["legacy", "legacy-file"] if legacy_set else []))
        with Scoped(g, items, len(items), legacy=route.startswith("legacy")):
            g.items = []
            for _ in range(rnd.randint(1, 3)):
                x = rnd.random()
                if x < 0.6:
                    g.add_struct()
                elif x < 0.75:
                    g.add_alias()
                elif x < 0.9:
                    g.add_enum()
                else:
                    g.add_const()
            new = jcopy(g.items)
            g.items = []
        return {"op": op, "route": route, "items": new}
    if op == "replace-type":
        refd = referenced(items)
        cands = [i for i, it in enumerate(items) if len(all_names(it)) == 1 and all_names(it)[0] not in refd]
        if not cands:
            return None
        i = rnd.choice(cands)
        name = all_names(items[i])[0]
        x = rnd.random()
        with Scoped(g, items, i):
            if x < 0.6:
                kind = rnd.choice(["struct", "struct", "union"])
                new = _st(kind, "plain", name, [], jcopy(g.fields(rnd.randint(1, 4), 0, set(), kind, 1)))
            elif x < 0.85:
                tgt = rnd.choice([t for t in g.types + v9.SCALARS if t not in v9.LEB])
                new = {"k": "alias", "name": name, "ty": wrap(["sc", tgt], *rnd.choice([(0, []), (0, []), (1, []), (0, [2]), (2, []), (0, [2, 3])])), "byname": False}
            else:
                g.items = []
                g.add_enum()
                new = jcopy(g.items[-1])
                new["name"] = name
                g.items = []
        return {"op": op, "item": i, "name": name, "new": new}
    return None


def gen_case(rnd, mw, tier):
    legacy = rnd.random() < 0.18
    g = v9.DefGen(rnd, legacy=legacy, deep=(not legacy and rnd.random() < 0.3), multiword=mw)
    g.definition_set(nstructs=rnd.randint(1, 2))
    items = jcopy(g.items)
    g.items = []
    if not legacy:
        for _ in range(rnd.choice([0, 1, 1, 2])):
            plant_nested(rnd, g, items)
    g.legacy = False
    sets = [items]
    if rnd.random() < 0.35:
        sets.append(variant(rnd, g, items))
    objects = []
    for its in sets:
        routes = list(v9.LOAD_ROUTES) + (list(v9.LEGACY_ROUTES) if v9.legacy_ok(its) else [])
        objects.append({"items": jcopy(its), "route": rnd.choice(routes), "options": v9.pick_options(rnd),
                        "cuts": sorted(rnd.sample(range(len(its) + 1), min(len(its) + 1, rnd.randint(1, 3))))})
    state = [jcopy(its) for its in sets]
    script = []
    nsteps = rnd.randint(2, 5 if tier == "quick" else 8)
    for k in range(nsteps):
        oi = rnd.randrange(len(state))
        st = make_step(rnd, g, state[oi], rnd.choice(OPS), legacy and v9.legacy_ok(state[oi])) or make_step(rnd, g, state[oi], "add-field", False) or {"op": "none"}
        st = jcopy(st)
        st["obj"] = oi
        others = [j for j in range(len(state)) if j != oi and (k == nsteps - 1 or rnd.random() < 0.6)]
        st["render"] = {"objs": [oi] + others, "file": rnd.random() < 0.12, "pfx": rnd.randrange(len(PREFIXES))}
        apply_abstract(state[oi], st)
        script.append(st)
    return {"family": "v10-regen", "objects": objects, "script": script, "buf_seed": rnd.randrange(1 << 30),
            "initial": {"file": rnd.random() < 0.15, "pfx": rnd.randrange(len(PREFIXES))}}


# --------------------------------------------------------------------------------------------- description

def describe_step(st):
    op = st["op"]
    if op == "add-field":
        body = " ".join(v9.render_field(f, False) for f in st["fields"])
        return f"{st['target']}.add_field x{len(st['fields'])} ({'inside start_update()' if st['mode'] == 'update' else 'one commit each'}): {body}"
    if op == "add-field-nested":
        body = " ".join(v9.render_field(f, False) for f in st["fields"])
        return (f"add_field x{len(st['fields'])} on the type of the nested member {st['target']}.{st['member']} "
                f"({'inside start_update()' if st['mode'] == 'update' else 'one commit each'}): {body}")
    if op == "load-more":
        return f"further definitions through {st['route']}: {v9.render(st['items'], st['route'].startswith('legacy')).strip()}"
    if op == "replace-type":
        return f"cs.add_type({st['name']!r}, <{v9.render_item(st['new']).strip()}>, replace=True)"
    if op == "register-nested":
        return f"cs.add_type({st['tag']!r}, <the type of the nested member {st['target']}.{st['member']}>)"
    return "nothing changes"


def describe(data):
    out = []
    for i, od in enumerate(data["objects"]):
        out.append(f"object {i}: route {od['route']}, options {od['options']}, cuts {od['cuts']}")
        out.append(v9.render(od["items"], od["route"] in v9.LEGACY_ROUTES).rstrip())
    out.append(f"initial rendering of every object ({data.get('initial')})")
    for k, st in enumerate(data["script"]):
        out.append(f"step {k + 1} on object {st['obj']}: {describe_step(st)}; then render objects {st['render']['objs']}"
                   f"{' + file stub' if st['render'].get('file') else ''}")
    return "\n".join(out)


# --------------------------------------------------------------------------------------------- execution

class Rejected(Exception):
    """the library refuses a step of the script (not this property's business)"""


class Obj:
    def __init__(self, cs, items, od, var):
        self.cs, self.items, self.od, self.var = cs, items, od, var
        self.stub = None
        self.stale: set[str] = set()


def nested_type(m, cs, st):
    t = cs.resolve(st["target"]).fields[st["member"]].type
    while issubclass(t, m.types.BaseArray):
        t = t.type
    return t


def add_fields(b, T, st):
    made = [(f["name"], b.make(f["ty"]), f.get("bits")) for f in st["fields"]]
    if st["mode"] == "update":
        with T.start_update():
            for name, ty, bits in made:
                T.add_field(name, ty, bits)
    else:
        for name, ty, bits in made:
            T.add_field(name, ty, bits)


def apply_live(m, o: Obj, st):
    """the step through the public API of the library"""
    cs, opt = o.cs, o.od.get("options") or {}
    b = v9.ApiBuilder(m, cs, bool(opt.get("align")), False)
    lk = {k: opt[k] for k in ("compiled", "align") if k in opt}
    op = st["op"]
    if op == "add-field":
        add_fields(b, cs.resolve(st["target"]), st)
    elif op == "add-field-nested":
        add_fields(b, nested_type(m, cs, st), st)
    elif op == "register-nested":
        cs.add_type(st["tag"], nested_type(m, cs, st))
    elif op == "load-more":
        route, items = st["route"], st["items"]
        legacy = route.startswith("legacy")
        if legacy:
            lk = dict({k: v for k, v in lk.items() if k == "compiled"}, deftype=m.cstruct.DEF_LEGACY)
        if route == "api":
            for it in items:
                b.item(it)
        elif route in ("load", "legacy"):
            cs.load(v9.render(items, legacy), **lk)
        else:
            d = tempfile.mkdtemp(prefix="c20v10-")
            try:
                p = os.path.join(d, "more.h")
                with open(p, "w") as fh:
                    fh.write(v9.render(items, legacy))
                cs.loadfile(p, **lk)
            finally:
                shutil.rmtree(d, ignore_errors=True)
    elif op == "replace-type":
        new, name = st["new"], st["name"]
        if new["k"] == "alias":
            cs.add_type(name, b.make(new["ty"]), replace=True)
        elif new["k"] == "struct":
            factory = cs._make_union if new["kind"] == "union" else cs._make_struct
            cs.add_type(name, factory(name, b.make_fields(new["fields"]), align=bool(opt.get("align"))), replace=True)
        else:
            values, nxt = {}, (1 if new["kind"] == "flag" else 0)
            for mname, v in new["members"]:
                v = nxt if v is None else v
                nxt = (2 ** v.bit_length() if new["kind"] == "flag" else v + 1)
                values[mname] = v
            factory = cs._make_flag if new["kind"] == "flag" else cs._make_enum
            cs.add_type(name, factory(name, cs.resolve(new["base"] or "uint32"), values), replace=True)


def field_names_of(text, name, Bad, what):
    try:
        tree = ast.parse(text)
    except SyntaxError as e:
        raise Bad(f"{what} is not valid Python: {e.msg} (line {e.lineno})") from None
    if len(tree.body) != 1 or not isinstance(tree.body[0], ast.ClassDef) or tree.body[0].name != name:
        raise Bad(f"{what} is not a single class {name}")
    c = tree.body[0]
    ann = [st.target.id for st in c.body if isinstance(st, ast.AnnAssign) and isinstance(st.target, ast.Name)]
    inits = [st for st in c.body if isinstance(st, ast.FunctionDef) and st.name == "__init__"]
    kws = [a.arg for a in inits[0].args.args[1:]] if inits else None
    return ann, kws


def mark_stale(o: Obj, st):
    """Structures whose INSTANCES are outside this family's oracle from now on: a structure is laid out (and, compiled, its reader is
    generated) when IT is committed, so after add_field on a structure X every structure that embeds X - and after add_field on the
    type of a nested member the enclosing structure - reads instances with the old layout (on the unmodified tree
    `struct S { struct I { uint8 p; } obj[2]; uint32 hi; };`, I.add_field("q", uint8), then repr(S(bytes(20))) raises AttributeError:
    'I' object has no attribute 'q').  That is a matter of Structure.add_field, not of the stub generator: the stub of such a
    structure is still checked in full (names, fields, hints, __init__ keywords), only its parsed instances are not."""
    hot = set()
    if st["op"] in ("add-field", "add-field-nested"):
        hot = set(all_names(o.items[st["item"]]))
        if st["op"] == "add-field-nested":
            o.stale |= hot
    # (called before and after the step's effect on the abstract set: a definition that arrives later and embeds a structure with
    # an outdated layout inherits the condition - `union E { S str; }` then cannot even build its default value)
    grown = True
    while grown:
        grown = False
        for x in o.items:
            nm = set(all_names(x))
            if nm and not nm <= o.stale and referenced([x]) & (hot | o.stale):
                o.stale |= nm
                grown = True


def evaluate(m, sg, o: Obj, hooks, feat, buf_seed, out):
    """harness/v9_c20.py's evaluate() for the object's current abstract items (NAMES / FIELDS / INSTANCES, generate_cstruct_stub and
    generate_structure_stub), the instances of the structures in o.stale left out"""
    Bad = hooks.Bad
    cs, items = o.cs, o.items
    try:
        stub = sg.generate_cstruct_stub(cs)
    except Exception as e:  # noqa: BLE001
        raise Bad(f"generate_cstruct_stub raises {type(e).__name__}: {e}") from None
    out["stub"] = stub
    hooks.oracle(m, cs, stub)
    body = v9.stub_body(ast.parse(stub), Bad)
    v9.check_names(items, body, Bad, "regen")
    env = v9.Env(m, cs, items, Bad)
    classes = {n: st for n, st in v9.declared(body) if isinstance(st, ast.ClassDef)}
    r = random.Random(buf_seed)
    for it in items:
        if it["k"] != "struct":
            continue
        name = v9.type_name_of(it)
        if name not in classes:
            raise Bad(f"no class {name} in the stub for `{v9.render_item(it).strip()[:80]}`")
        v9.check_class(env, classes[name], it["kind"], it["fields"], f"{it['kind']} {name}")
        T = env.resolve(name)
        try:
            direct = sg.generate_structure_stub(T, cs_prefix="cstruct.")
        except Exception as e:  # noqa: BLE001
            raise Bad(f"generate_structure_stub({name}) raises {type(e).__name__}: {e}") from None
        try:
            dtree = ast.parse(direct)
        except SyntaxError as e:
            raise Bad(f"generate_structure_stub({name}) is not valid Python: {e.msg}") from None
        if len(dtree.body) != 1 or not isinstance(dtree.body[0], ast.ClassDef) or dtree.body[0].name != name:
            raise Bad(f"generate_structure_stub({name}) is not a single class {name}")
        v9.check_class(env, dtree.body[0], it["kind"], it["fields"], f"generate_structure_stub: {it['kind']} {name}")
        if name in o.stale:
            feat("v10:instance:skipped(enclosing structure committed before a member type grew)")
            continue
        conv = r.choice(v9.CONVENTIONS[:9]) if r.random() < 0.93 else r.choice(v9.CONVENTIONS[9:])
        v9.check_instance(env, it, T, classes[name], r.randrange(1 << 30), conv, feat)


def render_obj(m, sg, o: Obj, hooks, feat, buf_seed, pfx):
    """every entry point for one object against its CURRENT abstract definitions; raises hooks.Bad"""
    Bad = hooks.Bad
    out = {}
    o.stub = None
    try:
        evaluate(m, sg, o, hooks, feat, buf_seed, out)
    finally:
        o.stub = out.get("stub")
    kw = PREFIXES[pfx]
    for it in o.items:
        if it["k"] != "struct":
            continue
        name = v9.type_name_of(it)
        want = [w[0] for w in folded(it["fields"])]
        try:
            T = o.cs.resolve(name)
            text = sg.generate_structure_stub(T, **kw)
        except Exception as e:  # noqa: BLE001
            raise Bad(f"generate_structure_stub({name}, {kw}) raises {type(e).__name__}: {e}") from None
        ann, kws = field_names_of(text, name, Bad, f"generate_structure_stub({name}, {kw})")
        if ann != want or kws != want:
            raise Bad(f"generate_structure_stub({name}, {kw}) declares the fields {ann} and the __init__ keywords {kws}; the definition gives "
                      f"its instances the data attributes {want} now")
    if kw.get("module_prefix"):
        cls = kw["cs_prefix"].rstrip(".")
        try:
            text = sg.generate_cstruct_stub(o.cs, module_prefix=kw["module_prefix"], cls_name=cls)
        except Exception as e:  # noqa: BLE001
            raise Bad(f"generate_cstruct_stub(cs, module_prefix={kw['module_prefix']!r}, cls_name={cls!r}) raises {type(e).__name__}: {e}") from None
        check_named_class(text, cls, o.items, Bad, f"generate_cstruct_stub(cs, module_prefix={kw['module_prefix']!r}, cls_name={cls!r})")
    feat("v10:render:object")


def check_named_class(text, cls, items, Bad, what, tree=None):
    """the class `cls` of the text declares exactly the names of the items, every structure class exactly its data attributes"""
    if tree is None:
        try:
            tree = ast.parse(text)
        except SyntaxError as e:
            raise Bad(f"{what} is not valid Python: {e.msg} (line {e.lineno})") from None
    found = [st for st in tree.body if isinstance(st, ast.ClassDef) and st.name == cls]
    if len(found) != 1:
        raise Bad(f"{what} does not hold exactly one class {cls}")
    try:
        v9.check_names(items, found[0].body, Bad, "regen")
    except Bad as e:
        raise Bad(f"{what}: {e}") from None
    classes = {st.name: st for st in found[0].body if isinstance(st, ast.ClassDef)}
    for it in items:
        if it["k"] != "struct":
            continue
        name = v9.type_name_of(it)
        if name not in classes:
            raise Bad(f"{what}: no class {name}")
        ann = [st.target.id for st in classes[name].body if isinstance(st, ast.AnnAssign) and isinstance(st.target, ast.Name)]
        want = [w[0] for w in folded(it["fields"])]
        if ann != want:
            raise Bad(f"{what}: class {name} declares the fields {ann}; the definition gives its instances the data attributes {want} now")


def render_file(m, sg, objs, hooks, feat):
    """generate_file_stub on a real module that exposes the LIVE objects: one class per object, each with its own definitions"""
    Bad = hooks.Bad
    from pathlib import Path

    mod = pytypes.ModuleType(SHARED)
    mod.objs = {o.var: o.cs for o in objs}
    sys.modules[SHARED] = mod
    d = tempfile.mkdtemp(prefix="c20v10-")
    try:
        p = os.path.join(d, "live_defs.py")
        with open(p, "w") as fh:
            fh.write(f"from dissect.cstruct import cstruct\nimport {SHARED}\n\n" + "".join(f"{o.var} = {SHARED}.objs[{o.var!r}]\n" for o in objs))
        try:
            text = sg.generate_file_stub(Path(p), Path(d))
        except Exception as e:  # noqa: BLE001
            raise Bad(f"generate_file_stub raises {type(e).__name__}: {e}") from None
    finally:
        shutil.rmtree(d, ignore_errors=True)
        sys.modules.pop(SHARED, None)
    if not text:
        raise Bad("generate_file_stub returns nothing for a module that exposes cstruct objects")
    try:
        tree = ast.parse(text)
    except SyntaxError as e:
        raise Bad(f"the file stub is not valid Python: {e.msg} (line {e.lineno})") from None
    for o in objs:
        check_named_class(text, "_" + o.var, o.items, Bad, f"file stub, object {o.var}", tree)
        al = [st for st in tree.body if isinstance(st, ast.AnnAssign) and isinstance(st.target, ast.Name) and st.target.id == o.var]
        if len(al) != 1 or not (isinstance(al[0].value, ast.Name) and al[0].value.id == "_" + o.var):
            raise Bad(f"the file stub does not declare {o.var} as an alias of _{o.var}")
    feat("v10:render:file-stub")


def execute(m, sg, data, hooks, feat, done=None, log=None):
    """run the script; raises hooks.Bad (the property fails) or Rejected (the library refuses a definition / a step).
    done(objs) is called with the live objects before they are released."""
    Bad = hooks.Bad
    objs = []
    r = random.Random(data.get("buf_seed", 0))
    try:
        for i, od in enumerate(data["objects"]):
            try:
                cs = v9.build(m, {"items": od["items"], "route": od["route"], "options": od["options"], "cuts": od["cuts"], "buf_seed": data.get("buf_seed", 0)})
            except Exception as e:  # noqa: BLE001 - what the parser / the API takes is not this property's business
                raise Rejected(f"build:{od['route']}:{type(e).__name__}") from None
            objs.append(Obj(cs, jcopy(od["items"]), od, "c_" + "ab"[i]))

        def render(which, spec, when):
            for j in which:
                try:
                    render_obj(m, sg, objs[j], hooks, feat, r.randrange(1 << 30), spec.get("pfx", 0))
                except Bad as e:
                    raise Bad(f"{when}, object {j}: {e}") from None
            if spec.get("file"):
                try:
                    render_file(m, sg, objs, hooks, feat)
                except Bad as e:
                    raise Bad(f"{when}: {e}") from None

        render(range(len(objs)), data.get("initial") or {}, "initial rendering")
        for k, st in enumerate(data["script"]):
            o = objs[st["obj"]]
            if log:
                log(f"step {k + 1}: {describe_step(st)}")
            try:
                apply_live(m, o, st)
            except Exception as e:  # noqa: BLE001 - whether the library takes the change is not this property's business
                raise Rejected(f"{st['op']}:{type(e).__name__}") from None
            mark_stale(o, st)
            apply_abstract(o.items, st)
            mark_stale(o, {"op": "-"})
            feat("v10:op:" + st["op"] + (":" + st["mode"] if "mode" in st else "") + (":" + st["route"] if "route" in st else "") +
                 (":" + st["new"]["k"] if "new" in st else ""))
            render(st["render"]["objs"], st["render"], f"after step {k + 1} on object {st['obj']} ({describe_step(st)[:300]})")
        if done:
            done(objs)
    finally:
        for o in objs:
            v9.release(m, o.cs)


# --------------------------------------------------------------------------------------------- corpus

def _step(op, obj=0, render=(0,), file=False, pfx=0, **kw):
    return dict({"op": op, "obj": obj, "render": {"objs": list(render), "file": file, "pfx": pfx}}, **kw)


def _obj(items, route="load", **options):
    return {"items": items, "route": route, "options": options, "cuts": [1]}


_HDR = [_st("struct", "plain", "Header", [], [_f("magic", _sc("uint32")), _f("kind", _sc("uint8"))]),
        _st("struct", "plain", "File", [], [_f("hdr", _sc("Header")), _f("next", wrap(_sc("Header"), 1, [])), _f("all", wrap(_sc("Header"), 0, [2]))])]
_NEST = [_st("struct", "plain", "Outer", [], [_f("a", _sc("uint8")), _f("in1", wrap(["agg", "struct", "Inner", [_f("x", _sc("uint8"))]], 0, [2])),
                                               _f("u", ["agg", "union", None, [_f("p", _sc("uint16")), _f("q", _sc("int16"))]])])]
CORPUS = [
    # a structure extended after its first rendering (one commit; then start_update), embedded in another one
    {"objects": [_obj(_HDR)], "initial": {"file": True, "pfx": 2}, "script": [
        _step("add-field", item=0, target="Header", mode="commit", fields=[_f("checksum", _sc("uint32"))], pfx=2, file=True),
        _step("add-field", item=0, target="Header", mode="update", fields=[_f("lo", _sc("uint8"), 4), _f("hi", _sc("uint8"), 4), _f("title", wrap(_sc("char"), 0, [8]))], pfx=1),
        _step("load-more", route="load", items=[_st("union", "typedef-tag", "_Box", ["Box", "BoxAlias"], [_f("h", _sc("Header")), _f("raw", wrap(_sc("uint8"), 0, [4]))])]),
        _step("replace-type", item=1, name="File", new=_st("struct", "plain", "File", [], [_f("only", _sc("Header"))]), pfx=3),
        _step("replace-type", item=1, name="File", new={"k": "alias", "name": "File", "ty": wrap(_sc("Header"), 1, []), "byname": False})]},
    # the inline class of a nested member: extended, then registered as a global type
    {"objects": [_obj(_NEST, "api")], "initial": {"pfx": 1}, "script": [
        _step("add-field-nested", item=0, target="Outer", member="in1", mode="commit", fields=[_f("y", _sc("uint16"))], pfx=1),
        _step("add-field-nested", item=0, target="Outer", member="u", mode="update", fields=[_f("r", _sc("uint32")), _f("s", wrap(_sc("uint8"), 0, [2]))]),
        _step("register-nested", item=0, target="Outer", member="in1", tag="Inner"),
        _step("add-field", item=0, target="Inner", mode="commit", fields=[_f("z", _sc("int8"))]),
        _step("none")]},
    # two objects, same names, other structures
    {"objects": [_obj(_HDR, "load", endian="<"), _obj([_st("struct", "plain", "Header", [], [_f("magic", _sc("uint16"))]),
                                                       _st("struct", "plain", "File", [], [_f("first", _sc("Header")), _f("count", _sc("uint8"))])], "api-addfield", endian=">")],
     "initial": {"file": True, "pfx": 0}, "script": [
        _step("add-field", obj=1, render=(1, 0), item=0, target="Header", mode="update", fields=[_f("flags", _sc("uint8"))], file=True),
        _step("add-field", obj=0, render=(0, 1), item=1, target="File", mode="commit", fields=[_f("tail", ["agg", "struct", None, [_f("t", _sc("uint8"))]])]),
        _step("none", obj=1, render=(1, 0), file=True, pfx=2)]},
]


# --------------------------------------------------------------------------------------------- the family

def regen_family(env, res, m, sg, hooks, lines, metas, mkrng):
    rnd = mkrng(env["seed"], "c20-v10-regen")
    tier = env["tier"]
    n = 110 if tier == "quick" else 2200
    mw = v9._multiword(m)
    sampled = False
    for i in range(n + len(CORPUS)):
        if i < len(CORPUS):
            data = dict(jcopy(CORPUS[i]), family="v10-regen", buf_seed=i)
        else:
            data = gen_case(rnd, mw, tier)
        data["definitions"] = describe(data)

        def done(objs, data=data):
            # the final state of every object goes to the model as well
            for o in objs:
                if o.stub is None:
                    continue
                try:
                    lines.append(hooks.line(m, o.cs))
                    metas.append((data, o.stub, None))
                except Exception as e:  # noqa: BLE001
                    hooks.viol(f"the cstruct object cannot be snapshotted for the model ({type(e).__name__}: {e})", dict(data, stub=o.stub), None)

        res.count((data["definitions"],), True)
        res.feat(f"v10:objects={len(data['objects'])}")
        for od in data["objects"]:
            res.feat("v10:route:" + od["route"])
        try:
            execute(m, sg, data, hooks, res.feat, done)
            res.feat("v10:script:completed")
        except Rejected as e:
            res.feat(f"v10:rejected:{e}")
        except hooks.Bad as e:
            hooks.viol(str(e), data, None)
        except Exception as e:  # noqa: BLE001 - the oracle met an object of a shape it cannot read: the library changed under it
            hooks.viol(f"the stub / the cstruct object cannot be read by the oracle ({type(e).__name__}: {e})", data, None)
        if not sampled and i >= len(CORPUS):
            sampled = True
            res.sample({"family": "v10-regen", "script": data["definitions"]})


def run_families(env, res, m, sg, hooks, lines, metas, mkrng):
    regen_family(env, res, m, sg, hooks, lines, metas, mkrng)


# --------------------------------------------------------------------------------------------- replay

def replay(m, sg, data, hooks) -> int:
    print(describe(data))

    def feat(k, n=1):
        pass

    try:
        execute(m, sg, data, hooks, feat, None, print)
    except Rejected as e:
        print(f"the library no longer takes the recorded script ({e})")
        return 0
    except hooks.Bad as e:
        print("property fails:", e)
        return 1
    except Exception as e:  # noqa: BLE001
        print(f"property fails: the stub / the cstruct object cannot be read by the oracle ({type(e).__name__}: {e})")
        return 1
    print("property holds on this case")
    return 0
