"""C12 numbering-walk probes (round 10): ENUM / FLAG NUMBERING THROUGH EVERY PARSER AND IN EVERY ORDER.

"Members without an explicit value continue from the previous one (enum: previous + 1, flag: next higher power of two)."  In C the
implicit counter has no memory: it is the PREVIOUS enumerator's value plus one, whatever came before - also when the explicit values
go DOWN (`A = 5, B = 2, C, D` -> C = 3, D = 4), are NEGATIVE (`A = -3, B, C` -> -2, -1; `A = -1, B` -> 0), REPEAT an earlier value
(`A = 3, B, C = 3, D` -> D = 4, a second name for B's value), JUMP (up to the type's maximum, down to its minimum, back to 0) or when
an implicit member lands on a value an earlier member already has.  For flags the next implicit member is the next power of two above
the previous member's highest bit, after a power of two, a composite value (`A = 5, B` -> 8), zero (`N = 0, B` -> 1), a value lower
than an earlier one (`A = 0x40, B = 1, C` -> 2) or a repeated one.  The other C12 families draw their declarations from generators in
which explicit values mostly rise, and load them through `cs.load(text)` only; this family walks the ORDERS of the value list and the
ENTRY POINTS through which a declaration can reach the library.

Per case (all choices from the module's seeded PRNG, own stream):
  * an enum or flag over one of the 14 table integer types, a one-word or multi-word alias spelling (`short`, `DWORD`,
    `unsigned long long`, ...) or the default type (no `: T`); either endianness; 2-8 members named from a pool;
  * the value list follows a SHAPE: `down` (every explicit value below the previous member), `negative` (signed types: negative
    explicit values, also the type's minimum, counting up through zero), `repeat` (an explicit value some earlier member has), `jump`
    (far up / far down / near the type's limits / back to 0), `collide` (explicit values placed so that a later implicit member lands
    on an earlier value), `up` (the usual rising list: control) or `mixed`; every explicit member is followed by an implicit one
    with probability > 1/2, the list is cut where the numbering would leave the underlying type (flags: never negative);
  * explicit values are SPELT as decimal / hex / octal / binary literals, `-` literals, sums in parentheses, `1 << k`, expressions over a
    `#define` constant; in about a third of the cases also as expressions over EARLIER MEMBERS (`PREV`, `PREV + 2`, `PREV - 3`,
    `PREV | 8`, `PREV << 1`, `PREV >> 1`) - those cases are token-parser only, the legacy parser's syntax has no such expressions;
    member separators `, ` / one per line / `//` comment at the end of a line / trailing comma; `NAME = v`, `NAME=v`;
  * the SAME declaration (with a structure `{ [uint8 lead;] E one; E arr[2]; E lo:3; E hi:5; }`) is defined through EVERY ROUTE that
    accepts its syntax, each on a fresh cstruct object:
        token parser:  load(text) | load(text, deftype=cstruct.DEF_CSTYLE) | loadfile(path) | load(#define + enum) then load(struct)
                       | the declaration without a name (`enum : T { ... };`: the members become constants of the object)
        legacy parser: load(text, deftype=cstruct.DEF_LEGACY) | loadfile(path, deftype=cstruct.DEF_LEGACY) | two load() calls
    compiled or interpreted (the legacy parser compiles by default: the default is walked as well), aligned (token parser, power-of-two
    types) or packed.
Oracles (the property as stated, on observable behaviour), PER ROUTE:
  * the member table (names in declaration order with their integer values) is the C numbering.  The generator chooses every explicit
    value as an integer and spells it afterwards, so the expected table is computed here from integers alone (`number()`: previous + 1 /
    next power of two above the top bit) and shares nothing with the library; it is cross-checked against the props module's
    `oracle_numbering` evaluated on the spelt text (a difference is a harness defect: Infra, never a violation);
  * every member is an object of the class with its value, equals its integer and exactly the members declared with the same value,
    and dumps the underlying bytes of its value;
  * for every member value AND THE VALUES IN BETWEEN (value +- 1, the midpoint of neighbouring member values, 0, 1, the type's
    minimum and maximum): the underlying bytes parse - through the class call with bytes / bytearray / memoryview / BytesIO / a real
    file, `E.read`, `E.reads`, `cs.read(name, stream)` and `E(int)`, rotating - to an object whose integer value is the value, that
    equals exactly the members declared with that value (and no other member), carries one of their names (an enum value that no
    member has carries no name), dumps back to the bytes; two parses through different entry points are equal with equal hashes;
  * in the structure the scalar, both array elements and the two bit-fields hold the values put there (= `int.from_bytes` of the
    data at the offsets computed here), named like their members, and the structure dumps back to its bytes;
  * the Lean numbering fold gets the same declaration (correspondence, through the caller's lists).
Domain notes (what is NOT generated, and why):
  * negative values of flags, and negative underlying values parsed with a flag over a signed type: F22 (known finding);
  * member names `size`, `alignment`, `dynamic`, `cs`, `type`, `mro`: F51; a newline inside one member: F20 (newlines and comments
    stand between members only);
  * the legacy parser is given only what its syntax has: one-word type names, a named declaration, `#define` constants with literal
    values, no expressions over earlier members, `//` comments only, bit-fields spelt `name:3`; it has no `align` option (its routes are
    packed);
  * `/` and `%` are not used in initialisers (harness/v8_c12.py reports the library's flooring division);
  * aligned structures only over the power-of-two types (alignment = size); the layout of the other types is harness/v9_c12.py's family;
  * bit-field values keep the field's top bit clear over signed types (a set top bit is a negative number there: C06's business).
"""
from __future__ import annotations

import io
import os
import tempfile

from .common import A, Infra, sx
from .v9_c12 import ALIASES, TABLE

NAMES = ["A", "B", "C", "D", "E", "F", "G", "H", "RED", "GREEN", "BLUE", "NONE", "LOW", "HIGH", "ALL", "READ", "WRITE", "EXEC", "FIRST",
         "LAST", "BASE", "NEXT", "X", "Y", "len", "count", "off", "OK", "ERR", "v1", "v2"]
SHAPES = ["down", "down", "negative", "negative", "repeat", "jump", "collide", "up", "mixed", "mixed"]
TOKEN_ROUTES = ["token/load", "token/load(deftype=DEF_CSTYLE)", "token/loadfile", "token/two-loads", "token/anonymous"]
LEGACY_ROUTES = ["legacy/load", "legacy/loadfile", "legacy/two-loads"]
ENTRY = ["E(bytes)", "E(bytearray)", "E(memoryview)", "E(BytesIO)", "E.read(bytes)", "E.reads(bytes)", "E.read(BytesIO)",
         "cs.read(name, BytesIO)", "E(int)", "E(file)"]


# ------------------------------------------------------------------------------------------------ the C numbering, from integers

def next_implicit(is_flag, v):
    if not is_flag:
        return v + 1
    if v <= 0:
        return 1 if v == 0 else 1 << (-v).bit_length()   # (flags are never negative here; kept total)
    p = 1
    while p <= v:
        p <<= 1
    return p


def number(is_flag, vals):
    """vals: explicit integers or None, in declaration order -> the integers C gives the members"""
    nxt = 1 if is_flag else 0
    out = []
    for v in vals:
        v = nxt if v is None else v
        out.append(v)
        nxt = next_implicit(is_flag, v)
    return out


# ------------------------------------------------------------------------------------------------ generators

def _explicit_enum(rnd, shape, cur, lo, hi, signed):
    """an explicit value for the next enum member, given the values so far"""
    prev = cur[-1] if cur else None
    if shape == "mixed":
        shape = rnd.choice(["down", "negative", "repeat", "jump", "collide", "up"])
    if shape == "negative" and not signed:
        shape = "down"
    if prev is None:
        if shape == "negative":
            return rnd.choice([-1, -2, -3, -3, -5, -9, -100, lo, lo + 1, lo + rnd.randint(0, 5)])
        if shape == "up":
            return rnd.choice([0, 1, 2, 5])
        return rnd.choice([2, 3, 5, 5, 7, 10, 64, 100, 127, min(hi, 1000), hi - rnd.randint(1, 9), hi >> 1])
    if shape == "down":
        return rnd.choice([prev - rnd.randint(1, 6), prev - rnd.randint(1, 3), min(cur) - rnd.randint(1, 4), prev - 1, prev // 2 if prev > 1 else prev - 2])
    if shape == "negative":
        return rnd.choice([-rnd.randint(1, 9), -1, lo, lo + rnd.randint(0, 4), prev - rnd.randint(2, 12), -rnd.randint(1, min(-lo, 1 << 20))])
    if shape == "repeat":
        return rnd.choice(cur + [prev])
    if shape == "jump":
        return rnd.choice([hi - rnd.randint(1, 6), lo + rnd.randint(0, 6), 0, prev + rnd.randint(2, 300), prev - rnd.randint(2, 300), rnd.randint(lo, hi),
                           (hi >> 1) + rnd.randint(-2, 2), rnd.randint(max(lo, -300), min(hi, 300))])
    if shape == "collide":
        # one or two below an earlier value: the implicit members that follow walk onto it
        return rnd.choice(cur) - rnd.randint(1, 2)
    return prev + rnd.randint(1, 9)                           # up


def _explicit_flag(rnd, shape, cur, hi, bits):
    prev = cur[-1] if cur else None
    top = hi.bit_length() - 1                                 # highest bit a member may have
    if shape == "mixed":
        shape = rnd.choice(["down", "repeat", "jump", "collide", "up", "zero"])
    if shape == "negative":
        shape = rnd.choice(["zero", "down"])
    if prev is None:
        if shape == "up":
            return rnd.choice([1, 1, 2, 3])
        if shape == "zero":
            return 0
        return rnd.choice([4, 8, 8, 0x10, 0x20, 0x40, 5, 6, 12, 0x30, 1 << rnd.randint(2, max(2, top - 1)), 0])
    if shape == "down":
        pb = max(prev.bit_length() - 1, 0)
        return rnd.choice([1 << rnd.randint(0, max(pb - 1, 0)), 1, prev >> 1, prev >> 2, 3 if prev > 4 else 1, rnd.randint(0, max(prev - 1, 0))])
    if shape == "zero":
        return rnd.choice([0, 0, 1])
    if shape == "repeat":
        return rnd.choice(cur + [prev])
    if shape == "jump":
        return rnd.choice([1 << rnd.randint(0, max(top - 1, 0)), 1 << max(top - 1, 0), 1, 0, rnd.randint(1, min(hi >> 1, 1 << 20)), 1 << rnd.randint(0, min(top - 1, 12))])
    if shape == "collide":
        c = rnd.choice(cur)
        return rnd.choice([c >> 1, c >> 2, max(c - 1, 0)])
    b = min(prev.bit_length() + rnd.randint(0, 2), max(top - 1, 0))
    return rnd.choice([1 << b, (1 << b) | rnd.randint(0, (1 << b) - 1)])


def _spell(rnd, v, consts, is_flag):
    """a spelling of the integer v that both parsers read: literal, sum, shift, expression over a #define constant"""
    r = rnd.random()
    if v < 0:
        if r < 0.5:
            return str(v)
        if r < 0.65:
            return "-" + hex(-v)
        if r < 0.8:
            k, kv = rnd.choice(sorted(consts.items()))
            return rnd.choice([f"{k} - {kv - v}", f"({k} - {kv - v})"])
        if r < 0.9:
            a = rnd.randint(1, 9)
            return f"({a} - {a - v})"
        return f"-{-v}"
    if r < 0.34:
        return str(v)
    if r < 0.52:
        return rnd.choice([hex(v), hex(v).upper().replace("0X", "0x")])
    if r < 0.60 and v > 0:
        return "0" + oct(v)[2:]
    if r < 0.68:
        return bin(v)
    if r < 0.80:
        k, kv = rnd.choice(sorted(consts.items()))
        if v >= kv:
            return rnd.choice([f"{k} + {v - kv}", f"{k}+{v - kv}", f"({k} + {hex(v - kv)})"]) if v > kv or rnd.random() < 0.5 else k
        return rnd.choice([f"{k} - {kv - v}", f"{k}-{kv - v}"])
    if r < 0.90 and v > 0 and v & (v - 1) == 0:
        return rnd.choice([f"1 << {v.bit_length() - 1}", f"1<<{v.bit_length() - 1}", f"(1 << {v.bit_length() - 1})"])
    if r < 0.95 and v > 1:
        a = rnd.randint(1, v - 1)
        return rnd.choice([f"({a} + {v - a})", f"{a} + {v - a}"]) if not is_flag or (a & (v - a)) else f"{a} | {v - a}"
    return str(v)


def _ref_expr(rnd, is_flag, names, cur, lo, hi):
    """an initialiser over an EARLIER MEMBER (token parser only) -> (text, value) or None"""
    j = rnd.randrange(len(cur))
    ref, rv = names[j], cur[j]
    d = rnd.randint(1, 6)
    cands = [(ref, rv), (f"{ref} + {d}", rv + d), (f"{ref} - {d}", rv - d), (f"{ref}-{d}", rv - d), (f"({ref} - {d})", rv - d)]
    if rv >= 0:
        m = 1 << rnd.randint(0, 5)
        cands += [(f"{ref} | {m}", rv | m), (f"{ref} << 1", rv << 1), (f"{ref} >> 1", rv >> 1), (f"{ref} & {hex(m * 2 - 1)}", rv & (m * 2 - 1))]
    if len(cur) > 1:
        j2 = rnd.randrange(len(cur))
        if cur[j2] >= 0 and rv >= 0:
            cands.append((f"{ref} | {names[j2]}", rv | cur[j2]))
        cands.append((f"{names[j2]} - {ref}", cur[j2] - rv))
    rnd.shuffle(cands)
    for text, v in cands:
        if lo <= v <= hi and (not is_flag or v >= 0):
            return text, v
    return None


def gen_decl(rnd, is_flag, lo, hi, signed, bits, consts, with_refs):
    """-> (shape, [(name, initialiser text or None)], [value per member], uses member references)"""
    shape = rnd.choice(SHAPES)
    if shape == "negative" and (is_flag or not signed):
        shape = rnd.choice(["zero", "down"]) if is_flag else "down"   # no negative values there: F22 / unsigned type
    for _ in range(40):
        n = rnd.randint(2, 8)
        names = rnd.sample(NAMES, n)
        exprs, expl, cur, refs = [], [], [], False
        force_implicit = False
        for i in range(n):
            implicit = force_implicit or rnd.random() < (0.3 if i == 0 else 0.38)
            if implicit:
                exprs.append(None)
                expl.append(None)
            else:
                got = None
                if with_refs and cur and rnd.random() < 0.45:
                    got = _ref_expr(rnd, is_flag, names, cur, lo, hi)
                if got:
                    refs = True
                    exprs.append(got[0])
                    expl.append(got[1])
                else:
                    v = _explicit_flag(rnd, shape, cur, hi, bits) if is_flag else _explicit_enum(rnd, shape, cur, lo, hi, signed)
                    exprs.append(_spell(rnd, v, consts, is_flag))
                    expl.append(v)
            cur = number(is_flag, expl)
            force_implicit = (not implicit) and rnd.random() < 0.6
        # the numbering stays inside the underlying type (flags: is never negative): cut where it would leave it
        k = n
        while k and not all(lo <= v <= hi and (not is_flag or v >= 0) for v in cur[:k]):
            k -= 1
        if k < 2 or all(e is not None for e in expl[:k]):
            continue
        return shape, list(zip(names[:k], exprs[:k])), cur[:k], any(e is not None and _uses(e, names[:k]) for e in exprs[:k]) and refs
    return None


def _uses(text, names):
    import re
    toks = set(re.findall(r"[A-Za-z_][A-Za-z_0-9]*", text))
    return bool(toks & set(names))


def traits(is_flag, members, vals):
    """which orders this declaration walks (for the coverage histogram)"""
    out = set()
    seen = []
    prev_explicit = None
    for (nm, ex), v in zip(members, vals):
        if ex is None:
            if prev_explicit is not None:
                pv, earlier = prev_explicit
                if earlier and pv < max(earlier):
                    out.add("implicit member after an explicit value LOWER than an earlier member")
                if pv < 0:
                    out.add("implicit member after a NEGATIVE explicit value")
                if pv in earlier:
                    out.add("implicit member after a REPEATED explicit value")
                if pv == 0 and earlier:
                    out.add("implicit member after an explicit 0 that is not the first member")
                if is_flag and pv > 0 and pv & (pv - 1):
                    out.add("implicit flag member after a COMPOSITE explicit value")
                if not earlier or pv > max(earlier):
                    out.add("implicit member after a rising explicit value (control)")
            elif not seen:
                out.add("first member implicit")
            if v in seen:
                out.add("implicit member LANDS on an earlier member's value")
            if seen and ex is None and v < 0:
                out.add("implicit member with a negative value")
        if ex is not None:
            prev_explicit = (v, list(seen))
        seen.append(v)
    return out


# ------------------------------------------------------------------------------------------------ routes

def _mkfile(tmp, text):
    if tmp[0] is None:
        tmp[0] = tempfile.mkdtemp(prefix="v10c12-")
    path = os.path.join(tmp[0], "def.h")
    with open(path, "w") as fh:
        fh.write(text)
    return path


def load_route(dc, route, endian, defines, decl, anon_decl, struct, compiled, aligned, tmp):
    """-> (cs, script lines).  `compiled` None = the parser's default."""
    cst = dc.cstruct
    cs = cst(endian=endian)
    script = ["import io", "from dissect.cstruct import cstruct", f"cs = cstruct(endian={endian!r})"]
    legacy = route.startswith("legacy")
    kw = {}
    if compiled is not None:
        kw["compiled"] = compiled
    if aligned and not legacy:
        kw["align"] = True
    kws = "".join(f", {k}={v}" for k, v in kw.items())
    how = route.split("/")[1]
    if legacy:
        kw["deftype"] = cst.DEF_LEGACY
        kws += ", deftype=cstruct.DEF_LEGACY"
    elif how == "load(deftype=DEF_CSTYLE)":
        kw["deftype"] = cst.DEF_CSTYLE
        kws += ", deftype=cstruct.DEF_CSTYLE"
    text = defines + decl + struct
    if how == "anonymous":
        text = defines + anon_decl
    if how == "loadfile":
        path = _mkfile(tmp, text)
        script.append(f"open('/tmp/v10c12_def.h', 'w').write({text!r}); cs.loadfile('/tmp/v10c12_def.h'{kws})")
        cs.loadfile(path, **kw)
    elif how == "two-loads":
        script += [f"cs.load({defines + decl!r}{kws})", f"cs.load({struct!r}{kws})"]
        cs.load(defines + decl, **kw)
        cs.load(struct, **kw)
    else:
        script.append(f"cs.load({text!r}{kws})")
        cs.load(text, **kw)
    return cs, script


def _parse(how, cs, E, name, raw, v):
    if how == "E(bytes)":
        return E(raw)
    if how == "E(bytearray)":
        return E(bytearray(raw))
    if how == "E(memoryview)":
        return E(memoryview(raw))
    if how == "E(BytesIO)":
        return E(io.BytesIO(raw))
    if how == "E.read(bytes)":
        return E.read(raw)
    if how == "E.reads(bytes)":
        return E.reads(raw)
    if how == "E.read(BytesIO)":
        return E.read(io.BytesIO(raw))
    if how == "cs.read(name, BytesIO)":
        return cs.read(name, io.BytesIO(raw))
    if how == "E(int)":
        return E(v)
    with tempfile.TemporaryFile() as fh:
        fh.write(raw)
        fh.seek(0)
        return E(fh)


def _parse_line(how, name, raw, v):
    b = f"bytes.fromhex({raw.hex()!r})"
    return {"E(bytes)": f"E({b})", "E(bytearray)": f"E(bytearray({b}))", "E(memoryview)": f"E(memoryview({b}))", "E(BytesIO)": f"E(io.BytesIO({b}))",
            "E.read(bytes)": f"E.read({b})", "E.reads(bytes)": f"E.reads({b})", "E.read(BytesIO)": f"E.read(io.BytesIO({b}))",
            "cs.read(name, BytesIO)": f"cs.read({name!r}, io.BytesIO({b}))", "E(int)": f"E({v})"}.get(how, f"E(io.BytesIO({b}))  # (a real file object in the run)")


def _values(rnd, want_vals, lo, hi, nonneg, cap):
    s = sorted(set(want_vals))
    vs = set(s)
    between = {v + 1 for v in s} | {v - 1 for v in s} | {(a + b) // 2 for a, b in zip(s, s[1:])} | {0, 1, lo, hi, lo + 1, hi - 1}
    between = {v for v in between if lo <= v <= hi and (v >= 0 or not nonneg)} - vs
    between = sorted(between)
    room = max(cap - len(vs), 6)
    if len(between) > room:
        between = rnd.sample(between, room)
    return sorted(vs | set(between))


# ------------------------------------------------------------------------------------------------ the probes

def numbering_probes(rnd, res, viol, dc, tier, py_oracle, lines, metas):
    ncases = 110 if tier == "quick" else 2200
    cap = 22 if tier == "quick" else 30
    tmp = [None]
    types = [(t, t) for t in TABLE] * 3 + [(s, c) for s, c in ALIASES.items()]
    for i in range(ncases):
        is_flag = rnd.random() < 0.42
        kwd = "flag" if is_flag else "enum"
        spelling, canon = rnd.choice(types)
        default_type = rnd.random() < 0.08
        if default_type:
            spelling = canon = "uint32"
        size, signed, alignment = TABLE[canon]
        bits = 8 * size
        lo, hi = (-(1 << (bits - 1)), (1 << (bits - 1)) - 1) if signed else (0, (1 << bits) - 1)
        endian = rnd.choice("<>")
        order = "little" if endian == "<" else "big"
        consts = {"KA": rnd.choice([1, 2, 4, 5]), "KBASE": rnd.choice([3, 8, 16, 100])}
        with_refs = rnd.random() < 0.33
        g = gen_decl(rnd, is_flag, lo, hi, signed, bits, consts, with_refs)
        if g is None:
            res.feat("numbering:no declaration drawn (not counted)")
            continue
        shape, members, vals, refs = g
        names = [n for n, _ in members]
        want = dict(zip(names, vals))
        if number(is_flag, [None if e is None else v for (n, e), v in zip(members, vals)]) != vals:
            raise Infra(f"C12 numbering walk: generator and number() disagree on {members!r}")
        try:
            pv = py_oracle(is_flag, members, consts)
        except Exception as e:  # noqa: BLE001
            raise Infra(f"C12 numbering walk: oracle_numbering cannot evaluate {members!r}: {e}") from e
        if pv != want:
            raise Infra(f"C12 numbering walk: oracle_numbering gives {pv}, the generator's integers {want} for {members!r}")
        # ---- text
        sep = rnd.choice([", ", ", ", ",\n    ", " , ", ", // note\n    ", ",\n"])
        eq = rnd.choice([" = ", " = ", "=", "  =  "])
        body = sep.join(n if e is None else f"{n}{eq}{e}" for n, e in members) + rnd.choice(["", "", ",", " // last"])
        if "//" in body.rsplit("\n", 1)[-1]:
            body += "\n"
        ename = f"{'F' if is_flag else 'E'}{i}"
        colon = "" if default_type else rnd.choice([f" : {spelling}", f": {spelling}", f" :{spelling}"])
        decl = f"{kwd} {ename}{colon} {{ {body} }};\n"
        anon_decl = f"{kwd} " + ("" if default_type else f": {spelling} ") + f"{{ {body} }};\n"
        defines = "".join(f"#define {k} {rnd.choice([str(v), hex(v)])}\n" for k, v in consts.items())
        lead = rnd.random() < 0.35
        aligned = size == alignment and size <= 8 and rnd.random() < 0.35
        struct = f"struct S{i} {{ {'uint8 lead; ' if lead else ''}{ename} one; {ename} arr[2]; {ename} lo:3; {ename} hi:5; }};\n"
        legacy_ok = not refs and " " not in spelling
        routes = list(TOKEN_ROUTES) + (list(LEGACY_ROUTES) if legacy_ok else [])
        tr = traits(is_flag, members, vals)
        vset = _values(rnd, vals, lo, hi, is_flag, cap)
        lean_done = False
        base = {"declaration": decl, "constants": dict(consts), "endian": endian, "shape": shape, "c_numbering": want}
        for ri, route in enumerate(routes):
            legacy = route.startswith("legacy")
            compiled = rnd.choice([False, True, None]) if legacy else rnd.choice([False, True])
            al = aligned and not legacy
            cd = dict(base, route=route, compiled=compiled, align=al)
            try:
                cs, script = load_route(dc, route, endian, defines, decl, anon_decl, struct, compiled, al, tmp)
            except Exception as e:  # noqa: BLE001
                viol(f"{kwd} declaration ({shape}) rejected through {route}: {type(e).__name__}: {e}", dict(cd, repro=f"# {route}\n" + (defines + decl + struct)))
                continue
            res.feat("numbering:route:" + route + ("" if compiled is not None else " (parser's default for compiled)"))

            def bad(what, more=(), sig=None, _cd=cd, _script=script):
                viol(what, dict(_cd, repro="\n".join([*_script, *more])), sig)

            # ---- the anonymous declaration: the members are constants of the object
            if route == "token/anonymous":
                res.count(("numbering-anon", defines, anon_decl, endian), True)
                try:
                    got = {n: int(cs.consts[n]) for n in names if n in cs.consts}
                except Exception as e:  # noqa: BLE001
                    bad(f"reading the constants of an anonymous {kwd} raises {type(e).__name__}: {e}", ["print(cs.consts)"])
                    continue
                if got != want:
                    bad(f"anonymous {kwd} ({shape}) registers the constants {got}, C numbering gives {want}", ["print(cs.consts)"])
                continue
            # ---- member table
            more = [f"E = cs.{ename}; S = cs.S{i}", "print({k: int(m.value) for k, m in E.__members__.items()})"]
            try:
                E, S = getattr(cs, ename), getattr(cs, f"S{i}")
                mem = dict(E.__members__)
                got = [(k, int(m.value)) for k, m in mem.items()]
            except Exception as e:  # noqa: BLE001
                bad(f"{kwd} declaration ({shape}) through {route}: reading the members raises {type(e).__name__}: {e}", more)
                continue
            res.count(("numbering-members", defines, decl, endian, route, compiled, al), True)
            res.feat(f"numbering:{kwd}:{'default-type' if default_type else canon}" + (":alias" if spelling != canon else ""))
            res.feat(f"numbering:shape:{kwd}:{shape}")
            for t in tr:
                res.feat(f"numbering:{'legacy' if legacy else 'token'}:{t}")
            if refs:
                res.feat("numbering:initialiser over an earlier member (token parser only)")
            if not lean_done:
                lean_done = True
                lines.append(sx([A("enumvals"), int(is_flag), [[A(k), v] for k, v in consts.items()], [[n, A("none")] if e is None else [n, e] for n, e in members]]))
                metas.append(("enumvals", dict(cd, repro="\n".join([*script, *more])), dict(got)))
            if got != list(want.items()):
                bad(f"{kwd} declaration ({shape}) through {route}: members are {dict(got)}, C numbering gives {want}", more)
                continue
            # ---- every member: its value, its equals, its bytes
            try:
                msg = None
                for n, v in want.items():
                    m = mem[n]
                    raw = v.to_bytes(size, order, signed=signed)
                    if not isinstance(m, E) or int(m) != v or not (m == v and v == m) or (m != v) or m == v + 1:
                        msg = f"member {n} = {m!r} is not an object of the class equal to exactly its integer value {v}"
                    elif m.dumps() != raw:
                        msg = f"member {n} (value {v}) dumps {m.dumps().hex()}, the underlying bytes of {v} are {raw.hex()}"
                    else:
                        for n2, v2 in want.items():
                            if (m == mem[n2]) != (v == v2) or (m != mem[n2]) != (v != v2):
                                msg = f"members {n} = {v} and {n2} = {v2}: == gives {m == mem[n2]}, != gives {m != mem[n2]}"
                                break
                    if msg:
                        more2 = [*more, f"print(repr(E.{n}), E.{n}.dumps().hex())"]
                        break
            except Exception as e:  # noqa: BLE001
                msg, more2 = f"examining the members raises {type(e).__name__}: {e}", more
            if msg:
                bad(f"{kwd} through {route}: {msg}", more2)
                continue
            # ---- every member value and the values in between
            for vi, v in enumerate(vset):
                raw = v.to_bytes(size, order, signed=signed)
                how1 = ENTRY[(i + ri + vi) % (len(ENTRY) - 1)] if rnd.random() < 0.97 else "E(file)"
                how2 = rnd.choice(ENTRY[:9])
                named = [n for n, x in want.items() if x == v]
                res.count(("numbering-value", defines, decl, endian, route, v), True)
                res.feat("numbering:parse:" + how1)
                res.feat("numbering:value:" + ("a member's" if named else "between members / at the type's limits"))
                pl = [*more, f"x = {_parse_line(how1, ename, raw, v)}; y = {_parse_line(how2, ename, raw, v)}",
                      "print(repr(x), repr(y), x.dumps().hex(), x == y, hash(x) == hash(y))"]
                try:
                    o, o2 = _parse(how1, cs, E, ename, raw, v), _parse(how2, cs, E, ename, raw, v)
                except Exception as e:  # noqa: BLE001
                    bad(f"{kwd} through {route}: parsing the underlying value {v} ({how1} / {how2}) raises {type(e).__name__}: {e}", pl)
                    break
                try:
                    msg = None
                    if not isinstance(o, E) or int(o.value) != v or int(o) != v:
                        msg = f"{how1} of the bytes of {v} gives {o!r}, the underlying integer is {v}"
                    elif o.dumps() != raw:
                        msg = f"the object parsed from {raw.hex()} (value {v}) dumps {o.dumps().hex()}"
                    elif not (o == o2 and o2 == o and not (o != o2) and hash(o) == hash(o2)):
                        msg = f"two parses of the underlying value {v} ({how1}, {how2}) give {o!r} and {o2!r}: not equal objects with equal hashes"
                    elif not (o == v and v == o and not (o != v)) or o == v + 1:
                        msg = f"the object parsed for {v} = {o!r} does not compare equal to exactly its integer value"
                    else:
                        for n2, v2 in want.items():
                            if (o == mem[n2]) != (v == v2) or (mem[n2] == o) != (v == v2) or (o != mem[n2]) != (v != v2):
                                msg = (f"the object parsed for the underlying value {v} = {o!r} and member {n2} = {v2}: == gives {o == mem[n2]}, "
                                       f"!= gives {o != mem[n2]}")
                                break
                        if not msg and named and o.name not in named:
                            msg = f"the underlying value {v} is declared as {named}; the parsed object {o!r} is named {o.name!r}"
                        if not msg and not named and not is_flag and o.name is not None:
                            msg = f"no member has the value {v}; the parsed object {o!r} is named {o.name!r}"
                except Exception as e:  # noqa: BLE001
                    msg = f"examining the object parsed for {v} raises {type(e).__name__}: {e}"
                if msg:
                    bad(f"{kwd} through {route}: {msg}", pl)
                    break
            # ---- scalar, array elements and bit-fields of a structure
            off = (size if al else 1) if lead else 0
            try:
                pick = [rnd.choice(vset if rnd.random() < 0.4 else vals) for _ in range(3)]
                lim_lo, lim_hi = (4, 16) if signed else (8, 32)
                small = [v for v in vset if 0 <= v < lim_hi]
                blo = rnd.choice([v for v in small if v < lim_lo] or [rnd.randrange(lim_lo)])
                bhi = rnd.choice(small or [rnd.randrange(lim_hi)])
                sh_lo, sh_hi = (0, 3) if endian == "<" else (bits - 3, bits - 8)
                unit = (blo << sh_lo) | (bhi << sh_hi)
                sraw = bytes([rnd.randrange(256)] * (1 if lead else 0)) + bytes(off - (1 if lead else 0)) + b"".join(v.to_bytes(size, order, signed=signed) for v in pick) \
                    + unit.to_bytes(size, order)
                sl = [*more, f"s = S(bytes.fromhex({sraw.hex()!r})); print(s, s.dumps().hex())"]
                res.count(("numbering-struct", defines, decl, endian, route, compiled, al, sraw), True)
                res.feat("numbering:struct:" + ("default" if compiled is None else "compiled" if compiled else "interpreted") + (":aligned" if al else "") + (":lead" if lead else ""))
                try:
                    s = S(sraw) if rnd.random() < 0.5 else S.read(io.BytesIO(sraw))
                    gotv = [s.one, s.arr[0], s.arr[1], s.lo, s.hi]
                    ds = s.dumps()
                    ln = len(S)
                except Exception as e:  # noqa: BLE001
                    bad(f"{kwd} through {route}: structure with the class as scalar / array / bit-fields raises {type(e).__name__}: {e}", sl)
                    continue
                wantv = [*pick, blo, bhi]
                msg = None
                if ln != len(sraw):
                    msg = f"the structure has size {ln}, C's layout gives {len(sraw)}"
                else:
                    for lab, x, v in zip(["one", "arr[0]", "arr[1]", "lo", "hi"], gotv, wantv):
                        named = [n for n, y in want.items() if y == v]
                        if not isinstance(x, E) or int(x.value) != v:
                            msg = f"structure member {lab} holds {x!r}, the underlying integer stored there is {v}"
                        elif named and (x.name not in named or not (x == mem[named[0]])):
                            msg = f"structure member {lab} = {x!r}: the value {v} is declared as {named}"
                        elif any((x == mem[n2]) != (v == v2) for n2, v2 in want.items()):
                            msg = f"structure member {lab} = {x!r} (value {v}) does not equal exactly the members declared with {v}"
                        if msg:
                            break
                    if not msg and ds != sraw:
                        msg = f"the structure parsed from {sraw.hex()} dumps {ds.hex()}"
                if msg:
                    bad(f"{kwd} through {route}: {msg}", sl)
            except Exception as e:  # noqa: BLE001 - a library handing out other shapes must not trip the harness
                bad(f"{kwd} through {route}: examining the structure raises {type(e).__name__}: {e}", more)
    if tmp[0]:
        try:
            for f in os.listdir(tmp[0]):
                os.unlink(os.path.join(tmp[0], f))
            os.rmdir(tmp[0])
        except OSError:
            pass
