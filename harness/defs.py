"""Type-directed generator of structure definitions.

A definition is a tree; the same tree is rendered to C text for the real parser and to the S-expression the model
driver reads, so both sides start from the same thing.

type  := ("sc", name) | ("enum", ename) | ("ptr", type) | ("arr", type, len) | ("struct", fields) | ("union", fields)
len   := ("fixed", n) | ("expr", text) | ("null",) | ("eof",)
field := {"name": str|None, "ty": type, "bits": int|None}
"""
from __future__ import annotations

import random

from .common import A

INT_SCALARS = ["uint8", "int8", "uint16", "int16", "uint32", "int32", "uint64", "int64", "uint24", "int24", "uint48", "int48", "int128", "uint128"]
ALIASES = ["BYTE", "WORD", "DWORD", "QWORD", "short", "unsigned int", "long long", "u1", "u2", "__u32", "uint64_t", "signed char"]
FLOATS = ["float16", "float", "double"]
SCALARS = INT_SCALARS + FLOATS + ["char", "wchar"]
BIT_TYPES = ["uint8", "uint16", "uint32", "uint64", "int8", "int16", "int32", "E8", "F16", "uint24", "char"]
WIDTH = {"uint8": 8, "int8": 8, "E8": 8, "char": 8, "uint16": 16, "int16": 16, "F16": 16, "uint24": 24, "uint32": 32, "int32": 32, "E32": 32, "E24": 24, "uint64": 64, "int64": 64}
ENUMS = {
    "E8": ("enum", "uint8", [("A", 1), ("B", 2), ("C", 7)]),
    "F16": ("flag", "uint16", [("X", 1), ("Y", 2), ("Z", 0x100)]),
    "E32": ("enum", "int32", [("P", 0), ("Q", -1), ("R", 5)]),
    "E24": ("enum", "uint24", [("U", 0), ("V", 1), ("W", 0x10000)]),
}
PREAMBLE = (
    "enum E8 : uint8 { A = 1, B, C = 7 };\n"
    "flag F16 : uint16 { X, Y, Z = 0x100 };\n"
    "enum E32 : int32 { P, Q = -1, R = 5 };\n"
    "enum E24 : uint24 { U, V, W = 0x10000 };\n"
)


class Gen:
    def __init__(self, rnd: random.Random, *, allow_dynamic=True, allow_bits=True, allow_union=True, allow_ptr=True,
                 allow_float=True, allow_wchar=True, allow_eof=True, max_depth=2, max_fields=5, scalars=None):
        self.rnd = rnd
        self.allow_dynamic = allow_dynamic
        self.allow_bits = allow_bits
        self.allow_union = allow_union
        self.allow_ptr = allow_ptr
        self.allow_eof = allow_eof
        self.max_depth = max_depth
        self.max_fields = max_fields
        sc = list(scalars or (INT_SCALARS + ALIASES + ["char"]))
        if allow_float:
            sc += FLOATS
        if allow_wchar:
            sc += ["wchar"]
        self.scalars = sc
        self.n = 0

    def name(self):
        self.n += 1
        return f"f{self.n}"

    def scalar(self):
        return ("sc", self.rnd.choice(self.scalars))

    def elem(self, depth, dyn):
        r = self.rnd.random()
        if r < 0.55:
            return self.scalar()
        if r < 0.7:
            return ("enum", self.rnd.choice(list(ENUMS)))
        if r < 0.8 and depth > 0:
            return ("struct", self.fields(depth - 1, dyn=False, top=False))
        if r < 0.85 and self.allow_ptr:
            return ("ptr", self.scalar())
        if r < 0.9 and dyn:
            return ("sc", self.rnd.choice(["uleb128", "ileb128"]))
        if r < 0.95:
            return ("arr", self.scalar(), ("fixed", self.rnd.randint(0, 3)))
        return self.scalar()

    def fields(self, depth, dyn=True, top=True, in_union=False):
        rnd = self.rnd
        n = rnd.randint(1, self.max_fields)
        out = []
        int_fields = []
        dyn = dyn and self.allow_dynamic
        while len(out) < n:
            k = rnd.random()
            last = len(out) == n - 1
            if k < 0.30:
                t = self.scalar()
                nm = self.name()
                out.append({"name": nm, "ty": t, "bits": None})
                if t[1] in ("uint8", "BYTE", "u1", "uint16", "int8"):
                    int_fields.append(nm)
            elif k < 0.42:
                t = self.elem(depth, dyn)
                dims = [rnd.randint(0, 3) for _ in range(rnd.randint(1, 2))]
                for d in reversed(dims):
                    if t[0] == "sc" and t[1] in ("uleb128", "ileb128") and False:
                        pass
                    t = ("arr", t, ("fixed", d))
                out.append({"name": self.name(), "ty": t, "bits": None})
            elif k < 0.56 and self.allow_bits and not in_union:
                bt = rnd.choice(BIT_TYPES)
                left = WIDTH[bt]
                for _ in range(rnd.randint(1, 4)):
                    if left == 0:
                        break
                    b = rnd.randint(1, min(left, rnd.choice([3, 9, 17, 33])))
                    ty = ("enum", bt) if bt in ENUMS else ("sc", bt)
                    out.append({"name": self.name(), "ty": ty, "bits": b})
                    left -= b
            elif k < 0.66 and depth > 0:
                kind = "union" if (self.allow_union and rnd.random() < 0.35) else "struct"
                inner = self.fields(depth - 1, dyn=(dyn and kind == "struct" and rnd.random() < 0.3), top=False, in_union=(kind == "union"))
                t = (kind, inner)
                r = rnd.random()
                if r < 0.2:
                    out.append({"name": None, "ty": t, "bits": None})
                elif r < 0.4:
                    out.append({"name": self.name(), "ty": ("arr", t, ("fixed", rnd.randint(0, 2))), "bits": None})
                else:
                    out.append({"name": self.name(), "ty": t, "bits": None})
            elif k < 0.72 and self.allow_ptr:
                tgt = rnd.choice([("sc", "uint8"), ("sc", "uint32"), ("sc", "char"), ("enum", "E8"), ("ptr", ("sc", "uint16"))])
                out.append({"name": self.name(), "ty": ("ptr", tgt), "bits": None})
            elif k < 0.78:
                out.append({"name": self.name(), "ty": ("enum", rnd.choice(list(ENUMS))), "bits": None})
            elif k < 0.81:
                out.append({"name": self.name(), "ty": ("sc", "void"), "bits": None})
            elif dyn and k < 0.89:
                if int_fields and rnd.random() < 0.7:
                    ref = rnd.choice(int_fields)
                    expr = rnd.choice([f"{ref} & 3", f"({ref} & 1) + 1", f"{ref} % 4", f"{ref} & 3 - 1", f"{ref}&1", f"-{ref} & 2", f"K2 - ({ref} & 1)"])
                    et = rnd.choice([("sc", "uint8"), ("sc", "uint16"), ("sc", "char"), ("sc", "wchar"), ("sc", "uint24"), ("enum", "E8"),
                                     ("sc", "uint32"), ("struct", [{"name": self.name(), "ty": ("sc", "uint8"), "bits": None},
                                                                   {"name": self.name(), "ty": ("sc", "uint16"), "bits": None}])])
                    out.append({"name": self.name(), "ty": ("arr", et, ("expr", expr)), "bits": None})
                else:
                    nm = self.name()
                    out.append({"name": nm, "ty": ("sc", "uint8"), "bits": None})
                    int_fields.append(nm)
            elif dyn and k < 0.95:
                et = rnd.choice([("sc", "char"), ("sc", "wchar"), ("sc", "uint16"), ("sc", "uint8"), ("sc", "uleb128"), ("enum", "E8"),
                                 ("sc", "int24"), ("sc", "uint32"), ("sc", "ileb128")])
                out.append({"name": self.name(), "ty": ("arr", et, ("null",)), "bits": None})
            elif dyn and k < 0.98:
                out.append({"name": self.name(), "ty": ("sc", rnd.choice(["uleb128", "ileb128"])), "bits": None})
            elif dyn and top and last and self.allow_eof:
                et = rnd.choice([("sc", "uint8"), ("sc", "uint16"), ("sc", "char"), ("sc", "uint24"), ("enum", "E8")])
                out.append({"name": self.name(), "ty": ("arr", et, ("eof",)), "bits": None})
            else:
                out.append({"name": self.name(), "ty": self.scalar(), "bits": None})
        return out

    def struct(self):
        return ("struct", self.fields(self.max_depth))


# ------------------------------------------------------------------------------------------------ rendering

def render_field(f, anon_counter, indent="  "):
    ty = f["ty"]
    suffix = ""
    stars = ""
    # peel arrays (outermost first in C order) and pointers
    dims = []
    while ty[0] == "arr":
        l = ty[2]
        dims.append({"fixed": lambda: str(l[1]), "expr": lambda: l[1], "null": lambda: "", "eof": lambda: "EOF"}[l[0]]())
        ty = ty[1]
    while ty[0] == "ptr":
        stars += "*"
        ty = ty[1]
    if ty[0] == "arr":
        raise ValueError("pointer to array is not expressible in the definition syntax")
    suffix = "".join(f"[{d}]" for d in dims)
    bits = f" : {f['bits']}" if f["bits"] else ""
    if ty[0] in ("struct", "union"):
        body = " ".join(render_field(g, anon_counter, indent) for g in ty[1])
        head = f"{ty[0]} {{ {body} }}"
        if f["name"] is None:
            return f"{head};"
        return f"{head} {stars}{f['name']}{suffix};"
    tname = ty[1]
    return f"{tname} {stars}{f['name']}{suffix}{bits};"


def render_struct(name: str, t) -> str:
    body = "\n  ".join(render_field(f, None) for f in t[1])
    return f"{t[0]} {name} {{\n  {body}\n}};\n"


def field_names(t, counter=None):
    """The `_name` of every field: anonymous members get __anonymous_N__ in definition order (inner first)."""
    raise NotImplementedError


# ------------------------------------------------------------------------------------------------ to model sexp

def ty_sexp(ty, aligned: bool, anon_names):
    k = ty[0]
    if k == "sc":
        return [A("sc"), ty[1]]
    if k == "enum":
        kind, base, _ = ENUMS[ty[1]]
        return [A(kind), base]
    if k == "ptr":
        return [A("ptr"), ty_sexp(ty[1], aligned, anon_names)]
    if k == "arr":
        l = ty[2]
        ls = {"fixed": lambda: [A("fixed"), l[1]], "expr": lambda: [A("expr"), l[1]], "null": lambda: A("null"), "eof": lambda: A("eof")}[l[0]]()
        return [A("arr"), ty_sexp(ty[1], aligned, anon_names), ls]
    if k in ("struct", "union"):
        fs = []
        for f in ty[1]:
            inner = ty_sexp(f["ty"], aligned, anon_names)
            if f["name"] is None:
                nm = anon_names.pop(0)
                fs.append([A("f"), nm, 1, inner, 0])
            else:
                fs.append([A("f"), f["name"], 0, inner, f["bits"] or 0])
        return [A(k), 1 if aligned else 0, fs]
    raise ValueError(k)


def count_anon(ty) -> int:
    k = ty[0]
    if k in ("ptr", "arr"):
        return count_anon(ty[1])
    if k in ("struct", "union"):
        return sum(count_anon(f["ty"]) for f in ty[1])
    return 0


def features(ty, acc=None, depth=0):
    acc = acc if acc is not None else {}

    def hit(k):
        acc[k] = acc.get(k, 0) + 1

    k = ty[0]
    if k == "sc":
        hit("scalar:" + ty[1])
    elif k == "enum":
        hit("enum:" + ty[1])
    elif k == "ptr":
        hit("pointer")
        features(ty[1], acc, depth)
    elif k == "arr":
        hit("array:" + ty[2][0])
        features(ty[1], acc, depth)
    else:
        hit(k + (":nested" if depth else ":top"))
        for f in ty[1]:
            if f["bits"]:
                hit("bitfield")
            if f["name"] is None:
                hit("anonymous-member")
            features(f["ty"], acc, depth + 1)
    return acc


# ------------------------------------------------------------------------------------------------ hoisting (named sub-definitions, mixed alignment)
# A nested struct/union that is a *named* member (directly or as array element) can be "hoisted": it is rendered as a named
# top-level definition of its own and referenced by name from its parent.  Every hoisted definition is loaded by its own
# cs.load call, so it can carry an `align` flag different from its parent's (mixed alignment modes on one instance) and can
# be addressed by name (len(N), sizeof(N), N[2]).  The tree itself keeps its shape; a hoisted member's field dict gets
#   f["ref"] = (type name, align flag)      and every aggregate member   f["eff_align"] = the flag that governs it.

def innermost(ty):
    while ty[0] in ("arr", "ptr"):
        ty = ty[1]
    return ty


def _copy_ty(ty):
    k = ty[0]
    if k in ("struct", "union"):
        return (k, [dict(f, ty=_copy_ty(f["ty"])) for f in ty[1]])
    if k == "arr":
        return ("arr", _copy_ty(ty[1]), ty[2])
    if k == "ptr":
        return ("ptr", _copy_ty(ty[1]))
    return ty


def hoist(tree, rnd: random.Random, *, p=0.6, top_align=False, mixed=False, prefix="N"):
    """-> (plan, tree2).  plan = [(name, aggregate subtree, align flag)] in load order (dependencies first), the last
    entry being ("T", tree2, top_align); tree2 is an annotated deep copy of `tree` (see above).  mixed=False: every
    hoisted definition uses top_align (same layout as the inline definition); mixed=True: each one draws its own flag."""
    tree2 = _copy_ty(tree)
    plan = []
    counter = [0]

    def visit(agg, align):
        for f in agg[1]:
            inner = innermost(f["ty"])
            if inner[0] not in ("struct", "union"):
                continue
            has_ptr = False
            t = f["ty"]
            while t[0] in ("arr", "ptr"):
                has_ptr = has_ptr or t[0] == "ptr"
                t = t[1]
            if f["name"] is not None and not f["bits"] and not has_ptr and rnd.random() < p:
                counter[0] += 1
                name = f"{prefix}{counter[0]}"
                a = (rnd.random() < 0.5) if mixed else align
                f["ref"] = (name, a)
                f["eff_align"] = a
                visit(inner, a)
                plan.append((name, inner, a))
            else:
                f["eff_align"] = align
                visit(inner, align)

    visit(tree2, top_align)
    plan.append(("T", tree2, top_align))
    return plan, tree2


def render_field_refs(f):
    """like render_field, but a hoisted member is rendered as a reference to its named definition"""
    if "ref" not in f:
        ty = f["ty"]
        inner = innermost(ty)
        if inner[0] in ("struct", "union") and any("ref" in g or innermost(g["ty"])[0] in ("struct", "union") for g in inner[1]):
            # inline aggregate with hoisted members somewhere below: render its body with references
            dims = []
            while ty[0] == "arr":
                l = ty[2]
                dims.append({"fixed": lambda: str(l[1]), "expr": lambda: l[1], "null": lambda: "", "eof": lambda: "EOF"}[l[0]]())
                ty = ty[1]
            body = " ".join(render_field_refs(g) for g in inner[1])
            head = f"{inner[0]} {{ {body} }}"
            if f["name"] is None:
                return f"{head};"
            return f"{head} {f['name']}{''.join(f'[{d}]' for d in dims)};"
        return render_field(f, None)
    ty = f["ty"]
    dims = []
    while ty[0] == "arr":
        l = ty[2]
        dims.append({"fixed": lambda: str(l[1]), "expr": lambda: l[1], "null": lambda: "", "eof": lambda: "EOF"}[l[0]]())
        ty = ty[1]
    return f"{f['ref'][0]} {f['name']}{''.join(f'[{d}]' for d in dims)};"


def render_struct_refs(name: str, t) -> str:
    body = "\n  ".join(render_field_refs(f) for f in t[1])
    return f"{t[0]} {name} {{\n  {body}\n}};\n"
