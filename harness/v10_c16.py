"""C16 (v10): ATTRIBUTE ACCESS THROUGH POINTERS - `ptr.member`, the implicit dereference of Pointer.__getattr__.

"Dereferencing returns what parsing the target type at that absolute stream offset returns, does not move the stream, and is stable on
repeated access; a null pointer or one without a stream raises the dedicated null-dereference error" - also when the dereference is the
implicit one behind `obj.ptr.member`, and whatever the member of the target structure is called.  C member names are not Python
attribute names: `_flags`, `_reserved`, `__vftable` (IDA), `_`, `__x__`, `_repr_html_`, `__copy__`, `read`, `name`, `class`, `None`
are all legal member names, and some legal names coincide with attributes the pointer object has itself because it is an `int` and a
cstruct type instance (`real`, `numerator`, `bit_length`, `type`, `size`, `dumps`, `dereference` ...).

One generated definition per round:

    struct|union X { 2..5 members, names drawn from the catalogues below (at least one starts with an underscore);
                     types: integers of every width / signedness, `char s[k]`, `X *` (a link), an inline nested structure };
    struct H { uint8 a; X *p; X *_q; X *arr[2]; X **pp; struct { uint16 t; X *_ip; } _in; uint8 z; };   typedef X *PX;

loaded through cs.load (one text or two loads; packed / aligned; interpreted / compiled) or with X built through the API
(cs._make_struct + Field + add_type, the link added with add_field - member names that never pass the lexer's eyes), and an image:
H at offset 0, behind it three consecutive X records (for pointer arithmetic) and more X records anywhere; the stored addresses are null,
a record, the record array, an address whose record is cut off by the end of the data, or beyond the data; `pp` points at a planted
cell; link members of the records are planted as well.  H is parsed from a BytesIO through H(s) / H.read(s) / cs.read("H", s) or from
bytes / bytearray / memoryview.

Pointer sources walked: the members p, _q, arr[i], _in._ip; the inner pointer `pp.dereference()`; `pp` itself (attribute forwarding over
two hops: pp.member == parse at the address stored in the cell); `PX` read on its own from a second stream standing at p's slot; results
of pointer arithmetic (`p + k*sizeof(X)`, `p - d`, `(p + d + 5) - 5`, `p + 0`, `null + addr`); link pointers obtained THROUGH attribute
forwarding (`p._next`, then `p._next._flags`); the stream-less pointers of a default-constructed H and arithmetic on them.

For every source and every name (all members of X plus names X does not have: `_nosuch`, `__nosuch__`, `nosuch`) one of the access
conventions `getattr(ptr, name)`, `operator.attrgetter(name)(ptr)`, `ptr.__getattr__(name)`, `getattr(ptr, name, default)`,
`hasattr(ptr, name)` is drawn, the stream parked at a random position, the pointer's cache cold or warmed by an explicit dereference().

Oracle.  Names are classified by a table pinned on the unmodified library: SHADOWED names are found on the pointer object itself (every
attribute of `int`, and the public `type cs size alignment dynamic dumps write dereference __len__ __getattr__ __module__`): the access never dereferences (no NullPointerDereference on a null / stream-less pointer, no EOFError on a wild
one) and - where the property prescribes the value - gives it: real == numerator == __int__() == __index__() == the address, imag == 0,
denominator == 1, bit_length() / bit_count() / conjugate() / to_bytes() / as_integer_ratio() / __hash__() / __bool__() / __eq__() of the
address, `type` is the target class, `size` and __len__() the configured width, dumps() the address bytes, dereference a callable.  Every other name is FORWARDED: a null address or a missing stream raises NullPointerDereference (for names X does
not have, too: the dereference comes first; hasattr() lets it through), an address whose record does not fit in the data raises what parsing
X there raises (EOFError), otherwise `ptr.name` is the member of the record at that absolute offset - computed by the harness from the
image bytes with its own layout (packed definitions: int.from_bytes / the char bytes / the unsigned link address / the nested members) and
compared with `getattr(parse of a separately loaded interpreted copy of X at that offset of a fresh stream, name)` and with
`getattr(ptr.dereference(), name)`; a name X does not have raises AttributeError (hasattr False, getattr default returned).  The stream
stays where it was parked whatever the outcome, a second access gives the same, a forwarded link is a pointer of the link's class on the
same stream.  First-hop dereferences of load-route structures also go to the Lean model (`deref`).  All seven pointer widths, both byte
orders, both readers.

Domain notes (behaviour of the unmodified library; nothing of the pointer's public behaviour is excluded):
  * the pointer object's PRIVATE attribute names (`_value`, `_stream`, `_context`, `_read`, `_write`, `__default__` ...; `PRIVATE`) are never
    generated as member names and nothing is pinned on them: a behaviour-preserving rename of the cache slot must stay quiet (seed C16-r8h1).
  * member names the TARGET class cannot carry are never generated (`NEVER`): a structure with a member `__class__` / `__dict__` / `self`
    cannot be instantiated at all (TypeError in Structure.__init__), members `_values` / `_sizes` are hidden by Structure's own dictionaries;
    that is the structure class's business (not the pointer's) and shows with or without a pointer.
  * a link member of a UNION target comes back bound to the union's private buffer: known finding F11; its value and class are checked, the
    stream identity is reported under F11, the link is not followed.
  * aligned targets: the tail padding of a record need not be inside the data (members are read one by one), so "the record does not fit" is
    decided by the reference parse alone there; the harness's own member offsets are taken from the reference class for aligned layouts (the
    layout rules belong to other properties), computed independently for packed ones.
  * link addresses that were not planted are random bytes: beyond the platform's seek range BytesIO.seek raises OverflowError - from the
    pointer and from the reference parse alike (compared by exception class).
"""
from __future__ import annotations

import io
import operator

from . import impl
from .common import A, sx
from .s2_ptr import ALL_PTRS, pointer_slots

INTS = {"uint8": (1, False), "int8": (1, True), "uint16": (2, False), "int16": (2, True), "uint24": (3, False), "int24": (3, True),
        "uint32": (4, False), "int32": (4, True), "uint48": (6, False), "uint64": (8, False), "int64": (8, True)}
ALIGNABLE = ["uint8", "int8", "uint16", "int16", "uint32", "int32", "uint64", "int64"]

# ---- name catalogues
WORDS = ["flags", "reserved", "vftable", "pad", "unk", "next", "data", "hdr", "cb", "Reserved1", "x", "m_ptr", "v0", "Flink", "self_"]
UNDERSCORE = ["_flags", "_reserved", "__vftable", "_", "__", "___", "_0", "_1x", "_Reserved1", "__unnamed", "_next", "__pad0", "_x_", "__x__", "_padding_"]
# dunder-like / protocol-probe names the pointer object does not have itself (pickle / copy / IPython / functools look for them)
DUNDERLIKE = ["__copy__", "__deepcopy__", "_repr_html_", "_repr_pretty_", "__wrapped__", "__name__", "__qualname__", "__mro__", "__bases__",
              "__slots__", "__iter__", "__next__", "__call__", "__enter__", "__getitem__", "__fspath__", "__bytes__", "__array__",
              "_ipython_canary_method_should_not_exist_", "__set_name__", "__origin__", "__anonymous__"]
# plain names: attributes of the pointer's METAclass (not visible on the instance), Python keywords, everyday names
PLAIN = ["read", "reads", "ArrayType", "mro", "value", "name", "fields", "lookup", "members", "next", "cls", "class",
         "def", "lambda", "None", "True", "import", "ptr", "stream", "context", "deref", "length", "Size", "Type", "REAL"]
# names found on the pointer object itself: int's attributes ...
INT_SHADOW = ["real", "imag", "numerator", "denominator", "bit_length", "conjugate", "to_bytes", "from_bytes", "bit_count", "as_integer_ratio",
              "__int__", "__index__", "__hash__", "__bool__", "__eq__", "__init__", "__repr__", "__doc__", "__reduce__", "__abs__", "__add__",
              "__sizeof__", "__format__", "__str__", "__lt__", "__neg__", "__float__", "__new__", "__dir__", "__setattr__"]
# ... and the PUBLIC names the library's Pointer / BaseType classes put there
LIB_SHADOW = ["type", "cs", "size", "alignment", "dynamic", "dumps", "write", "dereference", "__len__", "__getattr__", "__module__"]
# private attributes of the pointer object (its cache, stream and context slots, the reader hooks): how they are called is the library's own
# business - a behaviour-preserving rename must stay quiet - so target members of these names are never generated and nothing is pinned on them
PRIVATE = {"_value", "_stream", "_context", "_read", "_write", "_read_0", "_read_array", "__default__", "_target", "_cache", "_cached"}
# member names the TARGET structure class cannot carry (Structure's own machinery, not the pointer): never generated
#   __class__ / __dict__ (assignment in Structure.__init__ fails), self (generated __init__ signature), _values / _sizes (Structure's own dicts)
NEVER = {"__class__", "__dict__", "self", "_values", "_sizes"} | PRIVATE
MISSING = ["_nosuch", "__nosuch__", "nosuch", "__nosuch", "_"]

SENTINEL = object()


def stream_of(p):
    """the stream a pointer object is bound to (None: stream-less, or not to be found)"""
    try:
        return object.__getattribute__(p, "_stream")
    except Exception:  # noqa: BLE001
        return None


def is_shadowed(nm):
    return nm in LIB_SHADOW or nm in INT_SHADOW or hasattr(0, nm)       # an int INSTANCE: type-level names (mro, __name__, __bases__) are forwarded


def gen_name(rnd, used):
    for _ in range(50):
        r = rnd.random()
        if r < 0.30:
            nm = rnd.choice(UNDERSCORE)
        elif r < 0.50:
            nm = rnd.choice(["_", "__", "_", "___"]) + rnd.choice(WORDS) + rnd.choice(["", "", "", "_", "__", "1", "_2"])
        elif r < 0.65:
            nm = rnd.choice(DUNDERLIKE)
        elif r < 0.80:
            nm = rnd.choice(PLAIN)
        elif r < 0.92:
            nm = rnd.choice(INT_SHADOW + LIB_SHADOW + LIB_SHADOW)
        else:
            nm = rnd.choice(WORDS) + rnd.choice(["", "_", "__"])
        if nm not in used and nm not in NEVER:
            return nm
    return f"_m{len(used)}"


def gen_underscore(rnd, used):
    for _ in range(50):
        nm = rnd.choice(UNDERSCORE) if rnd.random() < 0.5 else rnd.choice(["_", "__"]) + rnd.choice(WORDS) + rnd.choice(["", "", "_", "__"])
        if nm not in used and nm not in NEVER and not is_shadowed(nm):
            return nm
    return f"_u{len(used)}"


class Mem:
    def __init__(self, name, kind, arg=None):
        self.name, self.kind, self.arg = name, kind, arg   # kind: int (arg = type name) | chars (arg = k) | link | nested
        self.off = None

    def size(self, psz):
        return {"int": lambda: INTS[self.arg][0], "chars": lambda: self.arg, "link": lambda: psz, "nested": lambda: 3}[self.kind]()

    def decl(self):
        if self.kind == "int":
            return f"{self.arg} {self.name};"
        if self.kind == "chars":
            return f"char {self.name}[{self.arg}];"
        if self.kind == "link":
            return f"X *{self.name};"
        return f"struct {{ uint8 _a; uint16 b_; }} {self.name};"

    def sexp(self):
        if self.kind == "int":
            return [A("sc"), self.arg]
        if self.kind == "chars":
            return [A("arr"), [A("sc"), "char"], [A("fixed"), self.arg]]
        if self.kind == "link":
            return [A("ptr"), [A("sc"), "uint8"]]    # the model reads the link as an address of the configured width; its target is not followed
        return [A("struct"), 0, [[A("f"), "_a", 0, [A("sc"), "uint8"], 0], [A("f"), "b_", 0, [A("sc"), "uint16"], 0]]]


def gen_target(rnd, align, route):
    union = rnd.random() < 0.25
    n = rnd.randint(2, 5)
    used, mems = set(), []
    for i in range(n):
        nm = gen_underscore(rnd, used) if i == 0 else gen_name(rnd, used)
        used.add(nm)
        r = rnd.random()
        if r < 0.55:
            mems.append(Mem(nm, "int", rnd.choice(ALIGNABLE if align else list(INTS))))
        elif r < 0.70:
            mems.append(Mem(nm, "chars", rnd.randint(1, 4)))
        elif r < 0.90 or route == "api":
            mems.append(Mem(nm, "link"))
        else:
            mems.append(Mem(nm, "nested"))
    rnd.shuffle(mems)
    return union, mems


def target_text(union, mems):
    return ("union" if union else "struct") + " X {\n" + "".join(f"  {mm.decl()}\n" for mm in mems) + "};\n"


HOLDER = ("struct H {\n  uint8 a;\n  X *p;\n  X *_q;\n  X *arr[2];\n  X **pp;\n  struct { uint16 t; X *_ip; } _in;\n  uint8 z;\n};\n"
          "typedef X *PX;\n")


def norm(m, v):
    """a comparable form of a member value"""
    if type(v).__name__ == "UnionProxy":            # a structure that is a member of a union
        v = object.__getattribute__(v, "__target__")
    if isinstance(v, m.Pointer):
        return ("ptr", int(v))
    if isinstance(v, m.Structure):
        return ("rec", tuple(norm(m, getattr(v, f._name)) for f in type(v).__fields__))
    if isinstance(v, bool):
        return ("int", int(v))
    if isinstance(v, int):
        return ("int", int(v))
    if isinstance(v, (bytes, bytearray)):
        return ("bytes", bytes(v))
    if isinstance(v, list):
        return ("list", tuple(norm(m, x) for x in v))
    return ("other", type(v).__name__, repr(v)[:80])


def build(m, rnd, pname, endian, compiled, align, route, union, mems):
    """-> (cs, ref) : the instance under test and a separately loaded interpreted reference"""
    xt = target_text(union, mems)

    def api(cs):
        fs = []
        for mm in mems:
            if mm.kind == "int":
                fs.append((mm.name, getattr(cs, mm.arg)))
            elif mm.kind == "chars":
                fs.append((mm.name, cs.char[mm.arg]))
            else:
                fs.append((mm.name, None))
        # the link members need the class itself: an empty class first, the members through add_field (one commit at the end)
        X = (cs._make_union if union else cs._make_struct)("X", [], align=align)
        with X.start_update():
            for nm, ty in fs:
                X.add_field(nm, ty if ty is not None else cs._make_pointer(X))
        cs.add_type("X", X)
        cs.load(HOLDER, compiled=compiled, align=align)

    cs = m.cstruct(endian=endian, pointer=pname)
    if route == "load":
        cs.load(xt + HOLDER, compiled=compiled, align=align)
    elif route == "two loads":
        cs.load(xt, compiled=compiled, align=align)
        cs.load(HOLDER, compiled=compiled, align=align)
    else:
        api(cs)
    ref = m.cstruct(endian=endian, pointer=pname)
    ref.load(xt + HOLDER, compiled=False, align=align)
    return cs, ref


def attr_round(m, pname, endian, compiled, rnd, tier, res, viol, lines, metas):
    from dissect.cstruct.exceptions import NullPointerDereference

    psz = ALL_PTRS[pname]
    order = "little" if endian == "<" else "big"
    top = (1 << (8 * psz)) - 1
    align = rnd.random() < 0.3
    route = rnd.choice(["load", "load", "two loads", "api"])
    union, mems = gen_target(rnd, align, route)
    xt = target_text(union, mems)
    cd0 = {"definition": xt + HOLDER, "endian": endian, "pointer": pname, "compiled": compiled, "align": align, "route": route}
    try:
        cs, ref = build(m, rnd, pname, endian, compiled, align, route, union, mems)
        XT, RX, RH = cs.X, ref.X, ref.H
        xsz, hsz = len(RX), len(RH)
        slots = pointer_slots(RH)          # p, _q, arr[0], arr[1], pp, _in._ip
        if len(slots) != 6:
            raise ValueError(f"holder has {len(slots)} pointer slots")
    except Exception as e:  # noqa: BLE001
        viol(f"attribute forwarding: a definition whose pointer target has the members {[mm.name for mm in mems]} is rejected ({route}): "
             f"{type(e).__name__}: {e}", cd0)
        return
    # ---- the harness's own layout of X (packed: running offsets / 0 for a union; aligned: scalar members only, offsets from the reference class)
    off = 0
    for mm in mems:
        if align:
            mm.off = RX.fields[mm.name].offset if mm.name in RX.fields and mm.kind != "nested" else None
        else:
            mm.off = 0 if union else off
            off += mm.size(psz)
    if not align:
        own = max(mm.size(psz) for mm in mems) if union else off
        if own != xsz:
            viol(f"attribute forwarding: the packed target occupies {xsz} bytes, its members add up to {own}", cd0)
            return
    # ---- image
    N = 250 if psz == 1 else rnd.randint(300, 420)
    D = bytearray(rnd.choice([0, 1, 0x41, 0x7F, 0x80, 0xFF, rnd.randrange(256), rnd.randrange(256)]) for _ in range(N))
    if hsz + 3 * xsz + psz + 4 >= N:
        return
    A0 = rnd.randint(hsz, N - 3 * xsz)                 # three consecutive records
    recs = [A0, A0 + xsz, A0 + 2 * xsz] + [rnd.randint(hsz, N - xsz) for _ in range(4)]

    def pick():
        r = rnd.random()
        if r < 0.10:
            return 0
        if r < 0.40:
            return A0
        if r < 0.82:
            return rnd.choice(recs)
        if r < 0.92:
            return min(rnd.randint(N - xsz + 1, N), top)        # the record is cut off by the end of the data
        return min(N + rnd.randint(0, 3), top)

    addr = {"p": A0 if rnd.random() < 0.5 else pick(), "_q": pick(), "arr[0]": pick(), "arr[1]": pick(), "_in._ip": pick()}
    cell = rnd.randint(hsz, N - psz)
    inner = pick()
    enc = lambda x: x.to_bytes(psz, order)  # noqa: E731
    D[0], D[hsz - 1] = 7, 9
    for key, so in zip(["p", "_q", "arr[0]", "arr[1]", "pp", "_in._ip"], slots):
        D[so:so + psz] = enc(cell if key == "pp" else addr[key])
    D[cell:cell + psz] = enc(inner)
    # the holder's own slots must survive the planting below: plant links only into records behind the holder (all are) but not over the cell
    for ra in recs:
        for mm in mems:
            if mm.kind == "link" and mm.off is not None and rnd.random() < 0.8:
                lo = ra + mm.off
                if lo + psz <= cell or lo >= cell + psz:
                    D[lo:lo + psz] = enc(rnd.choice([0, rnd.choice(recs), rnd.choice(recs), min(N + 1, top)]))
    inner = int.from_bytes(D[cell:cell + psz], order)
    D = bytes(D)
    cd0["data"] = D.hex()

    def own_member(a, mm):
        """the member of the record at absolute offset a, from the image bytes"""
        b = D[a + mm.off:a + mm.off + mm.size(psz)]
        if mm.kind == "int":
            return ("int", int.from_bytes(b, order, signed=INTS[mm.arg][1]))
        if mm.kind == "chars":
            return ("bytes", b)
        if mm.kind == "link":
            return ("ptr", int.from_bytes(b, order))
        return ("rec", (("int", b[0]), ("int", int.from_bytes(b[1:3], order))))

    def ref_record(a):
        s = io.BytesIO(D)
        try:
            s.seek(a)                # (an address beyond the platform's seek range: OverflowError, from the pointer as well)
            return ("ok", RX._read(s))
        except Exception as e:  # noqa: BLE001
            return ("err", type(e).__name__)

    # ---- parse the holder
    kind = rnd.choice(["BytesIO", "BytesIO", "BytesIO.read", "cs.read", "bytes", "bytearray", "memoryview"])
    stream = None
    try:
        if kind.startswith("BytesIO") or kind == "cs.read":
            stream = io.BytesIO(D)
            h = cs.H(stream) if kind == "BytesIO" else cs.H.read(stream) if kind == "BytesIO.read" else cs.read("H", stream)
        else:
            h = cs.H({"bytes": bytes, "bytearray": bytearray, "memoryview": memoryview}[kind](D))
            stream = stream_of(h.p)
        srcs = [("h.p", h.p, addr["p"]), ("h._q", h._q, addr["_q"]), ("h.arr[0]", h.arr[0], addr["arr[0]"]), ("h.arr[1]", h.arr[1], addr["arr[1]"]),
                ("h._in._ip", h._in._ip, addr["_in._ip"])]
        bad = [(s, int(p), a) for s, p, a in srcs if int(p) != a or not isinstance(p, m.Pointer)]
        if bad or int(h.pp) != cell:
            viol(f"attribute forwarding: pointer values {bad or int(h.pp)} are not the unsigned integers stored", dict(cd0, input=kind))
            return
    except Exception as e:  # noqa: BLE001
        viol(f"attribute forwarding: parsing the holder from {kind} raises {type(e).__name__}: {e}", dict(cd0, input=kind))
        return
    cd0["input"] = kind
    res.feat(f"attr-forwarding:route:{route}")
    res.feat(f"attr-forwarding:input:{kind}")
    res.feat(f"attr-forwarding:target:{'union' if union else 'struct'}{':aligned' if align else ''}")
    # more sources: inner pointer of pp, pp itself (two hops), PX on its own, arithmetic, stream-less
    try:
        ip = h.pp.dereference()
        if not isinstance(ip, m.Pointer) or int(ip) != inner:
            viol(f"attribute forwarding: h.pp dereferences to {ip!r}, the cell at {cell} holds {inner}", cd0)
        else:
            srcs.append(("h.pp.dereference()", ip, inner))
        srcs.append(("h.pp", h.pp, inner))             # forwarding over two hops; classified below with hops=2
        s2 = io.BytesIO(D)
        s2.seek(slots[0])
        px = cs.PX(s2) if rnd.random() < 0.5 else cs.PX.read(s2)
        s2.seek(rnd.randrange(N))
        srcs.append(("PX read at p's slot", px, addr["p"]))
        base = list(srcs[:5]) + [srcs[-1]]
        for sname, p, a in base:
            if sname == "h.pp":
                continue
            forms = []
            if a == 0:
                t = rnd.choice(recs)
                forms.append((f"({sname} + {t})", lambda p=p, t=t: p + t, t))
            else:
                k = rnd.randint(1, 2) * xsz
                forms.append((f"({sname} + {k})", lambda p=p, k=k: p + k, a + k))
                if a - k > 0:
                    forms.append((f"({sname} - {k})", lambda p=p, k=k: p - k, a - k))
                forms.append((f"(({sname} + {k} + 5) - 5)", lambda p=p, k=k: (p + k + 5) - 5, a + k))
                forms.append((f"({sname} + 0)", lambda p=p: p + 0, a))
                forms.append((f"({sname} - {a})", lambda p=p, a=a: p - a, 0))
            for fname, fn, ra in rnd.sample(forms, min(len(forms), 2)):
                if 0 <= ra <= top:
                    q = fn()
                    if type(q) is not type(p) or int(q) != ra:
                        viol(f"attribute forwarding: {fname} is {q!r}, not a pointer of the same type at {ra}", cd0)
                    else:
                        srcs.append((fname, q, ra))
        h0 = cs.H()
        srcs.append(("cs.H().p", h0.p, None))
        srcs.append((f"(cs.H()._q + {A0})", h0._q + A0, None))
    except Exception as e:  # noqa: BLE001
        viol(f"attribute forwarding: preparing the pointers raises {type(e).__name__}: {e}", cd0)
        return

    names = [mm.name for mm in mems]
    byname = {mm.name: mm for mm in mems}
    missing = [x for x in MISSING if x not in byname][:3]
    sent = set()

    def script(sname, nm):
        if route == "api" or sname.startswith("PX"):
            return None
        load = (f"cs.load({xt + HOLDER!r}, compiled={compiled}, align={align})" if route == "load" else
                f"cs.load({xt!r}, compiled={compiled}, align={align}); cs.load({HOLDER!r}, compiled={compiled}, align={align})")
        mk = {"BytesIO": "h = cs.H(io.BytesIO(D))", "BytesIO.read": "h = cs.H.read(io.BytesIO(D))", "cs.read": "h = cs.read('H', io.BytesIO(D))",
              "bytes": "h = cs.H(D)", "bytearray": "h = cs.H(bytearray(D))", "memoryview": "h = cs.H(memoryview(D))"}[kind]
        return (f"import io; from dissect.cstruct import cstruct\ncs = cstruct(endian={endian!r}, pointer={pname!r}); {load}\n"
                f"D = bytes.fromhex({D.hex()!r}); {mk}\nprint(getattr({sname}, {nm!r}))")

    def outcome(fn):
        try:
            return ("ok", fn())
        except NullPointerDereference:
            return ("null",)
        except AttributeError as e:
            return ("attr", str(e)[:100])
        except Exception as e:  # noqa: BLE001
            return ("err", type(e).__name__, str(e)[:100])

    def show(o):
        return f"the value {norm(m, o[1])!r}" if o[0] == "ok" else "NullPointerDereference" if o[0] == "null" else \
            f"AttributeError({o[1]})" if o[0] == "attr" else f"{o[1]}({o[2]})"

    def probe(sname, p, a, nm, depth):
        st = stream_of(p)
        park = rnd.randrange(N + 1)
        if st is not None:
            st.seek(park)
        cd = dict(cd0, pointer_expr=sname, address=a, attribute=nm, parked_at=park)
        py = script(sname, nm)
        if py:
            cd["python"] = py
        res.count(("attr", pname, endian, compiled, xt, sname, a, nm, D), bool(a))
        hops2 = sname == "h.pp"
        # ---- names the pointer object has itself
        if is_shadowed(nm):
            res.feat("attr-forwarding:shadowed-name")
            o = outcome(lambda: getattr(p, nm))
            if o[0] != "ok":
                viol(f"attribute forwarding: {sname}.{nm} ({nm} is an attribute of the pointer object itself, address {a}) gives {show(o)}", cd)
            elif a is not None and not hops2:
                v = o[1]
                pins = {"real": lambda: v == a and type(v) is int, "numerator": lambda: v == a, "imag": lambda: v == 0, "denominator": lambda: v == 1,
                        "bit_length": lambda: v() == a.bit_length(), "bit_count": lambda: v() == bin(a).count("1"), "conjugate": lambda: v() == a,
                        "to_bytes": lambda: v(17, order) == a.to_bytes(17, order), "as_integer_ratio": lambda: v() == (a, 1),
                        "from_bytes": lambda: callable(v), "__int__": lambda: v() == a, "__index__": lambda: v() == a,
                        "__hash__": lambda: v() == hash(a), "__bool__": lambda: v() == (a != 0), "__eq__": lambda: v(a) is True,
                        "__abs__": lambda: v() == a, "__add__": lambda: int(v(1)) == a + 1, "__lt__": lambda: v(a + 1) is True,
                        "__float__": lambda: v() == float(a), "__neg__": lambda: v() == -a,
                        "type": lambda: v is XT, "size": lambda: v == psz, "__len__": lambda: v() == psz, "dumps": lambda: v() == enc(a),
                        "dereference": lambda: callable(v)}
                if nm in pins:
                    try:
                        good = pins[nm]()
                    except Exception as e:  # noqa: BLE001
                        good = False
                        cd["pin_error"] = f"{type(e).__name__}: {e}"
                    if not good:
                        viol(f"attribute forwarding: {sname}.{nm} ({nm} is an attribute of the pointer object itself, address {a}) is {v!r}: not what "
                             f"the pointer's own integer value / type / stream prescribe", cd)
            if st is not None and st.tell() != park:
                viol(f"attribute forwarding: {sname}.{nm} moved the stream from {park} to {st.tell()}", cd)
            return
        # ---- forwarded names: what the property prescribes
        if a is None or a == 0:
            want = ("null",)
        else:
            r = ref_record(a)
            if r[0] == "err":
                want = ("err", r[1])
            elif nm in byname:
                want = ("ok", norm(m, getattr(r[1], nm)))
                mm = byname[nm]
                if mm.off is not None and a + xsz <= N:
                    mine = own_member(a, mm)
                    if mine != want[1]:
                        viol(f"attribute forwarding: the reference parse of X at {a} gives {nm} = {want[1]!r}, the image bytes say {mine!r}", cd)
                        return
            else:
                want = ("attr",)
        # (aligned layouts: the tail padding of the last record need not be there, the members are read one by one)
        if a is not None and a != 0 and a + xsz > N and want[0] != "err" and not align:
            viol(f"attribute forwarding: the record at {a} does not fit into {N} bytes but the reference parse succeeded", cd)
            return
        warm = rnd.random() < 0.3
        if warm:
            outcome(lambda: p.dereference())
        conv = rnd.choice(["getattr", "getattr", "attrgetter", "__getattr__", "default", "hasattr"])
        res.feat(f"attr-forwarding:access:{conv}")
        res.feat("attr-forwarding:name:" + ("missing" if nm not in byname else "underscore" if nm.startswith("_") else "plain"))
        res.feat("attr-forwarding:outcome:" + want[0])
        if conv == "getattr":
            o = outcome(lambda: getattr(p, nm))
        elif conv == "attrgetter":
            o = outcome(lambda: operator.attrgetter(nm)(p))
        elif conv == "__getattr__":
            o = outcome(lambda: p.__getattr__(nm))
        elif conv == "default":
            o = outcome(lambda: getattr(p, nm, SENTINEL))
            if want[0] == "attr":
                if not (o[0] == "ok" and o[1] is SENTINEL):
                    viol(f"attribute forwarding: getattr({sname}, {nm!r}, default) (X at {a} has no such member) gives {show(o)}, not the default", cd)
                o = None
            elif o[0] == "ok" and o[1] is SENTINEL:
                viol(f"attribute forwarding: getattr({sname}, {nm!r}, default) returns the default; " +
                     (f"parsing X at {a} gives {nm} = {want[1]!r}" if want[0] == "ok" else f"the pointer (address {a}) cannot be dereferenced: {want}"), cd)
                o = None
        else:
            o = outcome(lambda: hasattr(p, nm))
            good = (o == ("ok", True) if want[0] == "ok" else o == ("ok", False) if want[0] == "attr" else o[0] == "null" if want[0] == "null" else
                    (o[0] == "err" and o[1] == want[1]))
            if not good:
                viol(f"attribute forwarding: hasattr({sname}, {nm!r}) gives {show(o) if o[0] != 'ok' else o[1]}; " +
                     (f"parsing X at {a} gives {nm} = {want[1]!r}" if want[0] == "ok" else
                      "a null / stream-less pointer must raise NullPointerDereference" if want[0] == "null" else
                      f"X (parsed at {a}) has no member {nm}: False" if want[0] == "attr" else f"parsing X at {a} raises {want[1]}"), cd)
            o = None
        if o is not None:
            good = (o[0] == want[0] == "ok" and norm(m, o[1]) == want[1]) or (o[0] == want[0] == "null") or (o[0] == want[0] == "attr") or \
                   (o[0] == want[0] == "err" and o[1] == want[1])
            if not good:
                exp = (f"parsing X at {a} gives {nm} = {want[1]!r}" if want[0] == "ok" else
                       "a null / stream-less pointer must raise NullPointerDereference" if want[0] == "null" else
                       f"X (parsed at {a}) has no member {nm}: AttributeError" if want[0] == "attr" else f"parsing X at {a} raises {want[1]}")
                viol(f"attribute forwarding: {sname}.{nm} [{conv}] gives {show(o)}; {exp}", cd)
        if st is not None and st.tell() != park:
            viol(f"attribute forwarding: {sname}.{nm} [{conv}] moved the stream from {park} to {st.tell()}", cd)
            st.seek(park)
        # ---- stable, and the same as the explicit dereference
        if o is not None and o[0] == "ok" and want[0] == "ok":
            o2 = outcome(lambda: getattr(p, nm))
            o3 = outcome(lambda: getattr(p.dereference().dereference() if hops2 else p.dereference(), nm))
            for what, x in (("a second access", o2), ("the explicit dereference()", o3)):
                if x[0] != "ok" or norm(m, x[1]) != want[1]:
                    viol(f"attribute forwarding: {sname}.{nm} gives {want[1]!r}, {what} gives {show(x)}", cd)
            if st is not None and st.tell() != park:
                viol(f"attribute forwarding: repeated access to {sname}.{nm} moved the stream from {park} to {st.tell()}", cd)
            # a link obtained through forwarding is a pointer of the link's class on the same stream: walk on
            v = o[1]
            if byname[nm].kind == "link":
                res.feat("attr-forwarding:link-through-forwarding")
                if not isinstance(v, m.Pointer) or getattr(type(v), "type", None) is not XT:
                    viol(f"attribute forwarding: {sname}.{nm} is {v!r}: not a pointer to X", cd)
                elif stream_of(v) is not st:
                    # known finding F11: a pointer that is a member of a UNION is bound to the union's private buffer, not to the stream the
                    # union was read from; such links are reported under F11 and not followed
                    viol(f"attribute forwarding: {sname}.{nm} is {v!r}: a pointer that is not on the stream of {sname}", dict(cd, in_union=union),
                         "F11" if union else None)
                elif depth < 2:
                    for nm2 in rnd.sample(names + missing, min(3, len(names) + len(missing))):
                        probe(f"getattr({sname}, {nm!r})", v, int(v), nm2, depth + 1)
            elif byname[nm].kind == "nested":
                res.feat("attr-forwarding:nested-through-forwarding")
                if outcome(lambda: (int(v._a), int(v.b_))) != ("ok", (want[1][1][0][1], want[1][1][1][1])):
                    viol(f"attribute forwarding: {sname}.{nm}._a / .b_ are not the members of the nested structure {want[1]!r}", cd)

    for sname, p, a in srcs:
        # the Lean model on the first hop (load routes, packed structures: the model's layout of X is then the declared order)
        if (route != "api" and not align and not union and a is not None and sname != "h.pp" and a not in sent and a <= N + 8
                and isinstance(p, m.Pointer)):
            sent.add(a)
            o = outcome(lambda: p.dereference())
            tsexp = [A("struct"), 0, [[A("f"), mm.name, 0, mm.sexp(), 0] for mm in mems]]
            cfg = [A("cfg"), A("le" if endian == "<" else "be"), pname, [[A(k), v] for k, v in impl.CONSTS.items()]]
            try:
                got = ("ok", impl.canon(o[1])) if o[0] == "ok" else ("null",) if o[0] == "null" else ("err", impl.ERRMAP.get(o[1], o[1]))
                lines.append(sx([A("deref"), cfg, tsexp, D, a, 1]))
                metas.append((dict(cd0, pointer_expr=sname, addr=a), got))
            except Exception:  # noqa: BLE001
                pass
        todo = list(names) + missing if tier != "quick" or rnd.random() < 0.5 else rnd.sample(names, min(3, len(names))) + missing[:1]
        # the underscore member always
        for nm in dict.fromkeys([names[0] if names[0].startswith("_") else next(x for x in names if x.startswith("_"))] + todo):
            try:
                probe(sname, p, a, nm, 0)
            except Exception as e:  # noqa: BLE001
                viol(f"attribute forwarding: probing {sname}.{nm} failed inside the harness's view of the library: {type(e).__name__}: {e}",
                     dict(cd0, pointer_expr=sname, attribute=nm))


def attr_forwarding(m, env, res, viol, rnd, lines, metas):
    tier = env["tier"]
    for pname in ALL_PTRS:
        for endian in "<>":
            for compiled in (False, True):
                for _ in range(5 if tier == "quick" else 24):
                    attr_round(m, pname, endian, compiled, rnd, tier, res, viol, lines, metas)
