"""s1: multi-step histories on ONE cstruct instance (probe families of C01, C02 and C04).

The quantifiers of the structure properties range over configurations (endianness, pointer width); the library reads the
configuration from the live attributes `cs.endian` / `cs.pointer`, which users change between operations (mixed-endian
formats, several targets described with one instance).  The ordinary probes build a fresh instance per configuration and
so never observe state that survives a configuration change.  The drivers here keep one instance (impl.Session) alive
through epochs - operations, configuration change, operations, ... - and hand every operation to the property module's
own predicate.
"""
from __future__ import annotations

from . import defs, impl
from .structprops import rand_bytes


# ------------------------------------------------------------------------------------------------ endianness

def endian_epochs(rnd):
    """a sequence of endianness epochs that changes at least once: both orders, sometimes back again"""
    e1 = rnd.choice("<>")
    e2 = ">" if e1 == "<" else "<"
    return rnd.choice([[e1, e2], [e1, e2], [e1, e2, e1], [e1, e2, e1, e2]])


def endian_history(rnd, tree, *, align, compiled, ptr, on_parse, on_carried=None, name="T", ops=(1, 1, 2), data_for=None):
    """Load `tree` once, then per epoch (cs.endian switched in between) run 1-2 operations:
         on_parse(L, data, epoch_index)           parse `data` and evaluate the predicate; returns the parsed object or None
         on_carried(L, obj, epoch_index)          evaluate the predicate on a value that was parsed in the previous epoch
       L is a view whose recorded endianness is the instance's current one.  -> the session, or None if the definition was
       rejected."""
    epochs = endian_epochs(rnd)
    sess = impl.Session(endian=epochs[0], pointer=ptr)
    try:
        L0 = sess.load(tree, name, compiled=compiled, align=align)
    except Exception:  # noqa: BLE001
        return None
    T = L0.T
    size = T.size if T.size is not None else 48
    carried = None
    for i, e in enumerate(epochs):
        if i:
            sess.set_endian(e)
        L = impl.retarget(L0, endian=e)
        todo = ["parse"] * rnd.choice(ops)
        if carried is not None and on_carried is not None and rnd.random() < 0.7:
            todo.insert(rnd.randint(0, len(todo)), "carried")
        for op in todo:
            if op == "carried":
                sess.note(f"# dump the value parsed in the previous epoch under cs.endian = {e!r}, parse it back")
                on_carried(L, carried, i)
                continue
            data = data_for(L, size) if data_for else rand_bytes(rnd, size + rnd.choice([0, 5, 20]))
            sess.note(f"v = cs.{name}(bytes.fromhex({data.hex()!r})); d = v.dumps()   # under cs.endian = {e!r}")
            obj = on_parse(L, data, i)
            if obj is not None:
                carried = obj
    return sess


SCALAR_POOL = defs.INT_SCALARS + defs.FLOATS + ["char", "wchar"] + list(defs.ENUMS)


def scalar_history(rnd, *, on_value, n_types=10):
    """standalone (non-structure) types on one instance across endianness epochs: scalars, enums and fixed arrays of them.
    on_value(sess, type, type text, data, epoch index, endian) evaluates the predicate."""
    epochs = endian_epochs(rnd)
    sess = impl.Session(endian=epochs[0], pointer=rnd.choice(["uint64", "uint32", "uint16"]))
    names = rnd.sample(SCALAR_POOL, n_types)
    types = []
    for nm in names:
        t = sess.cs.resolve(nm)
        types.append((t, f"cs.resolve({nm!r})"))
        if rnd.random() < 0.5:
            k = rnd.choice([1, 2, 3])
            types.append((t[k], f"cs.resolve({nm!r})[{k}]"))
    for i, e in enumerate(epochs):
        if i:
            sess.set_endian(e)
        for t, text in types:
            if i and rnd.random() < 0.2:
                continue
            data = rand_bytes(rnd, t.size + rnd.choice([0, 3]))
            on_value(sess, t, text, data, i, e)
    return sess


# ------------------------------------------------------------------------------------------------ pointer width

PTRS = ["uint64", "uint32", "uint16", "uint8"]
PTR_TARGETS = [("sc", "uint8"), ("sc", "uint32"), ("sc", "char"), ("enum", "E8"), ("ptr", ("sc", "uint16")), ("sc", "uint16"), ("sc", "void")]


def with_pointers(rnd, g: defs.Gen, tree):
    """the tree with 1-2 more pointer members (plain, array of pointers, or inside a nested structure) at random places"""
    fields = list(tree[1])
    for _ in range(rnd.choice([1, 1, 2])):
        ty = ("ptr", rnd.choice(PTR_TARGETS))
        r = rnd.random()
        if r < 0.3:
            ty = ("arr", ty, ("fixed", rnd.choice([1, 2, 3])))
        elif r < 0.45:
            ty = ("struct", [{"name": g.name(), "ty": ("sc", rnd.choice(["uint8", "uint16"])), "bits": None}, {"name": g.name(), "ty": ty, "bits": None}])
        pos = rnd.randint(0, len(fields))
        if fields and fields[-1]["ty"][0] == "arr" and fields[-1]["ty"][2][0] == "eof":
            pos = rnd.randint(0, len(fields) - 1)
        fields.insert(pos, {"name": g.name(), "ty": ty, "bits": None})
    return (tree[0], fields)


def pointer_history(rnd, trees, *, align, compiled, on_loaded, exercise=True):
    """one instance; for each tree in turn: (re)configure `cs.pointer` to a width different from the previous one, load the
    tree under a new name, and hand the view to on_loaded(L, epoch index).  Definitions loaded earlier are exercised (parsed
    and dumped) before the width changes so that whatever the library caches for them exists."""
    widths = []
    for _ in trees:
        widths.append(rnd.choice([w for w in PTRS if not widths or w != widths[-1]]))
    sess = impl.Session(endian="<", pointer=widths[0])
    views = []
    for i, (tree, w) in enumerate(zip(trees, widths)):
        if i:
            sess.set_pointer(w)
        name = f"T{i}"
        try:
            L = sess.load(tree, name, compiled=compiled, align=align)
        except Exception as e:  # noqa: BLE001
            on_loaded(None, i, sess, tree, e)
            continue
        views.append(L)
        on_loaded(L, i, sess, tree, None)
        if exercise and L.T.size is not None:
            r = impl.parse(L.T, bytes(L.T.size + 4))
            if r[0] == "ok":
                impl.dump(L.T, r[1])
    return sess
