"""Helpers for the C01 check (round 10): CODE POINTS vs CODE UNITS - wide-character members whose values leave the basic plane.

A wchar array of N entries holds N UTF-16 code UNITS (2 N bytes); the Python value is a str, whose len() counts code POINTS.  The two
agree on every text the other families (and the library's tests) use: ASCII and NULs, and random bytes hardly ever form a valid
surrogate pair.  They differ as soon as a character outside the basic multilingual plane is in the value (one code point, two units):
any place of the writer, the readers or the default / padding logic that measures the string with len() is then off by one unit per
such character - dumps(v) gets longer (or shorter) than the declared size, and every member behind the text is read from the wrong
place, silently.  This family walks the wchar member forms, their spellings and positions with such values.

  text members  wchar c (one unit);  wchar s[n] (n = 0..9);  the same through an array typedef (typedef wchar W10An[n]; W10An s;);
                wchar s[expression over an earlier count member] (c, c & 7, c * 2, c + 1, K2 + (c & 3));  wchar s[] (null-terminated);
                wchar s[EOF] (last member of the top structure);  wchar s[m][n].  `wchar` is spelled by every name the live type table
                has for it (wchar, wchar_t, WCHAR ...) or by a user typedef.
  positions     in a structure between ordinary members (integers of every width, char, char arrays, enums, flags, small integer
                arrays) that show a reader that is off - at the top, in a named nested structure, in an anonymous one, in the
                elements of an array of structures, and as a member of a union next to integer views of the same bytes; several text
                members in one structure.
  entry points  cs.load, cs.loadfile (a real file), the legacy parser (flat packed definitions), the API (cs._make_struct /
                cs._make_union from Field objects, or add_field field by field; compiler.compile; cs.add_type); interpreted and
                compiled, packed and aligned, byte order spelled '<' '>' '!' '@' '=', every pointer width.
  values        strings of EXACTLY the declared number of units, made of characters outside the basic plane (U+10000, U+10400,
                U+1F600, U+1D11E, U+FFFFF, U+100000, U+10FFFF, random ones) at every position - one of them at a drawn position, several,
                nothing else - mixed with BMP characters of every kind (ASCII, Latin-1, U+0100, CJK, U+D7FF, U+E000, U+FEFF, U+FFFD,
                U+FFFF, and NUL where the form allows it); some values all-BMP for contrast.  Every value is (a) constructed directly
                from keyword arguments (plain str / typed instances) and (b) obtained by parsing this module's own textbook UTF-16
                encoding of the same value (units computed by arithmetic, not by str.encode; alignment padding by the textbook rule)
                followed by foreign bytes.
  predicates    the caller's check_roundtrip / check_constructed (parse(dumps(v)) == v, consumed == len(dumps(v)), model write / read
                compared), and here: len(dumps(v)) == the declared size when the type has one; the value parsed back is compared
                member by member with the plain Python values the harness put in (the text by its code units, the members BEHIND it
                by their numbers), independently of the library's __eq__; and the same through drawn pairs of calling conventions
                (v.dumps() / T.dumps(v) / v.write / T.write, also at stream offsets 3 and 32; T(x) / T.read(x) / cs.read(name, x) /
                T.reads(x) over bytes, bytearray, memoryview, BytesIO, a real file, a BufferedReader).
  stand-alone   the array types on their own: typedef'd wchar T[n] / T[] / T[EOF] / T[m][n], cs.resolve(spelling)[n] / [None] /
                [Expression('EOF')] / [Expression('K2 + 1')]: dumps(v) has 2 n bytes (+2 for the terminator), parses back to v and is
                consumed exactly, through the same calling conventions.

Restrictions (documented, not silenced): a single `wchar` holds one unit, so its values are BMP characters (a lone surrogate is not a
str the codec accepts, and an astral character is not a value of the type); null-terminated text has no NUL inside; aligned
structures ending in s[EOF] are known finding F30 and aligned structures written / read at stream offset 3 are F43 (both classified by
their signature, not skipped); parsed-origin values are built for packed layouts and for aligned layouts of static size (the textbook
encoder does not predict the padding behind dynamically sized members of aligned structures; those get constructed values only).
"""
from __future__ import annotations

import io
import os
import random
import struct as _struct
import sys

from . import defs, impl, refimpl, u1_arrays, v9_c01

# ------------------------------------------------------------------------------------------------ text

BMP = ["a", "Z", "0", " ", "\x01", "\x7f", "\xe9", "\xff", "\u0100", "\u20ac", "\u4e2d", "\ud7ff", "\ue000", "\ufeff", "\ufffd", "\uffff", "b", "q"]
ASTRAL = [0x10000, 0x10400, 0x1F600, 0x1D11E, 0x2A6D6, 0xFFFFF, 0x100000, 0x10FFFF, 0x1FFFF, 0x10001, 0x103FF]


def units(s: str) -> list[int]:
    """the UTF-16 code units of a str, by arithmetic"""
    out = []
    for ch in s:
        cp = ord(ch)
        if cp < 0x10000:
            out.append(cp)
        else:
            cp -= 0x10000
            out += [0xD800 + (cp >> 10), 0xDC00 + (cp & 0x3FF)]
    return out


def enc_units(us, endian: str) -> bytes:
    return b"".join(_struct.pack(("<" if endian == "<" else ">") + "H", u) for u in us)


def astral(rnd: random.Random) -> str:
    return chr(rnd.choice(ASTRAL) if rnd.random() < 0.7 else rnd.randint(0x10000, 0x10FFFF))


def bmp(rnd: random.Random, nul_ok: bool) -> str:
    if nul_ok and rnd.random() < 0.08:
        return "\x00"
    if rnd.random() < 0.75:
        return rnd.choice(BMP)
    while True:
        cp = rnd.randint(1, 0xFFFF)
        if not 0xD800 <= cp <= 0xDFFF:
            return chr(cp)


def text(rnd: random.Random, n: int, *, nul_ok=True, stats=None) -> str:
    """a str of exactly n UTF-16 units"""
    k = rnd.random()
    if n < 2 or k < 0.12:
        na = 0
    elif k < 0.6:
        na = 1
    elif k < 0.85:
        na = rnd.randint(1, n // 2)
    else:
        na = n // 2
    slots = ["A"] * na + ["B"] * (n - 2 * na)
    rnd.shuffle(slots)
    s = "".join(astral(rnd) if c == "A" else bmp(rnd, nul_ok) for c in slots)
    assert len(units(s)) == n
    if stats is not None and na:
        stats["astral"] = stats.get("astral", 0) + 1
        pos = 0
        for c in slots:
            if c == "A":
                stats[f"astral at unit {min(pos, 6)}{'+' if pos >= 6 else ''}"] = 1
            pos += 2 if c == "A" else 1
    return s


# ------------------------------------------------------------------------------------------------ definitions

def F(name, ty, **kw):
    return dict({"name": name, "ty": ty, "bits": None}, **kw)


W = ("sc", "wchar")
ORDINARY = [("sc", "uint8"), ("sc", "uint8"), ("sc", "uint16"), ("sc", "uint16"), ("sc", "int16"), ("sc", "uint32"), ("sc", "int8"), ("sc", "uint64"),
            ("sc", "char"), ("enum", "E8"), ("enum", "F16"), ("arr", ("sc", "char"), ("fixed", 3)), ("arr", ("sc", "uint16"), ("fixed", 2)),
            ("arr", ("sc", "uint8"), ("fixed", 3)), ("sc", "uint24")]
# (expression text, the counts it can produce, count member value for a wanted number of units)
EXPRS = [("{c}", range(0, 10), lambda n, r: n), ("{c} & 7", range(0, 8), lambda n, r: n + 8 * r.randrange(0, 32)),
         ("{c} * 2", range(0, 10, 2), lambda n, r: n // 2), ("{c} + 1", range(1, 10), lambda n, r: n - 1),
         ("K2 + ({c} & 3)", range(2, 6), lambda n, r: (n - 2) + 4 * r.randrange(0, 64))]
FORMS = ["fixed"] * 6 + ["tdarr"] * 2 + ["expr"] * 2 + ["null"] * 2 + ["single", "2d"]


def wspellings():
    return [n for n, c in u1_arrays.table().items() if c == "wchar"] + ["W10T"]


class TextGen:
    def __init__(self, rnd: random.Random, *, flat=False):
        self.rnd, self.n, self.flat = rnd, 0, flat
        self.forms: dict[str, int] = {}

    def name(self, p="f"):
        self.n += 1
        return f"{p}{self.n}"

    def spell(self):
        r = self.rnd
        if r.random() < 0.55:
            return None
        return r.choice([s for s in wspellings() if not (self.flat and " " in s)])

    def ordinary(self):
        return F(self.name(), self.rnd.choice(ORDINARY))

    def wmember(self, allow_dyn=True):
        """the fields of one text member (an expression-sized one brings its count member along)"""
        r = self.rnd
        form = r.choice(FORMS)
        if not allow_dyn and form in ("expr", "null"):
            form = "fixed"
        if self.flat and form in ("tdarr", "2d"):
            form = "fixed"
        self.forms[form] = self.forms.get(form, 0) + 1
        n = r.choice([1, 2, 2, 3, 3, 4, 4, 5, 6, 8, 9, 0])
        if form == "single":
            return [F(self.name(), W, spell=self.spell(), form=form)]
        if form == "fixed":
            return [F(self.name(), ("arr", W, ("fixed", n)), spell=self.spell(), form=form)]
        if form == "tdarr":
            return [F(self.name(), ("arr", W, ("fixed", n)), tdarr=f"W10A{n}", form=form)]
        if form == "2d":
            return [F(self.name(), ("arr", ("arr", W, ("fixed", r.choice([2, 3, 4]))), ("fixed", r.randint(1, 3))), spell=self.spell(), form=form)]
        if form == "null":
            return [F(self.name(), ("arr", W, ("null",)), spell=self.spell(), form=form)]
        tmpl, counts, inv = r.choice(EXPRS)
        cnt = self.name("n")
        out = [F(cnt, ("sc", r.choice(["uint8", "uint8", "uint16"])))]
        if r.random() < 0.3:
            out.append(self.ordinary())
        out.append(F(self.name(), ("arr", W, ("expr", tmpl.format(c=cnt))), spell=self.spell(), form=form, counts=list(counts), inv=inv, cnt=cnt))
        return out

    def body(self, allow_dyn=True):
        r = self.rnd
        fs = [self.ordinary() for _ in range(r.choice([0, 1, 1, 2]))]
        for _ in range(r.choice([1, 1, 1, 2, 3])):
            fs += self.wmember(allow_dyn)
            fs += [self.ordinary() for _ in range(r.choice([0, 1, 1, 2]))]
        if fs[-1].get("form"):
            fs.append(self.ordinary())          # something behind the text
        return ("struct", fs)

    def union(self):
        """a union with a text member and integer views of the same bytes (all members of one size: its dump is complete)"""
        r = self.rnd
        n = r.choice([1, 2, 3, 4, 4, 6, 8])
        self.forms["union-member"] = self.forms.get("union-member", 0) + 1
        fs = [F(self.name("w"), ("arr", W, ("fixed", n)), spell=self.spell(), form="fixed")]
        views = [F(self.name("b"), ("arr", ("sc", "uint8"), ("fixed", 2 * n))), F(self.name("h"), ("arr", ("sc", "uint16"), ("fixed", n)))]
        if n == 2:
            views.append(F(self.name("d"), ("sc", "uint32")))
        if n == 4:
            views.append(F(self.name("q"), ("sc", "uint64")))
        fs += r.sample(views, r.randint(1, len(views)))
        r.shuffle(fs)
        return ("union", fs)

    def tree(self):
        """-> (tree, position)"""
        r = self.rnd
        k = r.random()
        if self.flat or k < 0.4:
            t, pos = self.body(), "top"
            if not self.flat and r.random() < 0.15:
                t[1].append(F(self.name(), ("arr", W, ("eof",)), spell=self.spell(), form="eof"))
                self.forms["eof"] = self.forms.get("eof", 0) + 1
            return t, pos
        fs = [self.ordinary() for _ in range(r.choice([0, 1, 1]))]
        if k < 0.55:
            fs.append(F(self.name("m"), self.body()))
            pos = "member"
        elif k < 0.7:
            fs.append(F(self.name("m"), ("arr", self.body(allow_dyn=r.random() < 0.4), ("fixed", r.randint(1, 3)))))
            pos = "array-element"
        elif k < 0.8:
            fs.append(F(None, self.body()))
            pos = "anonymous-member"
        else:
            fs.append(F(self.name("u"), self.union()))
            pos = "union-member"
        fs += [self.ordinary() for _ in range(r.choice([1, 1, 2]))]
        if r.random() < 0.25:
            fs += self.wmember()
            fs.append(self.ordinary())
        return ("struct", fs), pos


def walk_fields(ty, fn):
    if ty[0] == "arr":
        walk_fields(ty[1], fn)
    elif ty[0] in ("struct", "union"):
        for f in ty[1]:
            fn(f)
            walk_fields(f["ty"], fn)


def is_dynamic(ty) -> bool:
    if ty[0] == "arr":
        return ty[2][0] != "fixed" or is_dynamic(ty[1])
    if ty[0] in ("struct", "union"):
        return any(is_dynamic(f["ty"]) for f in ty[1])
    return False


def has_eof(ty) -> bool:
    found = []
    walk_fields(ty, lambda f: found.append(1) if f["ty"][0] == "arr" and f["ty"][2][0] == "eof" else None)
    return bool(found)


def preamble(tree) -> str:
    used = set()
    walk_fields(tree, lambda f: used.update(x for x in (f.get("spell"), f.get("tdarr")) if x))
    out = []
    if "W10T" in used:
        out.append("typedef wchar W10T;")
    for n in range(10):
        if f"W10A{n}" in used:
            out.append(f"typedef wchar W10A{n}[{n}];")
    return "\n".join(out) + ("\n" if out else "")


def render_field(f, *, legacy=False):
    ty = f["ty"]
    if f.get("tdarr"):
        return f"{f['tdarr']} {f['name']};"
    dims = []
    while ty[0] == "arr":
        l = ty[2]
        dims.append({"fixed": lambda: str(l[1]), "expr": lambda: l[1], "null": lambda: "", "eof": lambda: "EOF"}[l[0]]())
        ty = ty[1]
    suffix = "".join(f"[{d}]" for d in dims)
    if ty[0] in ("struct", "union"):
        body = " ".join(render_field(g) for g in ty[1])
        return f"{ty[0]} {{ {body} }};" if f["name"] is None else f"{ty[0]} {{ {body} }} {f['name']}{suffix};"
    return f"{f.get('spell') or ty[1]} {f['name']}{suffix};"


def render(name, tree, *, legacy=False) -> str:
    return f"{tree[0]} {name} {{\n  " + "\n  ".join(render_field(f, legacy=legacy) for f in tree[1]) + "\n};\n"


# ------------------------------------------------------------------------------------------------ loading: the definition entry points

WAYS = ["load", "load", "load", "loadfile", "legacy", "api", "add_field"]
ENDIANS = ["<", ">", "<", ">", "!", "@", "="]


def _expr(cs, text):
    m = impl.dc()
    return m.expression.Expression(cs, text) if u1_arrays._expr_takes_cs() else m.expression.Expression(text)


def load_way(sess: impl.Session, tree, way: str, *, compiled: bool, align: bool, tmpdir: str, tag: str):
    m = impl.dc()
    cs = sess.cs
    name = "T"
    pre = preamble(tree)
    if pre:
        sess.load_text(pre)
    text = render(name, tree)
    if way == "load":
        sess.load_text(text, compiled=compiled, align=align)
    elif way == "loadfile":
        path = os.path.join(tmpdir, f"def10_{tag}.h")
        with open(path, "w") as fh:
            fh.write(text)
        sess.note(f"import os, tempfile; p = os.path.join(tempfile.mkdtemp(), 'def.h'); open(p, 'w').write({text!r}); "
                  f"cs.loadfile(p, compiled={compiled}, align={align})")
        try:
            cs.loadfile(path, compiled=compiled, align=align)
        finally:
            os.unlink(path)
    elif way == "legacy":
        sess.note(f"cs.load({text!r}, deftype=cs.DEF_LEGACY, compiled={compiled})")
        cs.load(text, deftype=m.cstruct.DEF_LEGACY, compiled=compiled)
    else:
        from dissect.cstruct import compiler
        from dissect.cstruct.types.structure import Field

        sess.note("from dissect.cstruct import compiler; from dissect.cstruct.types.structure import Field; from dissect.cstruct.expression import Expression")
        counter = [0]

        def ftype(f):
            """-> (type, code) of a member"""
            ty, dims = f["ty"], []
            if f.get("tdarr"):
                return cs.resolve(f["tdarr"]), f"cs.resolve({f['tdarr']!r})"
            while ty[0] == "arr":
                dims.append(ty[2])
                ty = ty[1]
            if ty[0] in ("struct", "union"):
                counter[0] += 1
                nm = f"X10S{counter[0]}"
                t, code = make(ty, nm, anonymous=f["name"] is None), nm
            else:
                sp = f.get("spell") or ty[1]
                t, code = cs.resolve(sp), f"cs.resolve({sp!r})"
            for l in reversed(dims):
                if l[0] == "fixed":
                    t, code = t[l[1]], code + f"[{l[1]}]"
                elif l[0] == "null":
                    t, code = t[None], code + "[None]"
                else:
                    ex = "EOF" if l[0] == "eof" else l[1]
                    t, code = t[_expr(cs, ex)], code + f"[Expression(cs, {ex!r})]"
            return t, code

        def make(t, nm, anonymous=False):
            fields = [(f["name"], *ftype(f)) for f in t[1]]
            mk, mkname = (cs._make_union, "cs._make_union") if t[0] == "union" else (cs._make_struct, "cs._make_struct")
            tail = f"align={align}" + (", anonymous=True)" if anonymous else ")")
            if way == "api" or t[0] == "union":
                sess.note(f"{nm} = {mkname}({nm!r}, [" + ", ".join(f"Field({n!r}, {code})" for n, _, code in fields) + f"], {tail}")
                S = mk(nm, [Field(n, ft) for n, ft, _ in fields], align=align, anonymous=anonymous)
                if compiled and t[0] != "union":
                    sess.note(f"{nm} = compiler.compile({nm})")
                    S = compiler.compile(S)
            else:
                sess.note(f"{nm} = {mkname}({nm!r}, [], {tail}")
                S = mk(nm, [], align=align, anonymous=anonymous)
                if compiled:
                    sess.note(f"{nm} = compiler.compile({nm})")
                    S = compiler.compile(S)
                for n, ft, code in fields:
                    sess.note(f"{nm}.add_field({n!r}, {code})")
                    S.add_field(n, ft)
            return S

        T = make(tree, name)
        sess.note(f"cs.add_type({name!r}, {name}, replace=True)")
        cs.add_type(name, T, replace=True)
    L = sess.view(tree, name, text=text, compiled=compiled, align=align)
    L.endian = v9_c01.effective(sess.endian)
    return L


# ------------------------------------------------------------------------------------------------ values

def int_value(rnd, name):
    _, size, signed, _ = refimpl.sc(name)
    bits = 8 * size
    lo, hi = (-(1 << (bits - 1)), (1 << (bits - 1)) - 1) if signed else (0, (1 << bits) - 1)
    return rnd.choice([lo, hi, 1, 0xBEEF & hi, hi - 1, hi // 2 + 1, rnd.randint(lo, hi), rnd.randint(lo, hi)])


def gen_value(rnd, tree, stats):
    """{member index: plain Python value}: int, bytes (char), str (wchar), list, dict (structure), {"pick": i, i: str} (union)"""
    out = {}
    if tree[0] == "union":
        i = next(i for i, f in enumerate(tree[1]) if f.get("form"))
        return {"pick": i, i: text(rnd, tree[1][i]["ty"][2][1], stats=stats)}
    names = {f["name"]: i for i, f in enumerate(tree[1])}
    for i, f in enumerate(tree[1]):
        out[i] = _gen(rnd, f, f["ty"], out, names, stats)
    return out


def _gen(rnd, f, ty, sofar, names, stats):
    k = ty[0]
    if k == "sc":
        if ty[1] == "wchar":
            return bmp(rnd, True)
        if ty[1] == "char":
            return bytes([rnd.choice([0x41, 0xFF, 0x80, 0x00, 0x7F])])
        return int_value(rnd, ty[1])
    if k == "enum":
        return int_value(rnd, defs.ENUMS[ty[1]][1]) if rnd.random() < 0.6 else rnd.choice([v for _, v in defs.ENUMS[ty[1]][2]])
    if k in ("struct", "union"):
        return gen_value(rnd, ty, stats)
    l = ty[2]
    if ty[1] == W:
        if l[0] == "fixed":
            return text(rnd, l[1], stats=stats)
        if l[0] == "null":
            return text(rnd, rnd.choice([0, 1, 2, 3, 4, 5, 7]), nul_ok=False, stats=stats)
        if l[0] == "eof":
            return text(rnd, rnd.choice([0, 1, 2, 3, 4, 6, 9]), stats=stats)
        n = rnd.choice(f["counts"])
        sofar[names[f["cnt"]]] = f["inv"](n, rnd)
        return text(rnd, n, stats=stats)
    if ty[1] == ("sc", "char"):
        return bytes(rnd.choice([0x41, 0xFF, 0x00, 0x62]) for _ in range(l[1]))
    return [_gen(rnd, f, ty[1], sofar, names, stats) for _ in range(l[1])]


def build(rnd, T, tree, val, typed=0.25):
    if tree[0] == "union":
        i = val["pick"]
        return T(**{T.__fields__[i]._name: val[i]})
    return T(**{rf._name: _build(rnd, rf.type, f["ty"], val[i], typed) for i, (f, rf) in enumerate(zip(tree[1], T.__fields__))})


def _build(rnd, rt, ty, v, typed):
    k = ty[0]
    if k in ("struct", "union"):
        return build(rnd, rt, ty, v, typed)
    if k == "enum":
        return rt(v)
    if k == "arr" and isinstance(v, list):
        return [_build(rnd, rt.type, ty[1], x, typed) for x in v]
    if isinstance(v, str) and rnd.random() < typed:
        return rt(v)                     # an instance of the value class (Wchar / WcharArray) instead of a plain str
    if isinstance(v, int) and rnd.random() < typed:
        return rt(v)
    return v


def matches(obj, ty, v) -> str | None:
    """compare a library value with the plain Python value, member by member, without the library's __eq__ -> None or what differs"""
    k = ty[0]
    if k in ("struct", "union"):
        fields = type(obj).__fields__
        for i, f in enumerate(ty[1]):
            if i not in v:
                continue
            r = matches(getattr(obj, fields[i]._name), f["ty"], v[i])
            if r:
                return f"{f['name'] or '<anonymous>'}" + ("." if not r.startswith(("[", " ")) else "") + r
        return None
    if k == "arr" and isinstance(v, list):
        if len(obj) != len(v):
            return f" has {len(obj)} elements, not {len(v)}"
        for j, x in enumerate(v):
            r = matches(obj[j], ty[1], x)
            if r:
                return f"[{j}]" + ("." if not r.startswith(("[", " ")) else "") + r
        return None
    if isinstance(v, str):
        got = units(str.__str__(obj)) if isinstance(obj, str) else None
        return None if got == units(v) else f" = {obj!r} (units {got}), not {v!r} (units {units(v)})"
    if isinstance(v, bytes):
        return None if isinstance(obj, bytes) and bytes(obj) == v else f" = {obj!r}, not {v!r}"
    got = int(getattr(obj, "value", obj)) if not isinstance(obj, (bytes, str, list)) else None
    return None if got == v else f" = {obj!r}, not {v}"


def show(tree, val) -> str:
    def one(ty, v):
        if ty[0] in ("struct", "union"):
            return "{" + ", ".join(f"{f['name'] or '<anonymous>'}: {one(f['ty'], v[i])}" for i, f in enumerate(ty[1]) if i in v) + "}"
        if ty[0] == "arr" and isinstance(v, list):
            return "[" + ", ".join(one(ty[1], x) for x in v) + "]"
        return ascii(v)
    return ", ".join(f"{f['name'] or '<anonymous>'}={one(f['ty'], val[i])}" for i, f in enumerate(tree[1]) if i in val)


def encode(ty, v, cfg, pos=0) -> bytes:
    """the textbook encoding of a value (packed, or aligned for types of static size) starting at stream offset `pos`"""
    k = ty[0]
    le = cfg.endian in ("<", "little")
    e = "little" if le else "big"
    if k == "sc":
        if ty[1] == "wchar":
            return enc_units(units(v), "<" if le else ">")
        if ty[1] == "char":
            return v
        _, size, signed, _ = refimpl.sc(ty[1])
        return v.to_bytes(size, e, signed=signed)
    if k == "enum":
        _, size, signed, _ = refimpl.sc(defs.ENUMS[ty[1]][1])
        return v.to_bytes(size, e, signed=signed)
    if k == "arr":
        l = ty[2]
        if isinstance(v, str):
            return enc_units(units(v) + ([0] if l[0] == "null" else []), "<" if le else ">")
        if isinstance(v, bytes):
            return v
        out = b""
        for x in v:
            out += encode(ty[1], x, cfg, pos + len(out))
        return out
    size, al = refimpl.size_align(ty, cfg)
    if k == "union":
        body = encode(ty[1][v["pick"]]["ty"], v[v["pick"]], cfg, pos)
        return body + bytes((size or len(body)) - len(body))
    out = b""
    for i, f in enumerate(ty[1]):
        if cfg.align:
            fa = refimpl.size_align(f["ty"], cfg)[1]
            out += bytes(-(pos + len(out)) % fa)
        out += encode(f["ty"], v[i], cfg, pos + len(out))
    if cfg.align:
        out += bytes(-(pos + len(out)) % al)
    return out


# ------------------------------------------------------------------------------------------------ the predicates of this family

def conventions(eng, res, rnd, L, tree, obj, val, sigs0, *, key, what, files, pairs, foreign):
    """the predicate on one value through drawn (dump convention, parse convention) pairs; the result is compared with the plain
    Python values (matches) and with the value itself"""
    T, cs = L.T, L.cs
    allp = v9_c01.parsers(files)
    for _ in range(pairs):
        dl, dump, doff = rnd.choice(v9_c01.DUMPERS)
        pl, parse, poff = rnd.choice(allp)
        sigs = sigs0
        if L.align and 3 in (doff, poff):
            # an aligned structure at a stream position that is not a multiple of its alignment: known finding F43 (classified)
            sigs = sigs0 + ["F43"]
            res.feat("wide-text:convention:aligned structure at stream offset 3 (F43 territory)")
        res.count((*key, "convention", dl, pl, what), True)
        res.feat("wide-text:convention:" + dl)
        res.feat("wide-text:convention:" + pl)
        cd = eng.case_data(L, constructed=what, dump_by=dl, parse_by=pl)
        cd["repro"] += f"\n# the value {what}\n# d = {dl}; back = {pl} applied to d + {foreign!r}"
        try:
            d = dump(T, obj)
        except Exception as e:  # noqa: BLE001
            eng.report(f"{dl} raised {type(e).__name__}: {str(e)[:120]} on a value that {what}", cd, sigs)
            continue
        if not isinstance(d, bytes):
            eng.report(f"{dl} returned {type(d).__name__}, not bytes", cd, sigs)
            continue
        try:
            back, used = parse(cs, T, T.__name__, d + foreign)
        except Exception as e:  # noqa: BLE001
            eng.report(f"{pl} raised {type(e).__name__}: {str(e)[:120]} on dumps(v) = {d.hex()} (+ {len(foreign)} foreign bytes), d by {dl}; v {what}", cd, sigs)
            continue
        try:
            diff = matches(back, tree, val)
            if diff is None and not back == obj:
                diff = "the parsed value is not equal (==) to v"
        except Exception as e:  # noqa: BLE001
            diff = f"<{type(e).__name__} while inspecting the parsed value>"
        if diff or (used is not None and used != len(d)):
            eng.report(f"{pl} of {dl} = {d.hex()}: consumed {used} of {len(d)}; parsed back: {diff or 'equal'}; v {what}", cd, sigs)


def text_checks(eng, res, rnd, L, tree, obj, val, sigs, *, key, what, files, pairs):
    """declared size, members compared with the plain values, calling conventions"""
    T = L.T
    foreign = b"" if has_eof(tree) else b"\xEE\xEE"
    cd = eng.case_data(L, constructed=what)
    cd["repro"] += f"\n# v {what}; d = v.dumps(); back = T(d + {foreign!r})"
    res.count((*key, "text", what), True)
    d = impl.dump(T, obj)
    if d[0] != "ok":
        eng.report(f"a value cannot be dumped ({d[1]}); it {what}", cd, sigs)
        return
    try:
        size = T.size
    except Exception:  # noqa: BLE001
        size = None
    if size is not None and not is_dynamic(tree):
        res.feat("wide-text:declared size compared")
        if len(d[1]) != size:
            eng.report(f"dumps(v) has {len(d[1])} bytes, the declared size of the type is {size}: dumps(v) = {d[1].hex()}; v {what}", cd, sigs)
    r = impl.parse(T, d[1] + foreign)
    if r[0] != "ok":
        eng.report(f"dumps(v) = {d[1].hex()} cannot be parsed back: {r[1]}; v {what}", cd, sigs)
        return
    try:
        diff = matches(r[1], tree, val)
    except Exception as e:  # noqa: BLE001
        diff = f"<{type(e).__name__} while inspecting the parsed value>"
    if diff or r[2] != len(d[1]):
        eng.report(f"parse(dumps(v)) consumed {r[2]} of {len(d[1])} bytes; parsed back: {diff or 'equal'}; dumps(v) = {d[1].hex()}; v {what}", cd, sigs)
    conventions(eng, res, rnd, L, tree, obj, val, sigs, key=key, what=what, files=files, pairs=pairs, foreign=foreign)


# ------------------------------------------------------------------------------------------------ the families

def wide_text(eng, res, rnd, tier, *, check_roundtrip, check_constructed):
    """structures / unions with wchar members whose values contain characters outside the basic plane"""
    ndefs = 110 if tier == "quick" else 1500
    files = v9_c01.Files()
    stats: dict[str, int] = {}
    try:
        for di in range(ndefs):
            way = rnd.choice(WAYS)
            flat = way == "legacy"
            g = TextGen(rnd, flat=flat)
            tree, position = g.tree()
            dyn = is_dynamic(tree)
            cfgs = [(a, c) for a in ((False,) if flat else (False, True)) for c in (False, True)]
            for ci, (align, compiled) in enumerate(cfgs if tier != "quick" else rnd.sample(cfgs, min(2, len(cfgs)))):
                endian = rnd.choice(ENDIANS)
                ptr = rnd.choice(["uint64", "uint32", "uint16", "uint8"])
                sess = impl.Session(endian=endian, pointer=ptr)
                try:
                    L = load_way(sess, tree, way, compiled=compiled, align=align, tmpdir=files.dir, tag=f"{di}_{ci}")
                except Exception as e:  # noqa: BLE001
                    # (no type, no values: whether a definition is accepted is not this property's business)
                    res.feat(f"wide-text:definition-rejected:{way}:{type(e).__name__}")
                    continue
                T = L.T
                sigs = eng.sigs(L)
                cfg = refimpl.Cfg(L.endian, align, ptr, impl.CONSTS)
                key = ("wide-text", sess.script(), compiled, align)
                res.feat("wide-text:definitions")
                res.feat("wide-text:entry:" + way + (":compiled" if compiled else ":interpreted") + (":aligned" if align else ":packed"))
                res.feat("wide-text:really compiled" if getattr(T, "__compiled__", False) else "wide-text:interpreted reader in use")
                res.feat("wide-text:endian spelled " + endian)
                res.feat("wide-text:position:" + position)
                for k, n in g.forms.items():
                    res.feat("wide-text:form:" + k, n)
                pairs = 2 if tier == "quick" else 3
                for _i in range(3 if tier == "quick" else 4):
                    vstats: dict[str, int] = {}
                    val = gen_value(rnd, tree, vstats)
                    for k, n in vstats.items():
                        res.feat("wide-text:value:" + k, n)
                    shown = "T(" + show(tree, val)[:700] + ")"
                    # (a) constructed directly
                    try:
                        obj = build(rnd, T, tree, val)
                    except Exception as e:  # noqa: BLE001
                        eng.report(f"a value cannot be constructed from keyword arguments ({type(e).__name__}: {str(e)[:120]}): {shown}",
                                   eng.case_data(L, constructed=shown), sigs)
                        continue
                    res.feat("wide-text:constructed values")
                    check_constructed(eng, res, L, tree, obj, sigs, key=key, what="wide-text: " + shown)
                    text_checks(eng, res, rnd, L, tree, obj, val, sigs, key=key, what="is " + shown, files=files, pairs=pairs)
                    # (b) obtained by parsing the textbook encoding of the same value
                    if align and dyn:
                        res.feat("wide-text:parsed origin not built (aligned layout with dynamically sized members)")
                        continue
                    try:
                        data = encode(tree, val, cfg)
                    except Exception as e:  # noqa: BLE001  (a harness limitation must not look like a finding)
                        res.feat(f"wide-text:encoder-gave-up:{type(e).__name__}")
                        continue
                    data += b"" if has_eof(tree) else rnd.choice([b"", b"\x00\xd8", b"\xff\xdb\xff\xdf", b"\x41"])
                    pobj = check_roundtrip(eng, res, L, tree, data, sigs, key=key)
                    if pobj is None:
                        res.feat("wide-text:textbook encoding rejected by the parser")
                        continue
                    try:
                        diff = matches(pobj, tree, val)
                    except Exception:  # noqa: BLE001
                        diff = "?"
                    if diff:
                        # (what a parse returns is not this property's business; the predicates are evaluated on what it did return)
                        res.feat("wide-text:parsed value is not the encoded one (not judged here)")
                        continue
                    res.feat("wide-text:parsed values")
                    text_checks(eng, res, rnd, L, tree, pobj, val, sigs, key=key, what=f"was parsed from {data.hex()} (= {shown})", files=files, pairs=pairs)
            if len(eng.lines) > 3000:
                eng.flush()
    finally:
        files.close()


def wide_text_standalone(eng, res, rnd, tier):
    """the wchar array types on their own"""
    m = impl.dc()
    files = v9_c01.Files()
    try:
        for ti in range(40 if tier == "quick" else 800):
            endian = rnd.choice(ENDIANS)
            sess = impl.Session(endian=endian, pointer="uint64")
            cs = sess.cs
            e = v9_c01.effective(endian)
            sp = rnd.choice(wspellings())
            n, rows = rnd.choice([1, 2, 3, 4, 4, 5, 6, 8, 0]), rnd.randint(1, 3)
            types = []
            try:
                if sp == "W10T":
                    sess.load_text("typedef wchar W10T;")
                if " " not in sp:
                    sess.load_text(f"typedef {sp} X_fix[{n}]; typedef {sp} X_null[]; typedef {sp} X_eof[EOF]; typedef {sp} X_2d[{rows}][{n}];")
                    types += [("fixed", cs.X_fix, "cs.X_fix", n), ("null", cs.X_null, "cs.X_null", None), ("eof", cs.X_eof, "cs.X_eof", None),
                              ("2d", cs.X_2d, "cs.X_2d", n)]
                et = cs.resolve(sp)
                types += [("fixed", et[n], f"cs.resolve({sp!r})[{n}]", n), ("null", et[None], f"cs.resolve({sp!r})[None]", None),
                          ("eof", et[_expr(cs, "EOF")], f"cs.resolve({sp!r})[Expression(cs, 'EOF')]", None),
                          ("expr", et[_expr(cs, "K2 + 1")], f"cs.resolve({sp!r})[Expression(cs, 'K2 + 1')]", 3),
                          ("2d", et[n][rows], f"cs.resolve({sp!r})[{n}][{rows}]", n)]
            except Exception as ex:  # noqa: BLE001
                res.feat(f"wide-text:standalone:type-rejected:{type(ex).__name__}")
            for form, t, code, k in (types if tier != "quick" else rnd.sample(types, min(4, len(types)))):
                foreign = b"" if form == "eof" else b"\xEE\xEE"
                for _i in range(2):
                    vstats: dict[str, int] = {}
                    if form == "2d":
                        v = [text(rnd, k, stats=vstats) for _ in range(rows)]
                        want = 2 * k * rows
                    else:
                        nn = k if k is not None else rnd.choice([0, 1, 2, 3, 4, 5, 8])
                        v = text(rnd, nn, nul_ok=form != "null", stats=vstats)
                        want = 2 * nn + (2 if form == "null" else 0)
                    uv = [units(x) for x in v] if form == "2d" else units(v)
                    origin = rnd.choice(["constructed", "typed", "parsed"])
                    what = f"{code}: {origin} value {ascii(v)}"
                    cd = {"history": list(sess.steps), "type": code, "endian": endian, "value": ascii(v),
                          "repro": sess.script([f"t = {code}; v = {ascii(v)}; d = t.dumps(v); assert len(d) == {want} and t(d + {foreign!r}) == v"])}
                    res.count(("wide-text-standalone", code, endian, origin, ascii(v)), True)
                    res.feat(f"wide-text:standalone:{form}:{origin}")
                    for kk, c in vstats.items():
                        res.feat("wide-text:value:" + kk, c)
                    try:
                        if origin == "typed":
                            obj = t(v)
                        elif origin == "parsed":
                            raw = b"".join(enc_units(u, e) for u in uv) if form == "2d" else enc_units(uv + ([0] if form == "null" else []), e)
                            obj = t(raw + foreign)
                        else:
                            obj = v
                    except Exception as ex:  # noqa: BLE001
                        res.feat(f"wide-text:standalone:value-not-obtained:{type(ex).__name__}")
                        continue
                    dumpers = [d for d in v9_c01.DUMPERS if d[0].startswith("T.") or origin != "constructed"]
                    dl, dump, doff = rnd.choice(dumpers)
                    pl, parse, poff = rnd.choice(v9_c01.parsers(files))
                    if "cs.read" in pl:
                        pl, parse, poff = "T(bytes)", (lambda cs_, T, name, data: (T(bytes(data)), None)), 0   # (the type has no name to look up)
                    res.feat("wide-text:standalone:convention:" + dl)
                    res.feat("wide-text:standalone:convention:" + pl)
                    cd["dump_by"], cd["parse_by"] = dl, pl
                    try:
                        d = dump(t, obj)
                    except Exception as ex:  # noqa: BLE001
                        eng.report(f"{what}: {dl} raised {type(ex).__name__}: {str(ex)[:120]}", cd, [])
                        continue
                    if len(d) != want:
                        eng.report(f"{what}: dumps(v) by {dl} has {len(d)} bytes, {want} expected ({'2 bytes per declared unit' if k is not None else 'two per unit of the value'}"
                                   f"{' plus the terminator' if form == 'null' else ''}): {d.hex()}", cd, [])
                    try:
                        back, used = parse(cs, t, None, d + foreign)
                    except Exception as ex:  # noqa: BLE001
                        eng.report(f"{what}: {pl} raised {type(ex).__name__}: {str(ex)[:120]} on dumps(v) = {d.hex()} (+ {len(foreign)} foreign bytes)", cd, [])
                        continue
                    try:
                        ub = [units(str.__str__(x)) for x in back] if form == "2d" else units(str.__str__(back))
                        same = ub == uv and back == obj and back == v
                    except Exception:  # noqa: BLE001
                        same = False
                    if not same or (used is not None and used != len(d)):
                        eng.report(f"{what}: {pl} of {dl} = {d.hex()} gives {ascii(back)[:200]} consuming {used} of {len(d)}", cd, [])
    finally:
        files.close()
