"""C16 probes (agent u4): pointer targets that share a type NAME, and multi-hop dereference chains.

same_name_histories
    On ONE cstruct instance pointers are declared to DISTINCT target types that carry the same `__name__`: inline
    `struct TAG { ... } *p` / `union TAG { ... } *p` members that reuse a tag with another layout in other (or the same) parent
    structures (a nested tag is local and never registered), a top-level `struct TAG`, a type re-registered under TAG with
    `cs.add_type(TAG, type, replace=True)` followed by `TAG *p` members, pointer typedefs (`typedef TAG *PT;`) made before and
    after a re-registration; declarators `*p`, `*p[2]`, `**p`; built-in targets in between.  After the history every parent
    structure is parsed and every pointer is dereferenced: the result must be what parsing the DECLARED target type (the layout
    the declaration named, loaded under a unique name on a reference instance) at that absolute offset gives -- values and member
    names --, the stream stays where it was, a second dereference gives the same, `p + 1` is a pointer of the same type, and
    dumping writes the addresses back.

chain_walks
    A generated type graph on one instance -- structures (fixed-size, one optionally with a dynamic tail) whose members are
    scalars and pointers to scalars, `char *` strings, `void *`, pointers to themselves (lists, trees) and to earlier structures,
    pointer arrays, pointers to pointers, inline nested structures holding pointers, arrays of structures holding pointers -- and
    a memory image in which objects of these types are allocated and linked (shared targets, cycles, null, wild and out-of-range
    addresses).  Starting from a parsed head structure EVERY pointer reached is dereferenced, breadth first, several hops deep
    (`head.list->next->next`, `head.rec->name`, `(*tab->pp)->...`); every hop is compared with parsing the target type at that
    absolute offset of the ORIGINAL bytes on a fresh stream (a reference instance supplies the type), with the stream parked at
    random positions (must not move), a repeated dereference, pointer arithmetic on the inner pointers (`p + k` has the type of
    p, the value, and dereferences to the parse at addr + k), attribute access through the pointer, and dumps() of a
    dereferenced fixed-size structure giving the bytes at its address back.  Unions holding pointers are not generated (known
    finding F11).
"""
from __future__ import annotations

import io
from collections import deque

from . import defs, impl
from . import t5_c16 as t5
from .common import A, sx
from .s2_ptr import ALL_PTRS

# ------------------------------------------------------------------------------------------------ same-name targets

TAGS = ["item", "node", "entry"]
LAYOUT_TYPES = ["uint8", "int8", "uint16", "int16", "uint32", "int32", "uint24", "uint64", "char"]
LAYOUT_NAMES = ["x", "y", "value", "a", "b", "len", "id", "k"]
BUILTINS = ["uint8", "int16", "uint32", "uint24", "char", "E8", "uint64", "int8", "void"]


def gen_layout(rnd, kind, seen):
    """a member list [(name, type)] that differs (in member types or names) from every layout used so far"""
    for _ in range(50):
        n = rnd.randint(1, 4)
        lay = tuple((nm, rnd.choice(LAYOUT_TYPES)) for nm in rnd.sample(LAYOUT_NAMES, n))
        if (kind, lay) not in seen:
            seen.add((kind, lay))
            return lay
    raise RuntimeError("no fresh layout")


def layout_body(lay):
    return "{ " + " ".join(f"{t} {n};" for n, t in lay) + " }"


def value_sig(v):
    """canonical value plus, for structures, the member names (a structure read with another structure's layout shows here)"""
    m = impl.dc()
    if type(v).__name__ == "UnionProxy":
        v = object.__getattribute__(v, "__target__")
    c = [A("void")] if v is None else impl.canon(v)
    names = [f._name for f in type(v).__fields__] if isinstance(v, m.Structure) else None
    return c, names


class Target:
    """the declared target of one pointer member"""

    def __init__(self, text, kind, refname, tag=None, layout=None):
        self.text, self.kind, self.refname, self.tag, self.layout = text, kind, refname, tag, layout


def same_name_history(m, pname, endian, rnd, tier, res, viol):
    NullPointerDereference = m.NullPointerDereference
    psz = ALL_PTRS[pname]
    order = "little" if endian == "<" else "big"
    top = (1 << (8 * psz)) - 1
    ses = impl.Session(endian=endian, pointer=pname)
    ref = m.cstruct(endian=endian, pointer=pname)
    ref.load(defs.PREAMBLE)
    seen_layouts: set = set()
    registered: dict[str, Target] = {}       # tag -> what the name resolves to now
    typedefs: list[tuple[str, Target]] = []   # pointer typedefs made so far
    parents = []
    counter = [0]

    def fresh(prefix):
        counter[0] += 1
        return f"{prefix}{counter[0]}"

    def new_struct_target(tag, how):
        kind = "union" if rnd.random() < 0.25 else "struct"
        lay = gen_layout(rnd, kind, seen_layouts)
        refname = fresh("REF")
        ref.load(f"{kind} {refname} {layout_body(lay)};")
        return Target(f"{kind} {tag} {layout_body(lay)}" if how == "inline" else tag, kind, refname, tag, lay), kind, lay

    nsteps = rnd.randint(4, 7)
    for step in range(nsteps):
        r = rnd.random()
        try:
            if r < 0.12:
                # top-level declaration of a tag that is not registered yet
                free = [t for t in TAGS if t not in registered]
                if free:
                    tag = rnd.choice(free)
                    tg, kind, lay = new_struct_target(tag, "named")
                    ses.load_text(f"{kind} {tag} {layout_body(lay)};", compiled=rnd.random() < 0.5)
                    registered[tag] = tg
                    res.feat("u4:same-name:tag-registered-top-level")
                continue
            if r < 0.30:
                # re-register a tag with another type of the same name (taken from an inline member of a holder structure)
                tag = rnd.choice(TAGS)
                tg, kind, lay = new_struct_target(tag, "named")
                hname = fresh("H")
                ses.load_text(f"struct {hname} {{ {kind} {tag} {layout_body(lay)} h; }};", compiled=rnd.random() < 0.5)
                ses.note(f"cs.add_type({tag!r}, cs.{hname}.fields['h'].type, replace=True)")
                ses.cs.add_type(tag, getattr(ses.cs, hname).fields["h"].type, replace=True)
                registered[tag] = tg
                res.feat("u4:same-name:tag-re-registered (add_type replace)")
                continue
            if r < 0.40 and registered:
                tag = rnd.choice(sorted(registered))
                name = fresh("PT")
                ses.load_text(f"typedef {tag} *{name};")
                typedefs.append((name, registered[tag]))
                res.feat("u4:same-name:pointer-typedef")
                continue
        except Exception as e:  # noqa: BLE001
            viol(f"declaring a type that shares its name with another one is rejected: {type(e).__name__}: {e}", {"script": ses.script()})
            return
        # a parent structure with pointer members
        pname_s = fresh("P")
        shape = t5.gen_shape(rnd)
        targets, texts, via_typedef = {}, {}, {}
        for nm, kind, cnt, role in shape:
            if role == "scalar":
                continue
            q = rnd.random()
            if q < 0.5:
                tag = rnd.choice(TAGS)
                tg, _, _ = new_struct_target(tag, "inline")
                res.feat("u4:same-name:inline-tag-target")
            elif q < 0.75 and registered:
                tg = registered[rnd.choice(sorted(registered))]
                res.feat("u4:same-name:registered-tag-target")
            elif q < 0.85 and typedefs and role == "ptr":
                tdn, tg = rnd.choice(typedefs)
                via_typedef[nm] = tdn
                res.feat("u4:same-name:typedef-target")
            else:
                b = rnd.choice(BUILTINS)
                tg = Target(b, "builtin", b)
            targets[nm] = tg
            texts[nm] = tg.text
        lines = []
        for nm, kind, cnt, role in shape:
            if role == "scalar":
                lines.append(f"  {'uint8' if kind == 'u8' else 'uint16'} {nm};")
            elif nm in via_typedef:
                lines.append(f"  {via_typedef[nm]} {nm};")
            else:
                lines.append(f"  {texts[nm]} {'**' if role == 'ptrptr' else '*'}{nm}{f'[{cnt}]' if role == 'ptrarr' else ''};")
        text = f"struct {pname_s} {{\n" + "\n".join(lines) + "\n};\n"
        compiled = rnd.random() < 0.5
        try:
            ses.load_text(text, compiled=compiled)
            T = getattr(ses.cs, pname_s)
        except Exception as e:  # noqa: BLE001
            viol(f"a structure with pointers to same-named target types is rejected: {type(e).__name__}: {e}", {"script": ses.script(), "definition": text})
            return
        parents.append((pname_s, T, shape, targets, text, compiled))

    # ---- every parent, after the whole history
    names_used: dict[str, set] = {}
    for _, _, shape, targets, _, _ in parents:
        for tg in targets.values():
            if tg.tag:
                names_used.setdefault(tg.tag, set()).add((tg.kind, tg.layout))
    shared = {t for t, ls in names_used.items() if len(ls) > 1}
    script = ses.script()
    for pname_s, T, shape, targets, text, compiled in parents:
        offs, hdr = t5.c_layout([(nm, kind, cnt) for nm, kind, cnt, _ in shape], psz, 1, False)
        cd0 = {"script": script, "struct": pname_s, "definition": text, "endian": endian, "pointer": pname, "compiled": compiled,
               "declared_targets": {nm: (tg.text if tg.kind == "builtin" else f"{tg.kind} {tg.tag} {layout_body(tg.layout)}") for nm, tg in targets.items()}}
        if {f._name: f.offset for f in T.__fields__} != offs or T.size != hdr:
            viol(f"pointer members of {pname_s} do not occupy {psz} bytes each: offsets {({f._name: f.offset for f in T.__fields__})}, size {T.size}; "
                 f"expected {offs}, size {hdr}", cd0)
            continue
        total = hdr + (120 if psz > 1 else 200 - min(hdr, 80))
        for _d in range(2 if tier == "quick" else 5):
            buf = bytearray(total)
            buf[hdr:] = bytes(rnd.choice([0, 1, 2, 0x41, 0x42, 0x7F, 0x80, 0xFF, rnd.randrange(256)]) for _ in range(total - hdr))
            hi = min(total - 1, top)

            def addr_choice():
                return rnd.choice([0, hi, min(total + rnd.randint(0, 5), top)] + [rnd.randint(min(hdr, hi), max(min(hdr, hi), hi - 12)) for _ in range(5)])

            planted, inner = {}, {}
            for nm, kind, cnt, role in shape:
                if role == "scalar":
                    w = 1 if kind == "u8" else 2
                    planted[nm] = rnd.randrange(1, 1 << (8 * w))
                    buf[offs[nm]:offs[nm] + w] = planted[nm].to_bytes(w, order)
                elif role == "ptrptr":
                    hi2 = min(total - psz - 1, top)
                    planted[nm] = rnd.randint(min(hdr, hi2), hi2)
                    buf[offs[nm]:offs[nm] + psz] = planted[nm].to_bytes(psz, order)
                else:
                    vals = [addr_choice() for _ in range(cnt)]
                    planted[nm] = vals if role == "ptrarr" else vals[0]
                    for i, v in enumerate(vals):
                        buf[offs[nm] + i * psz:offs[nm] + (i + 1) * psz] = v.to_bytes(psz, order)
            for nm, kind, cnt, role in shape:
                if role == "ptrptr":
                    inner[nm] = addr_choice()
                    buf[planted[nm]:planted[nm] + psz] = inner[nm].to_bytes(psz, order)
            data = bytes(buf)
            cd = dict(cd0, data=data.hex(), stored=planted)
            stream = io.BytesIO(data)
            try:
                o = T(stream)
            except Exception as e:  # noqa: BLE001
                viol(f"parsing {pname_s} raises {type(e).__name__}: {e}", cd)
                continue
            got = {nm: ([int(x) for x in getattr(o, nm)] if role == "ptrarr" else int(getattr(o, nm))) for nm, kind, cnt, role in shape}
            if got != planted or stream.tell() != hdr:
                viol(f"members read {got} (consumed {stream.tell()} bytes); stored: {planted} ({hdr} bytes)", cd)
                continue
            try:
                if o.dumps() != data[:hdr]:
                    viol(f"dumps() of {pname_s} does not write the addresses back unchanged", cd)
            except Exception as e:  # noqa: BLE001
                viol(f"dumps() of {pname_s} raises {type(e).__name__}: {e}", cd)

            def check(ptrobj, tg, addr, what):
                refT = None if tg.refname in ("void", "char") else ref.resolve(tg.refname)
                if addr == 0:
                    want = ("null",)
                elif tg.refname == "void":
                    want = ("ok", ([A("void")], None))
                elif tg.refname == "char":
                    w = t5.expect_deref(None, "char", data, addr)
                    want = ("ok", (w[1], None)) if w[0] == "ok" else w
                else:
                    r = impl.parse(refT, data, addr)
                    want = ("ok", value_sig(r[1])) if r[0] == "ok" else r
                is_shared = tg.tag in shared
                res.count(("same-name", pname, endian, compiled, text, what, addr, data), addr != 0)
                res.feat("u4:same-name:deref" + ("-of-target-whose-name-is-shared" if is_shared else ""))
                pos0 = stream.tell()
                try:
                    v = ptrobj.dereference()
                    g = ("ok", value_sig(v))
                    v2 = ptrobj.dereference()
                    if v2 is not v and value_sig(v2) != g[1]:
                        viol(f"{pname_s}.{what}: repeated dereference gives a different value", dict(cd, addr=addr))
                except NullPointerDereference:
                    g = ("null",)
                except Exception as e:  # noqa: BLE001
                    g = ("err", impl.err_class(e))
                if stream.tell() != pos0:
                    viol(f"{pname_s}.{what}: dereferencing moved the stream from {pos0} to {stream.tell()}", dict(cd, addr=addr))
                ok = (g[0] == want[0] == "err") or (g[0] == want[0] == "null") or (
                    g[0] == want[0] == "ok" and impl.same_val(want[1][0], g[1][0]) and want[1][1] == g[1][1])
                if not ok:
                    decl = tg.text if tg.kind == "builtin" else f"{tg.kind} {tg.tag} {layout_body(tg.layout)}"
                    shown = lambda x: (f"{sx(x[1][0])}" + (f" with members {x[1][1]}" if x[1][1] is not None else "") if x[0] == "ok" else str(x))  # noqa: E731
                    viol(f"{pname_s}.{what} is declared as a pointer to `{decl}`; at {addr} dereference gives {shown(g)[:200]}, parsing that type there "
                         f"gives {shown(want)[:200]}", dict(cd, addr=addr))
                if addr:
                    y = ptrobj + 1
                    if type(y) is not type(ptrobj) or int(y) != addr + 1:
                        viol(f"{pname_s}.{what}: pointer arithmetic does not yield a pointer of the same type", dict(cd, addr=addr))

            for nm, kind, cnt, role in shape:
                if role == "ptr":
                    check(getattr(o, nm), targets[nm], planted[nm], nm)
                elif role == "ptrarr":
                    for i, x in enumerate(getattr(o, nm)):
                        check(x, targets[nm], planted[nm][i], f"{nm}[{i}]")
                elif role == "ptrptr":
                    try:
                        ip = getattr(o, nm).dereference()
                    except Exception as e:  # noqa: BLE001
                        viol(f"dereferencing {pname_s}.{nm} (address {planted[nm]}, inside the stream) raises {type(e).__name__}", cd)
                        continue
                    if not isinstance(ip, m.Pointer) or int(ip) != inner[nm]:
                        viol(f"{pname_s}.{nm} dereferences to {ip!r}, the {psz}-byte pointer stored at {planted[nm]} is {inner[nm]}", cd)
                    else:
                        check(ip, targets[nm], inner[nm], f"*{nm}")
    if shared:
        res.feat("u4:same-name:history-with-distinct-targets-sharing-a-name")


def same_name_histories(m, env, res, viol, rnd):
    tier = env["tier"]
    for (pname, _), endian in [(p, e) for p in ALL_PTRS.items() for e in "<>"]:
        for _ in range(4 if tier == "quick" else 16):
            same_name_history(m, pname, endian, rnd, tier, res, viol)


# ------------------------------------------------------------------------------------------------ multi-hop chains

SCALARS = ["uint8", "uint16", "int32", "uint24", "int8"]


def gen_graph(rnd, allow_dynamic):
    """-> (text, [struct names], head name)"""
    n = rnd.randint(2, 4)
    names = [f"N{i}" for i in range(n)]
    out = []
    dyn_at = rnd.randrange(n) if allow_dynamic and rnd.random() < 0.4 else None
    for i, name in enumerate(names):
        earlier = names[:i]
        members = []
        k = 0

        def nm(prefix="m"):
            nonlocal k
            k += 1
            return f"{prefix}{k}"

        def struct_target():
            return name if (not earlier or rnd.random() < 0.45) else rnd.choice(earlier)

        # at least one pointer to a structure (itself or an earlier one): the chains
        members.append(f"{struct_target()} *{nm('next')};")
        for _ in range(rnd.randint(1, 4)):
            r = rnd.random()
            if r < 0.18:
                members.append(f"{rnd.choice(SCALARS)} {nm()};")
            elif r < 0.24:
                members.append(f"char {nm()}[2];")
            elif r < 0.36:
                members.append(f"{rnd.choice(SCALARS)} *{nm('ps')};")
            elif r < 0.48:
                members.append(f"char *{nm('str')};")
            elif r < 0.53:
                members.append(f"void *{nm('v')};")
            elif r < 0.65:
                members.append(f"{struct_target()} *{nm('p')};")
            elif r < 0.74:
                members.append(f"{rnd.choice([struct_target(), rnd.choice(SCALARS)])} *{nm('arr')}[2];")
            elif r < 0.83:
                members.append(f"{rnd.choice([struct_target(), 'char', rnd.choice(SCALARS)])} **{nm('pp')};")
            elif r < 0.92:
                members.append(f"struct {{ uint8 t; {rnd.choice([struct_target(), 'char', 'uint16'])} *q; }} {nm('in')};")
            elif [e for j, e in enumerate(earlier) if j != dyn_at]:
                members.append(f"{rnd.choice([e for j, e in enumerate(earlier) if j != dyn_at])} {nm('sub')}[{rnd.randint(1, 2)}];")
        rnd.shuffle(members)
        if dyn_at == i:
            members += ["uint8 n;", "uint8 d[n & 3];"]
        out.append(f"struct {name} {{ " + " ".join(members) + " };")
    head = ["uint8 tag;"] + [f"{nmx} *h{j};" for j, nmx in enumerate(names)] + (["char *s;"] if rnd.random() < 0.5 else [])
    if rnd.random() < 0.5:
        head.append(f"{rnd.choice(names)} *list[2];")
    out.append("struct HEAD { " + " ".join(head) + " };")
    return "\n".join(out) + "\n", names, "HEAD"


def typed_slots(T, base=0, out=None):
    """[(offset, pointer class)] of every pointer stored at a statically known offset below class T"""
    m = impl.dc()
    import sys
    BaseArray = sys.modules["dissect.cstruct.types.base"].BaseArray
    out = [] if out is None else out
    if issubclass(T, m.Pointer):
        out.append((base, T))
    elif issubclass(T, BaseArray):
        n = T.num_entries
        if isinstance(n, int) and not T.null_terminated and T.type.size is not None:
            for i in range(n):
                typed_slots(T.type, base + i * T.type.size, out)
    elif issubclass(T, m.Structure):
        for f in T.__fields__:
            if f.offset is not None and not f.bits:
                typed_slots(f.type, base + f.offset, out)
    return out


def alloc_size(T):
    """bytes to reserve for an object of structure class T (a dynamic tail `uint8 n; uint8 d[n & 3]` takes up to 4 more bytes)"""
    if T.size is not None:
        return T.size
    f = T.fields["n"]
    return f.offset + 1 + 3


class Heap:
    def __init__(self, rnd, psz, order, limit):
        self.rnd, self.psz, self.order, self.limit = rnd, psz, order, limit
        self.buf = bytearray(rnd.randrange(256) for _ in range(rnd.randint(0, 5)))
        self.objects: dict = {}      # structure class -> [addresses]

    def alloc(self, n):
        rnd = self.rnd
        gap = rnd.randint(0, 3)
        addr = len(self.buf) + gap
        if addr == 0:
            addr, gap = 1, 1
        if addr + n > self.limit:
            return None
        self.buf += bytes(rnd.randrange(256) for _ in range(gap))
        self.buf += bytes(rnd.choice([0, 1, 2, 0x41, 0x7F, 0x80, 0xFF, rnd.randrange(256), rnd.randrange(256)]) for _ in range(n))
        return addr

    def put(self, at, value):
        self.buf[at:at + self.psz] = value.to_bytes(self.psz, self.order)


def build_image(rnd, HeadT, psz, order, cap, head_aligned=False):
    """allocate a head object and everything reachable from it; -> (bytes, head address)"""
    m = impl.dc()
    top = (1 << (8 * psz)) - 1
    heap = Heap(rnd, psz, order, min(top, cap))
    if head_aligned:
        heap.buf = bytearray(rnd.randrange(256) for _ in range(rnd.choice([0, 16])))
    head_at = len(heap.buf)
    heap.buf += bytes(rnd.randrange(256) for _ in range(alloc_size(HeadT)))
    queue = deque((head_at + off, P, 0) for off, P in typed_slots(HeadT))
    maxdepth = rnd.randint(3, 6)
    while queue:
        at, P, depth = queue.popleft()
        tt = P.type
        r = rnd.random()
        if r < 0.10:
            heap.put(at, 0)
            continue
        if r < 0.15:
            heap.put(at, min(top, rnd.randint(1, len(heap.buf) + 12)))
            continue
        if issubclass(tt, m.Pointer):
            slot = heap.alloc(psz)
            if slot is None:
                heap.put(at, 0)
                continue
            heap.put(at, slot)
            queue.append((slot, tt, depth))
        elif issubclass(tt, m.Structure):
            have = heap.objects.get(tt, [])
            addr = None
            if have and (rnd.random() < 0.3 or depth >= maxdepth):
                addr = rnd.choice(have)
            elif depth < maxdepth:
                addr = heap.alloc(alloc_size(tt))
                if addr is not None:
                    heap.objects.setdefault(tt, []).append(addr)
                    if tt.size is None:
                        noff = tt.fields["n"].offset
                        heap.buf[addr + noff] = rnd.randrange(256)
                    for off, P2 in typed_slots(tt):
                        queue.append((addr + off, P2, depth + 1))
                elif have:
                    addr = rnd.choice(have)
            heap.put(at, addr or 0)
        elif issubclass(tt, m.Char):
            s = bytes(rnd.choice([0x41, 0x42, 0x61, 0x7A, 0x80, 0xFF, 0x20]) for _ in range(rnd.randint(0, 6))) + b"\x00"
            addr = heap.alloc(len(s))
            if addr is None:
                heap.put(at, 0)
                continue
            heap.buf[addr:addr + len(s)] = s
            heap.put(at, addr)
        else:
            size = getattr(tt, "size", None) or 1
            if rnd.random() < 0.3 and len(heap.buf) > size + 2:
                heap.put(at, min(top, rnd.randint(1, len(heap.buf) - size)))
            else:
                addr = heap.alloc(size)
                heap.put(at, addr or 0)
    heap.buf += bytes(rnd.randrange(256) for _ in range(rnd.randint(0, 4)))
    return bytes(heap.buf), head_at


def pointers_in(v, R, path, out):
    """[(path, pointer value, reference pointer class)] for every pointer inside value v whose (reference) type is R"""
    m = impl.dc()
    if type(v).__name__ == "UnionProxy":
        v = object.__getattribute__(v, "__target__")
    if issubclass(R, m.Pointer):
        out.append((path, v, R))
    elif issubclass(R, m.Structure):
        for f in R.__fields__:
            pointers_in(getattr(v, f._name), f.type, f"{path}{'' if path.endswith('->') else '.'}{f._name}", out)
    elif isinstance(v, list):
        for i, x in enumerate(v):
            pointers_in(x, R.type, f"{path}[{i}]", out)
    return out


def expect_at(RT, data, addr):
    """what parsing reference type RT at absolute offset addr of the original bytes gives: ('null',) | ('ok', canon, value) | ('err', class)"""
    m = impl.dc()
    if addr == 0:
        return ("null",)
    if issubclass(RT, m.Void):
        return ("ok", [A("void")], None)
    if issubclass(RT, m.Char):
        end = data.find(b"\x00", addr) if addr <= len(data) else -1
        return ("ok", [A("bytes"), data[addr:end]], data[addr:end]) if end >= 0 else ("err", "EOFError")
    if addr > len(data) + 64:
        return ("err", "EOFError")          # beyond the stream (the fresh stream could not even seek to a 128-bit address)
    r = impl.parse(RT, data, addr)
    return ("ok", impl.canon(r[1]), r[1]) if r[0] == "ok" else r


def show(o):
    return ("ok " + sx(o[1])[:160]) if o[0] == "ok" else " ".join(map(str, o[:2]))


def chain_walk(m, pname, endian, compiled, rnd, tier, res, viol):
    NullPointerDereference = m.NullPointerDereference
    psz = ALL_PTRS[pname]
    order = "little" if endian == "<" else "big"
    top = (1 << (8 * psz)) - 1
    align = psz in (1, 2, 4, 8) and rnd.random() < 0.2
    text, names, head = gen_graph(rnd, allow_dynamic=not align)
    cd0 = {"definition": text, "endian": endian, "pointer": pname, "compiled": compiled, "align": align}
    try:
        cs = m.cstruct(endian=endian, pointer=pname)
        cs.load(text, compiled=compiled, align=align)
        ref = m.cstruct(endian=endian, pointer=pname)
        ref.load(text, compiled=False, align=align)
    except Exception as e:  # noqa: BLE001
        viol(f"a definition of linked structures is rejected: {type(e).__name__}: {e}", cd0)
        return
    T, R = getattr(cs, head), getattr(ref, head)
    res.feat(f"u4:chain:ptr:{pname}")
    res.feat(f"u4:chain:compiled-flag:{bool(T.__compiled__)}")
    if align:
        res.feat("u4:chain:aligned")
    for _img in range(2 if tier == "quick" else 6):
        data, head_at = build_image(rnd, R, psz, order, 700 if psz > 1 else 255, head_aligned=align)
        cd = dict(cd0, data=data.hex(), head_at=head_at)
        stream = io.BytesIO(data)
        stream.seek(head_at)
        try:
            o = T(stream)
        except Exception as e:  # noqa: BLE001
            viol(f"parsing the head structure raises {type(e).__name__}: {e}", cd)
            continue
        want_head = impl.parse(R, data, head_at)
        if want_head[0] != "ok" or not impl.same_val(impl.canon(want_head[1]), impl.canon(o)) or stream.tell() != head_at + R.size:
            viol("the head structure does not read the unsigned integers stored in its pointer slots", cd)
            continue
        park = [stream.tell(), 0, len(data), len(data) // 2]
        todo = deque([(o, R, "head", 0, ())])
        visits: dict = {}
        budget = 400 if tier == "quick" else 1500
        maxhop = 0
        while todo and budget > 0:
            v, RT, path, depth, trail = todo.popleft()
            for ppath, p, RP in pointers_in(v, RT, path, []):
                budget -= 1
                addr = int(p)
                tt = RP.type
                hop = depth + 1
                cdp = dict(cd, chain=ppath, addresses=list(trail) + [addr], hop=hop)
                if not isinstance(p, m.Pointer):
                    viol(f"{ppath} is not a pointer: {p!r}", cdp)
                    continue
                want = expect_at(tt, data, addr)
                res.count(("chain", pname, endian, compiled, text, data, ppath), hop >= 2)
                res.feat(f"u4:chain:hop:{min(hop, 6)}")
                if rnd.random() < 0.5:
                    stream.seek(rnd.choice(park))
                pos0 = stream.tell()
                val = None
                try:
                    val = p.dereference()
                    g = ("ok", [A("void")] if val is None else impl.canon(val))
                    v2 = p.dereference()
                    if v2 is not val and (val is None or impl.canon(v2) != g[1]):
                        viol(f"{ppath}: repeated dereference gives a different value", cdp)
                except NullPointerDereference:
                    g = ("null",)
                except Exception as e:  # noqa: BLE001
                    g = ("err", impl.err_class(e))
                if stream.tell() != pos0:
                    viol(f"{ppath}: dereferencing moved the stream from {pos0} to {stream.tell()}", cdp)
                ok = (g[0] == want[0] == "null") or (g[0] == want[0] == "err") or (g[0] == want[0] == "ok" and impl.same_val(want[1], g[1]))
                if not ok:
                    viol(f"{ppath} ({RP.__name__} @ {addr}, hop {hop} from the head structure): dereference gives {show(g)}, parsing {tt.__name__} at "
                         f"offset {addr} of the stream gives {show(want)}", cdp)
                    continue
                kind = ("pointer" if issubclass(tt, m.Pointer) else "structure" if issubclass(tt, m.Structure) else "string" if issubclass(tt, m.Char)
                        else "void" if issubclass(tt, m.Void) else "scalar")
                res.feat(f"u4:chain:target:{kind}" + ("" if hop < 2 else "-behind-a-dereferenced-structure"))
                if addr == 0:
                    continue
                maxhop = max(maxhop, hop)
                # pointer arithmetic on the (inner) pointer
                size = getattr(tt, "size", None) or 1
                for k in {rnd.choice([1, 2, psz]), -1, size, -size}:
                    if not 0 < addr + k <= top:
                        continue
                    try:
                        q = p + k if k > 0 else p - (-k)
                    except Exception as e:  # noqa: BLE001
                        viol(f"{ppath} {k:+d} raises {type(e).__name__}: {e}", cdp)
                        continue
                    if type(q) is not type(p) or int(q) != addr + k:
                        viol(f"{ppath} {k:+d}: pointer arithmetic does not yield a pointer of the same type with the value {addr + k}: {q!r}", cdp)
                        continue
                    wq = expect_at(tt, data, addr + k)
                    pos0 = stream.tell()
                    try:
                        qv = q.dereference()
                        gq = ("ok", [A("void")] if qv is None else impl.canon(qv))
                    except NullPointerDereference:
                        gq = ("null",)
                    except Exception as e:  # noqa: BLE001
                        gq = ("err", impl.err_class(e))
                    res.feat("u4:chain:arithmetic" + ("" if hop < 2 else "-on-inner-pointer"))
                    if stream.tell() != pos0:
                        viol(f"({ppath} {k:+d}): dereferencing moved the stream from {pos0} to {stream.tell()}", cdp)
                    if not ((gq[0] == wq[0] == "err") or (gq[0] == wq[0] == "ok" and impl.same_val(wq[1], gq[1]))):
                        viol(f"({ppath} {k:+d}) @ {addr + k}, hop {hop}: dereference gives {show(gq)}, parsing {tt.__name__} at offset {addr + k} of "
                             f"the stream gives {show(wq)} (pointer arithmetic must stay on the same stream)", cdp)
                if g[0] != "ok":
                    continue
                if kind == "structure":
                    # attribute access through the pointer, and the bytes a fixed-size structure dumps
                    f = rnd.choice(tt.__fields__)
                    try:
                        if not impl.same_val(impl.canon(getattr(want[2], f._name)), impl.canon(getattr(p, f._name))):
                            viol(f"{ppath}->{f._name} differs from member {f._name} of the {tt.__name__} parsed at offset {addr}", cdp)
                    except Exception as e:  # noqa: BLE001
                        viol(f"{ppath}->{f._name} raises {type(e).__name__}: {e}", cdp)
                    if tt.size is not None and not align:
                        try:
                            if val.dumps() != data[addr:addr + tt.size]:
                                viol(f"dumps() of the structure behind {ppath} does not give the bytes at {addr} (the addresses in it) back", cdp)
                        except Exception as e:  # noqa: BLE001
                            viol(f"dumps() of the structure behind {ppath} raises {type(e).__name__}: {e}", cdp)
                if kind in ("structure", "pointer"):
                    key = (addr, RP)
                    visits[key] = visits.get(key, 0) + 1
                    if visits[key] <= 2 and depth < 7:
                        todo.append((val, tt, f"({ppath})->" if kind == "pointer" else f"{ppath}->", hop, trail + (addr,)))
        res.feat(f"u4:chain:deepest-hop:{min(maxhop, 6)}")


def chain_walks(m, env, res, viol, rnd):
    tier = env["tier"]
    for pname in ALL_PTRS:
        for endian in "<>":
            for compiled in (False, True):
                for _ in range(2 if tier == "quick" else 10):
                    chain_walk(m, pname, endian, compiled, rnd, tier, res, viol)
