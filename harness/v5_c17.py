"""C17 probe (agent v5): structure-value laws on definitions with REPEATED discard members (`_` declared two or more times).

A structure may declare the discard name `_` any number of times (reserved words, padding, unused bits).  The library folds all
of them into ONE field named `_`: one attribute, one constructor argument (at the position of the first `_`), one entry in `==` /
`hash` / `bool`.  The declared member list (`__fields__`, used by the reader, the writer and the layout) is therefore LONGER than
the list of field names the generated `__init__` / `__eq__` / `__hash__` / `__bool__` are built from; every table that is indexed
by "position of the field" (argument names, default constants, attribute names) has to be built from the same one of the two
lists.  The property quantifies over all structure definitions, so these are in its domain like any other.

Definitions (fixed size; packed / aligned, compiled / interpreted, both endiannesses, pointer size 2 / 4 / 8; declared by one
`cs.load`, or by loading the first members and adding the rest with `add_field`, one by one or inside one `start_update()` block):
2..7 named members interleaved with 2..4 (sometimes 1 or 0, as controls) members named `_`.  Neighbouring named members are of
kinds whose zero values differ: integers of 1..8 bytes, bit-fields (unsigned and enum storage types, runs that may contain `_`
bit-fields), enums / a flag, char and char[k], wchar and wchar[k], integer arrays, 2-D integer arrays, arrays of enums, two nested
structures, float16 / float / double, pointers (to a scalar, to a structure).  The `_` members are
  * "same"  : all declared with the same type (an integer, char[k], uint8[k], wchar[k], an enum, a nested structure, a float, a
              pointer),
  * "ints"  : integers of differing widths and signedness, also bit-fields inside runs, or
  * "mixed" : drawn independently from all kinds (char[3] / uint16 / float / pointer / ...).

Oracle: the property as stated, on the observable behaviour.  `names` is the declared name list with the repeated `_` folded into
its first occurrence (the constructor's positional order).  For every definition:
  * defaults : `T()` has every named field, each holding ITS type's zero value (compared structurally: int 0, enum 0, 0.0, b'\\0'*k,
    '\\0'*k, a list of zeros, a zero structure and a null pointer are all different things); `_` holds the zero value of one of the
    `_` members' types; `T().dumps()` is `len(T)` zero bytes; `bool(T())` is any(bool(field)).
  * construction : for the shapes T(), T(first=v), T(v1, v2), T(last=v), all positional, all keywords and random positional-prefix /
    keyword-subset splits: every given field reads back as given, every unspecified named field holds its type's zero value, and
    the instance equals (==, not !=, equal hash when hashable, equal fields, equal dumps) the default instance on which those
    fields were assigned.
  * equality / hash : instances holding equal fields made by keywords / assignment / positionally / by parsing the dumped bytes
    are pairwise ==, not !=, hash equally; for EVERY name (also `_`) an instance differing in exactly that field is != (both
    orders); an instance of a second class with the same members is never equal.
  * bool : bool(x) is any(bool(field)) on random, all-zero and exactly-one-field-non-zero instances.
  * assignment : assigning a named field changes, in dumps(), only bits of that field (the bits whose flipping changes that field
    in the class's own reader), stores the value (read-back, equals the instance constructed with it, re-parses to it) and leaves
    other instances alone; assigning `_` changes no bit of any named field; every dump is len(T) bytes long.
  * parsed instances : T(zeros) against T(zeros with one bit flipped), T(raw) twice: `==` exactly when all fields are equal, equal
    instances hash equally.

Restriction of the domain (see DUMP_MIXED_PADS): the laws that call dumps() are evaluated only when the writer can encode the one
folded `_` value in every `_` member at that member's size: pad classes "none", "single", "same" and "ints" (the latter with `_`
values that fit the narrowest `_` member).  For "mixed" `_` members the UNMODIFIED library's writer writes the one `_` value (the
zero value / parsed value of the LAST `_` member) into every `_` member: `T().dumps()` raises (struct.error for `uint16 _; ...
char _[3];`, ArraySizeError for `uint8 _[3]; ... uint8 _[2];`, AttributeError for `E8 _; ... uint16 _;`) or returns a dump that
is longer than len(T) (`char _; ... char _[2];`, `wchar _; ... wchar _[2];`).  That contradicts "dumps(T()) is the all-zero
encoding" for such definitions and is reported to the framework's owner; until it is decided the dump laws leave out exactly the
"mixed" class, every law that does not dump (defaults, construction, equality, hash, bool) is evaluated there too.
"""
from __future__ import annotations

from . import defs, impl
from .common import A

# Evaluate the dump laws also for definitions whose `_` members are of differing, not mutually encodable types.  False: see the
# module docstring ("Restriction of the domain"); with True the unmodified library fails e.g. on
#   struct T { uint8 a; uint16 _; char tag[4]; char _[3]; };   T().dumps()  -> struct.error
#   struct T { uint8 a; char _; char tag[4]; char _[2]; uint16 e; };   len(T().dumps()) == 11, len(T) == 10
DUMP_MIXED_PADS = False

INTS = {"uint8": (1, False), "int8": (1, True), "uint16": (2, False), "int16": (2, True), "uint32": (4, False), "int32": (4, True),
        "uint64": (8, False), "int64": (8, True), "uint24": (3, False), "int24": (3, True)}
ENUMS = {"E8": ("uint8", (1, 2, 7)), "F16": ("uint16", (1, 2, 0x100, 3)), "E32": ("int32", (0, -1, 5)), "E24": ("uint24", (0, 1, 0x10000))}
NESTED = {"N": (("p", "int", "uint8", None), ("q", "int", "uint16", None)), "M": (("c", "char", "char", 2), ("d", "int", "int16", None))}
NESTED_TEXT = "struct N { uint8 p; uint16 q; };\nstruct M { char c[2]; int16 d; };\n"
BIT_BASES = ["uint8", "uint16", "uint32", "uint64", "E8", "F16"]
FLOATS = ["float16", "float", "double"]
PTR_TARGETS = ["uint8", "uint32", "N", "char"]
ODD_NAMES = ["size", "fields", "lookup", "type", "value", "name", "hash", "data", "other", "_0", "_1", "__", "x_0", "i", "r", "o"]
KINDS = ["int", "enum", "char", "wchar", "intarr", "arr2", "enumarr", "nested", "float", "ptr"]
WSAFE = "\x00aZ\xe9Ж中￮"

MISSING = type("Missing", (), {"__repr__": lambda self: "<missing>", "__eq__": lambda self, o: False, "__hash__": lambda self: 0})()


# ------------------------------------------------------------------------------------------------ members

def gen_member(rnd, avoid_kind=None, kinds=KINDS):
    """one non-bit member descriptor (without a name): {"kind", "type", ["len"], ["len2"]}"""
    k = rnd.choice([x for x in kinds if x != avoid_kind] or kinds)
    if k == "int":
        return {"kind": k, "type": rnd.choice(list(INTS))}
    if k == "enum":
        return {"kind": k, "type": rnd.choice(list(ENUMS))}
    if k == "char":
        return {"kind": k, "type": "char", "len": rnd.choice([None, 2, 3, 4, 5])}
    if k == "wchar":
        return {"kind": k, "type": "wchar", "len": rnd.choice([None, 2, 3])}
    if k == "intarr":
        return {"kind": k, "type": rnd.choice(list(INTS)), "len": rnd.randint(1, 4)}
    if k == "arr2":
        return {"kind": k, "type": rnd.choice(["uint8", "int16", "uint32"]), "len": rnd.randint(1, 2), "len2": rnd.randint(1, 2)}
    if k == "enumarr":
        return {"kind": k, "type": rnd.choice(["E8", "F16"]), "len": rnd.randint(1, 3)}
    if k == "nested":
        return {"kind": k, "type": rnd.choice(list(NESTED))}
    if k == "float":
        return {"kind": k, "type": rnd.choice(FLOATS)}
    return {"kind": "ptr", "type": rnd.choice(PTR_TARGETS)}


def gen_def(rnd):
    """-> list of member descriptors in declaration order; pads have name "_" and "pad": True"""
    m = rnd.randint(2, 7)
    npads = rnd.choice([2, 2, 2, 2, 3, 3, 4, 1, 0])
    slots = ["F"] * m + ["P"] * npads
    for _ in range(20):
        rnd.shuffle(slots)
        pos = [i for i, s in enumerate(slots) if s == "P"]
        # mostly: a named member is declared behind the second `_` (where the two lists of the class stop lining up)
        if npads < 2 or "F" in slots[pos[1]:] or rnd.random() < 0.1:
            break
    intent = rnd.choice(["same", "same", "ints", "ints", "mixed", "mixed", "mixed"])
    same = gen_member(rnd, kinds=["int", "int", "char", "intarr", "wchar", "enum", "nested", "float", "ptr", "char"])
    if same["kind"] == "intarr":
        same["type"] = "uint8"
    pool = [f"f{i}" for i in range(12)]
    rnd.shuffle(pool)
    for _ in range(rnd.choice([0, 0, 1, 2])):
        pool.insert(rnd.randrange(m + 1), rnd.choice([x for x in ODD_NAMES if x not in pool]))
    names = iter(pool)

    def pad():
        if intent == "same":
            d = dict(same)
        elif intent == "ints":
            d = {"kind": "int", "type": rnd.choice(list(INTS))}
        else:
            d = gen_member(rnd)
        d.update(name="_", pad=True)
        return d

    out, i, prev_kind, prev_base = [], 0, None, None
    while i < len(slots):
        if rnd.random() < 0.22:
            # a run of bit-fields over one storage type; `_` members join it unless they all have to be of one (non-bit) type
            bt = rnd.choice([b for b in BIT_BASES if ENUMS.get(b, (b,))[0] != prev_base])
            under = ENUMS.get(bt, (bt,))[0]
            left, start = INTS[under][0] * 8, i
            for _ in range(rnd.randint(2, 4)):
                if i >= len(slots) or left == 0 or (slots[i] == "P" and intent == "same"):
                    break
                b = rnd.randint(1, min(left, rnd.choice([1, 2, 3, 5, 9, 17])))
                if slots[i] == "P":
                    out.append({"name": "_", "pad": True, "kind": "bits", "type": under, "bits": b})
                else:
                    out.append({"name": next(names), "kind": "bits", "type": bt, "bits": b})
                left -= b
                i += 1
            if i > start:
                prev_base, prev_kind = under, "bits"
                continue
        if slots[i] == "P":
            out.append(pad())
            prev_kind = out[-1]["kind"] if rnd.random() < 0.7 else prev_kind
        else:
            d = gen_member(rnd, avoid_kind=prev_kind)
            d["name"] = next(names)
            out.append(d)
            prev_kind = d["kind"]
        prev_base = None
        i += 1
    return out


def decl(d):
    nm = d["name"]
    if d["kind"] == "bits":
        return f"{d['type']} {nm} : {d['bits']};"
    if d["kind"] == "ptr":
        return f"{d['type']} *{nm};"
    if d["kind"] == "arr2":
        return f"{d['type']} {nm}[{d['len']}][{d['len2']}];"
    if d.get("len") is not None:
        return f"{d['type']} {nm}[{d['len']}];"
    return f"{d['type']} {nm};"


def type_key(d):
    return (d["kind"], d["type"], d.get("len"), d.get("len2"), d.get("bits"))


def pad_class(pads):
    """none | single | same | ints | mixed   (what the `_` members of a definition are, whatever the generator intended)"""
    if not pads:
        return "none"
    if len(pads) == 1:
        return "single"
    if all(p["kind"] != "bits" for p in pads) and len({type_key(p) for p in pads}) == 1:
        return "same"
    if all(p["kind"] == "int" or (p["kind"] == "bits" and p["type"] in INTS) for p in pads):
        return "ints"
    return "mixed"


# ------------------------------------------------------------------------------------------------ values
# value specs are plain data (every instance gets private copies): int | float | bytes | str | [..] | ("enum", type, int) |
# ("nested", type, (v, v))

def int_range(t):
    size, signed = INTS[t]
    bits = size * 8
    return (-(1 << (bits - 1)), (1 << (bits - 1)) - 1) if signed else (0, (1 << bits) - 1)


def rand_int(rnd, lo, hi):
    r = rnd.random()
    if r < 0.2:
        return rnd.choice([lo, hi, min(1, hi), max(hi - 1, lo)])
    if r < 0.4:
        return rnd.randint(max(lo, -3), min(hi, 3))
    return rnd.randint(lo, hi)


def enum_spec(rnd, t, hi=None):
    base, members = ENUMS[t]
    lo, top = int_range(base)
    if hi is not None:
        lo, top = 0, hi
    ok = [v for v in members if lo <= v <= top]
    return ("enum", t, rnd.choice(ok) if ok and rnd.random() < 0.6 else rand_int(rnd, lo, top))


def rand_spec(rnd, d, psize=8):
    k = d["kind"]
    if k == "int":
        return rand_int(rnd, *int_range(d["type"]))
    if k == "bits":
        hi = (1 << d["bits"]) - 1
        return enum_spec(rnd, d["type"], hi) if d["type"] in ENUMS else rand_int(rnd, 0, hi)
    if k == "enum":
        return enum_spec(rnd, d["type"])
    if k == "char":
        return bytes(rnd.randrange(256) if rnd.random() < 0.7 else 0 for _ in range(d["len"] or 1))
    if k == "wchar":
        return "".join(rnd.choice(WSAFE) for _ in range(d["len"] or 1))
    if k == "intarr":
        return [rand_int(rnd, *int_range(d["type"])) for _ in range(d["len"])]
    if k == "arr2":
        return [[rand_int(rnd, *int_range(d["type"])) for _ in range(d["len2"])] for _ in range(d["len"])]
    if k == "enumarr":
        return [enum_spec(rnd, d["type"]) for _ in range(d["len"])]
    if k == "nested":
        return ("nested", d["type"], tuple(rand_spec(rnd, {"kind": fk, "type": ft, "len": fl}) for _, fk, ft, fl in NESTED[d["type"]]))
    if k == "float":
        v = rnd.randint(-64, 64) / 4.0     # exactly representable in 16 bits; never -0.0 / NaN
        return 0.0 if v == 0 else v
    return rand_int(rnd, 0, (1 << (8 * psize)) - 1)     # a pointer is given as a plain integer address


def zero_spec(d):
    k = d["kind"]
    if k == "bits":
        return ("enum", d["type"], 0) if d["type"] in ENUMS else 0
    if k == "enum":
        return ("enum", d["type"], 0)
    if k == "char":
        return bytes(d["len"] or 1)
    if k == "wchar":
        return "\x00" * (d["len"] or 1)
    if k == "intarr":
        return [0] * d["len"]
    if k == "arr2":
        return [[0] * d["len2"] for _ in range(d["len"])]
    if k == "enumarr":
        return [("enum", d["type"], 0)] * d["len"]
    if k == "nested":
        return ("nested", d["type"], tuple(zero_spec({"kind": fk, "type": ft, "len": fl}) for _, fk, ft, fl in NESTED[d["type"]]))
    if k == "float":
        return 0.0
    return 0


def zero_canon(d):
    """what impl.canon gives for the zero value of the member's type"""
    k = d["kind"]
    if k == "ptr":
        return [A("ptr"), 0]
    if k == "float":
        return [A("flt"), 0]
    return spec_canon(zero_spec(d))


def spec_canon(v):
    if isinstance(v, tuple) and v[0] == "enum":
        return [A("enum"), v[2]]
    if isinstance(v, tuple):
        return [A("rec"), *[spec_canon(x) for x in v[2]]]
    if isinstance(v, list):
        return [A("list"), *[spec_canon(x) for x in v]]
    if isinstance(v, bytes):
        return [A("bytes"), v]
    if isinstance(v, str):
        b = v.encode("utf-16-le")
        return [A("wstr"), *[int.from_bytes(b[i:i + 2], "little") for i in range(0, len(b), 2)]]
    return [A("int"), v]


def realize(cs, v):
    if isinstance(v, tuple) and v[0] == "enum":
        return getattr(cs, v[1])(v[2])
    if isinstance(v, tuple):
        return getattr(cs, v[1])(**{f[0]: realize(cs, x) for f, x in zip(NESTED[v[1]], v[2])})
    if isinstance(v, list):
        return [realize(cs, x) for x in v]
    return v


def show(v):
    """the value spec as a Python expression (for the replay script)"""
    if isinstance(v, tuple) and v[0] == "enum":
        return f"cs.{v[1]}({v[2]})"
    if isinstance(v, tuple):
        return f"cs.{v[1]}(" + ", ".join(f"{f[0]}={show(x)}" for f, x in zip(NESTED[v[1]], v[2])) + ")"
    if isinstance(v, list):
        return "[" + ", ".join(show(x) for x in v) + "]"
    return repr(v)


def canon_text(c):
    return repr(c)[:160]


# ------------------------------------------------------------------------------------------------ one definition

class Def:
    def __init__(self, cs, T, X, members, psize):
        self.cs, self.T, self.X, self.members, self.psize = cs, T, X, members, psize
        self.pads = [d for d in members if d.get("pad")]
        self.named = [d for d in members if not d.get("pad")]
        self.names = list(dict.fromkeys(d["name"] for d in members))      # repeated `_` folded into its first occurrence
        self.by = {d["name"]: d for d in self.named}
        self.pclass = pad_class(self.pads)
        self.dump_ok = self.pclass != "mixed" or DUMP_MIXED_PADS
        self.pad_zero_canons = [zero_canon(p) for p in self.pads]

    # --- values for the folded `_`
    def pad_spec(self, rnd):
        if self.pclass == "ints":
            width = min(p["bits"] if p["kind"] == "bits" else INTS[p["type"]][0] * 8 for p in self.pads)
            return rand_int(rnd, 0, (1 << (width - 1)) - 1)       # fits every `_` member, signed or not
        if self.pclass == "mixed":
            return rand_spec(rnd, rnd.choice(self.pads), self.psize)
        return rand_spec(rnd, self.pads[-1], self.psize)

    def pad_zero(self):
        return 0 if self.pclass == "ints" else zero_spec(self.pads[-1])

    def spec(self, rnd, nm):
        return self.pad_spec(rnd) if nm == "_" else rand_spec(rnd, self.by[nm], self.psize)

    def zero(self, nm):
        return self.pad_zero() if nm == "_" else zero_spec(self.by[nm])

    def other(self, rnd, nm, v):
        rv = realize(self.cs, v)
        for _ in range(60):
            w = self.spec(rnd, nm)
            if realize(self.cs, w) != rv:      # (values, not specs: E24(0) == 0 == 0.0)
                return w
        return None      # (a 1-bit-wide `_` class has no second encodable value)

    def rand_vals(self, rnd):
        return {nm: self.spec(rnd, nm) for nm in self.names}

    def zeros(self):
        # in the "mixed" class the zero value of `_` is whatever the default instance holds: `_` is left unspecified there
        return {nm: self.zero(nm) for nm in self.names if nm != "_" or self.pclass != "mixed"}

    def real(self, vals):
        return {nm: realize(self.cs, v) for nm, v in vals.items()}

    # --- instances
    def ways(self, vals):
        w = ["keywords", "assignment"]
        if len(vals) == len(self.names):
            w.append("positional")
        if self.dump_ok:
            w.append("parse")
        return w

    def make(self, way, vals, cls=None):
        T = cls or self.T
        r = self.real(vals)
        if way == "keywords":
            return T(**r)
        if way == "assignment":
            x = T()
            for nm, v in r.items():
                setattr(x, nm, v)
            return x
        if way == "positional":
            return T(*[r[nm] for nm in self.names])
        return T(T(**r).dumps())

    def expr(self, way, vals):
        kw = ", ".join(f"{nm}={show(v)}" for nm, v in vals.items())
        if way == "keywords":
            return f"T({kw})"
        if way == "assignment":
            return "x = T(); " + "; ".join(f"x.{nm} = {show(v)}" for nm, v in vals.items())
        if way == "positional":
            return "T(" + ", ".join(show(vals[nm]) for nm in self.names) + ")"
        return f"T(T({kw}).dumps())"

    def first_bad(self, x, vals):
        """None if every field named in vals reads back as the value given, else the first name that does not"""
        r = self.real(vals)
        for nm in vals:
            if not (getattr(x, nm, MISSING) == r[nm]):
                return nm
        return None

    def truth(self, x):
        return any(bool(getattr(x, nm)) for nm in self.names)

    def canons(self, x):
        return [impl.canon(getattr(x, nm, MISSING)) for nm in self.names]


def bit_owner(D, size):
    """owner[i] = index (into D.names) of the field whose parsed value depends on input bit i; None: padding, unused bits, the
    bits of all `_` members but the last.  -> None when one bit moves two fields."""
    T = D.T
    zero = D.canons(T(bytes(size)))
    owner = []
    for i in range(size * 8):
        raw = bytearray(size)
        raw[i // 8] |= 1 << (i % 8)
        vals = D.canons(T(bytes(raw)))
        ch = [k for k in range(len(vals)) if vals[k] != zero[k]]
        if len(ch) > 1:
            return None
        owner.append(ch[0] if ch else None)
    return owner


def mask_of(owner, ks, size):
    m = bytearray(size)
    for i, o in enumerate(owner):
        if o in ks:
            m[i // 8] |= 1 << (i % 8)
    return bytes(m)


def hash_of(x):
    try:
        return hash(x)
    except TypeError:
        return "unhashable"


def check_def(res, viol, rnd, D, cd0, key, thorough):
    T, names, n = D.T, D.names, len(D.names)
    tag = "v5:pads:" + D.pclass

    def guard(what, cd, fn):
        try:
            return fn()
        except Exception as e:  # noqa: BLE001 - the property says these operations succeed
            viol(f"{what} raises {type(e).__name__}: {str(e)[:200]}", cd)
            return None

    def cdx(call, **kw):
        return dict(cd0, call=call, **kw)

    try:
        declared = [f._name for f in T.__fields__]
        size = len(T)
    except Exception as e:  # noqa: BLE001
        viol(f"the member list / size of the structure cannot be read: {type(e).__name__}: {e}", cd0)
        return
    if declared != [d["name"] for d in D.members]:
        viol(f"the structure's member list is {declared}, declared were {[d['name'] for d in D.members]}", cd0)
        return

    zeros = D.zeros()

    # ---------------------------------------------------------------- defaults
    def default_law():
        res.count((key, "default"), True)
        x = T()
        for nm in names:
            got = impl.canon(getattr(x, nm, MISSING))
            if nm == "_":
                if got not in D.pad_zero_canons:
                    viol(f"default instance T(): the discard field `_` holds {getattr(x, nm, MISSING)!r}, which is not the zero value of any of the "
                         f"`_` members' types ({', '.join(decl(p) for p in D.pads)})", cdx("T()", field="_"))
                continue
            want = zero_canon(D.by[nm])
            if got != want:
                viol(f"default instance T(): field {nm!r} ({decl(D.by[nm])}) holds {getattr(x, nm, MISSING)!r}, not its type's zero value "
                     f"{show(zero_spec(D.by[nm]))} (structurally {canon_text(got)} instead of {canon_text(want)})", cdx("T()", field=nm))
                return False
        res.feat("v5:default-instance-" + ("truthy (bytes / str / list-valued fields)" if D.truth(x) else "falsy"))
        if bool(x) != D.truth(x):
            viol(f"bool(T()) is {bool(x)} but any(fields) is {D.truth(x)}", cdx("bool(T())"))
        y = T()
        if not (x == y) or (x != y) or hash_of(x) != hash_of(y):
            viol("two default instances are not equal / hash differently", cdx("T() == T()"))
        if D.dump_ok:
            out = x.dumps()
            if out != bytes(size):
                viol(f"the default instance dumps as {out.hex()} ({len(out)} bytes), not as len(T) = {size} zero bytes", cdx("T().dumps()"))
                return False
        return True
    if not guard("making / reading / dumping the default instance T()", cdx("T()"), default_law):
        res.feat(tag + ":default-instance-wrong")
        return      # every other law builds on the default instance

    # ---------------------------------------------------------------- construction from positional / keyword values
    vals = D.rand_vals(rnd)
    first_named = next(i for i, nm in enumerate(names) if nm != "_")
    shapes = [(0, [first_named]), (min(2, n), []), (0, [n - 1]), (1, []), (n, []), (0, list(range(n))), (0, [i for i in range(n) if names[i] != "_"])]
    for _ in range(6 if thorough else 2):
        kpos = rnd.randint(0, n)
        shapes.append((kpos, [i for i in range(kpos, n) if rnd.random() < 0.5]))
    for kpos, kw_idx in shapes:
        r = D.real(vals)
        if kpos == 1 and isinstance(r[names[0]], (bytes, bytearray, memoryview)):
            kpos, kw_idx = 0, [0] + [i for i in kw_idx if i != 0]     # a single positional bytes argument means "parse these bytes" by design
        given = list(range(kpos)) + kw_idx
        call = "T(" + ", ".join([show(vals[names[i]]) for i in range(kpos)] + [f"{names[i]}={show(vals[names[i]])}" for i in kw_idx]) + ")"
        cd = cdx(call)
        res.count((key, "init", call), True)
        res.feat("v5:init-" + ("partial" if len(given) < n else "full"))

        def init_law(kpos=kpos, kw_idx=kw_idx, given=given, cd=cd, call=call, r=r):
            built = T(*[r[names[i]] for i in range(kpos)], **{names[i]: r[names[i]] for i in kw_idx})
            for i, nm in enumerate(names):
                got = getattr(built, nm, MISSING)
                if i in given:
                    if not (got == r[nm]):
                        viol(f"{call}: field {nm!r} reads back as {got!r}, given was {show(vals[nm])}", dict(cd, field=nm))
                        return
                elif nm == "_":
                    if impl.canon(got) not in D.pad_zero_canons:
                        viol(f"{call}: the unspecified discard field `_` holds {got!r}, not the zero value of a `_` member's type", dict(cd, field=nm))
                        return
                elif impl.canon(got) != zero_canon(D.by[nm]):
                    viol(f"{call}: the unspecified field {nm!r} ({decl(D.by[nm])}) holds {got!r}, not its type's zero value "
                         f"{show(zero_spec(D.by[nm]))}", dict(cd, field=nm))
                    return
            r2 = D.real(vals)
            manual = T()
            for i in given:
                setattr(manual, names[i], r2[names[i]])
            if not (built == manual) or not (manual == built) or (built != manual) or hash_of(built) != hash_of(manual):
                viol(f"{call} is not equal to / hashes differently from the default instance on which the same fields were assigned", cd)
                return
            if D.canons(built) != D.canons(manual):
                viol(f"{call} and the default instance on which the same fields were assigned hold different fields", cd)
                return
            if D.dump_ok:
                o1, o2 = built.dumps(), manual.dumps()
                if o1 != o2 or len(o1) != size:
                    viol(f"{call} dumps as {o1.hex()}, the default instance with the same fields assigned as {o2.hex()} (len(T) = {size})", cd)
        guard(f"construction {call[:200]}", cd, init_law)

    # ---------------------------------------------------------------- equal fields: ==, hash; one differing field: !=
    inst = {}
    for way in D.ways(vals):
        cd = cdx(D.expr(way, vals), made_by=way)
        x = guard(f"making an instance ({way})", cd, lambda: D.make(way, vals))  # noqa: B023
        if x is None:
            return
        bad = guard(f"reading the fields of an instance made by {way}", cd, lambda: (D.first_bad(x, vals),))  # noqa: B023
        if bad is None:
            return
        if bad[0] is not None:
            viol(f"instance made by {way}: field {bad[0]!r} reads back as {getattr(x, bad[0], MISSING)!r}, given was {show(vals[bad[0]])}", cd)
            return
        inst[way] = x
        res.feat(f"v5:made-by-{way}")
    res.count((key, "equal", D.expr("keywords", vals)), True)

    def eq_law():
        ws = list(inst)
        for w1, w2 in zip(ws, ws[1:] + ws[:1]):
            p, q = inst[w1], inst[w2]
            if not (p == q) or not (q == p) or (p != q) or (q != p):
                viol(f"instances with equal fields (made by {w1} / {w2}) are not equal: == {p == q}/{q == p}, != {p != q}/{q != p}",
                     cdx(D.expr(w1, vals), other=D.expr(w2, vals)))
        hs = {w: hash_of(p) for w, p in inst.items()}
        res.feat("v5:" + ("unhashable (list-valued fields)" if "unhashable" in hs.values() else "hash-compared"))
        if len(set(hs.values())) != 1:
            viol(f"equal instances hash differently / are not equally hashable: {hs}", cdx(D.expr("keywords", vals)))
        if D.dump_ok:
            ds = {w: p.dumps() for w, p in inst.items()}
            if len(set(ds.values())) != 1 or any(len(b) != size for b in ds.values()):
                viol(f"instances with equal fields dump differently / not as len(T) = {size} bytes: { {w: b.hex() for w, b in ds.items()} }",
                     cdx(D.expr("keywords", vals)))
        # another class with the same members is another type
        o = D.make(rnd.choice(["keywords", "assignment"]), vals, cls=D.X)
        a = inst["keywords"]
        if (a == o) or (o == a) or not (a != o) or not (o != a):
            viol("instances of two different structure types with the same members and equal fields compare equal", cdx(D.expr("keywords", vals)))
        res.feat("v5:cross-class-eq")
    guard("comparing / hashing instances with equal fields", cdx(D.expr("keywords", vals)), eq_law)

    a = inst["keywords"]
    masks = None
    if D.dump_ok:
        owner = guard("parsing all-zero / one-bit inputs", cd0, lambda: (bit_owner(D, size),))
        if owner is None:
            return
        if owner[0] is None:
            res.feat("v5:bit-owner-ambiguous")
        else:
            masks = [mask_of(owner[0], {k}, size) for k in range(n)]
            named_mask = mask_of(owner[0], {k for k in range(n) if names[k] != "_"}, size)

    for k, nm in enumerate(names):
        v2 = D.other(rnd, nm, vals[nm])
        if v2 is None:
            continue
        vals2 = dict(vals, **{nm: v2})
        for way in (D.ways(vals2) if thorough else (rnd.choice(D.ways(vals2)),)):
            cdk = cdx(D.expr("keywords", vals), other=D.expr(way, vals2), field=nm)
            res.count((key, "differ", D.expr(way, vals2)), True)
            res.feat("v5:pair-differing-in-" + ("the-discard-field" if nm == "_" else "a-named-field"))

            def ne_law(way=way, vals2=vals2, nm=nm, v2=v2, cdk=cdk):
                c = D.make(way, vals2)
                for w, p in inst.items():
                    if (p == c) or (c == p) or not (p != c) or not (c != p):
                        viol(f"instances that differ in exactly field {nm!r} ({show(vals[nm])} vs {show(v2)}; made by {w} / {way}) compare equal: "
                             f"== {p == c}/{c == p}, != {p != c}/{c != p}", cdk)
                        break
            guard(f"making / comparing an instance that differs in field {nm!r} ({way})", cdk, ne_law)

        if not D.dump_ok:
            continue

        def assign_law(nm=nm, k=k, v2=v2, vals2=vals2):
            way = rnd.choice(D.ways(vals))
            cdk = cdx("y = " + D.expr(way, vals) + f"; y.{nm} = {show(v2)}; y.dumps()", field=nm)
            res.count((key, "assign", D.expr(way, vals), nm, show(v2)), True)
            y = D.make(way, vals)
            before = y.dumps()
            setattr(y, nm, realize(D.cs, v2))
            after = y.dumps()
            if len(after) != size or len(before) != size:
                viol(f"dumps gives {len(before)} / {len(after)} bytes before / after assigning field {nm!r}, len(T) is {size}", cdk)
                return
            if masks is not None:
                if nm == "_":
                    if any((p ^ q) & mm for p, q, mm in zip(after, before, named_mask)):
                        viol(f"assigning {show(v2)} to the discard field `_` changed bits of named fields: before={before.hex()} after={after.hex()} "
                             f"bits of the named fields={named_mask.hex()}", cdk)
                        return
                elif any((p ^ q) & ~mm & 0xFF for p, q, mm in zip(after, before, masks[k])):
                    viol(f"assigning {show(v2)} to field {nm!r} changed bytes outside that field: before={before.hex()} after={after.hex()} "
                         f"field mask={masks[k].hex()}", cdk)
                    return
            bad = D.first_bad(y, vals2)
            if bad is not None:
                viol(f"after assigning {show(v2)} to field {nm!r}, field {bad!r} holds {getattr(y, bad, MISSING)!r}, expected {show(vals2[bad])}", cdk)
                return
            c = D.make("keywords", vals2)
            if after != c.dumps() or not (y == c) or (y != c) or hash_of(y) != hash_of(c):
                viol(f"assigning {show(v2)} to field {nm!r} does not give the instance constructed with that value: dumps {after.hex()} vs "
                     f"{c.dumps().hex()}, == {y == c}", cdk)
                return
            back = T(after)
            if not (back == y) or D.first_bad(back, vals2) is not None:
                viol(f"the dump after assigning {show(v2)} to field {nm!r} does not parse back to the instance", cdk)
                return
            if a.dumps() != before or D.first_bad(a, vals) is not None:
                viol(f"assigning field {nm!r} of one instance changed another instance", cdk)
        guard(f"assigning field {nm!r} / dumping", cdx(f"y.{nm} = {show(v2)}", field=nm), assign_law)

    # ---------------------------------------------------------------- bool
    def bool_law():
        for w, p in inst.items():
            if bool(p) != D.truth(p):
                viol(f"bool(instance made by {w}) is {bool(p)} but any(fields) is {D.truth(p)}", cdx("bool(" + D.expr(w, vals) + ")"))
        dflt = T()
        for way in D.ways(zeros):
            z = D.make(way, zeros)
            if bool(z) != D.truth(z):
                viol(f"bool(all-zero instance made by {way}) is {bool(z)} but any(fields) is {D.truth(z)}", cdx("bool(" + D.expr(way, zeros) + ")"))
            if not (z == dflt) or (z != dflt) or hash_of(z) != hash_of(dflt):
                viol(f"the instance made from every field's zero value ({way}) is not equal to / hashes differently from the default instance",
                     cdx(D.expr(way, zeros) + " == T()"))
        for nm in names:
            nz = None
            for _ in range(40):
                nz = D.spec(rnd, nm)
                if realize(D.cs, nz) != getattr(dflt, nm):
                    break
            else:
                continue      # (a 1-bit-wide `_` class has no non-zero encodable value)
            one = dict(zeros, **{nm: nz})
            for way in (D.ways(one) if thorough else (rnd.choice(D.ways(one)),)):
                x = D.make(way, one)
                res.count((key, "one-nonzero", D.expr(way, one)), True)
                res.feat("v5:bool-" + ("truthy" if D.truth(x) else "falsy"))
                cdb = cdx(D.expr(way, one), field=nm)
                if bool(x) != D.truth(x):
                    viol(f"bool of the instance whose only non-zero field is {nm!r} (= {show(nz)}, made by {way}) is {bool(x)} but any(fields) is "
                         f"{D.truth(x)}", cdb)
                if (x == dflt) or not (x != dflt):
                    viol(f"the instance whose only non-zero field is {nm!r} (= {show(nz)}, made by {way}) equals the default instance", cdb)
    guard("bool / all-zero / one-non-zero instances", cd0, bool_law)

    # ---------------------------------------------------------------- parsed instances: == exactly when all fields are equal
    def parse_law():
        z = T(bytes(size))
        kinds = {d["kind"] for d in D.members} | {f[1] for d in D.members if d["kind"] == "nested" for f in NESTED[d["type"]]}
        picks = range(size * 8) if thorough else rnd.sample(range(size * 8), min(size * 8, 12))
        for i in picks:
            raw = bytearray(size)
            raw[i // 8] |= 1 << (i % 8)
            c = T(bytes(raw))
            same = all(getattr(z, nm) == getattr(c, nm) for nm in names)      # (values, not structure: -0.0 == 0.0)
            res.count((key, "flip", i), True)
            res.feat("v5:parsed-pair-" + ("equal-fields (bit of an earlier `_` member / padding)" if same else "one-field-differs"))
            if (z == c) != same or (c == z) != same or (z != c) == same:
                viol(f"T(zeros) and T(zeros with bit {i} set) hold {'equal' if same else 'different'} fields but == is {z == c}, != is {z != c}",
                     cdx(f"T(bytes({size})) == T(bytes.fromhex({bytes(raw).hex()!r}))"))
            if same and hash_of(z) != hash_of(c):
                viol(f"T(zeros) and T(zeros with bit {i} set) hold equal fields but hash differently",
                     cdx(f"hash(T(bytes({size}))) == hash(T(bytes.fromhex({bytes(raw).hex()!r})))"))
        if not kinds & {"wchar", "float"}:     # random bytes may not decode as UTF-16 / may be NaN (never equal to itself)
            raw = bytes(rnd.randrange(256) for _ in range(size))
            p, q = T(raw), T(raw)
            res.count((key, "parse-twice", raw), True)
            if not (p == q) or (p != q) or hash_of(p) != hash_of(q) or bool(p) != D.truth(p):
                viol("two instances parsed from the same bytes are not equal / hash differently / bool differs from any(fields)",
                     cdx(f"T(bytes.fromhex({raw.hex()!r}))"))
    guard("parsing / comparing parsed instances", cd0, parse_law)


# ------------------------------------------------------------------------------------------------ the probe

def run(env, res, viol, rnd, reps):
    dc = impl.dc()
    thorough = env["tier"] != "quick"
    for rep in range(reps):
        endian = rnd.choice("<>")
        align = rnd.random() < 0.4
        compiled = rnd.random() < 0.5
        pointer = rnd.choice(["uint16", "uint32", "uint64"])
        members = gen_def(rnd)
        how = rnd.choice(["load", "load", "load", "add_field", "update-block"])
        k0 = len(members) if how == "load" else rnd.randint(0, len(members) - 1)
        body = " ".join(decl(d) for d in members)
        pre = defs.PREAMBLE + NESTED_TEXT
        script = [f"from dissect.cstruct import cstruct; cs = cstruct(endian={endian!r}, pointer={pointer!r})", f"cs.load({pre!r}, align={align})",
                  f"cs.load('struct X {{ {body} }};', compiled={compiled}, align={align}); X = cs.X"]
        first = "struct T { " + " ".join(decl(d) for d in members[:k0]) + " };"
        script.append(f"cs.load({first!r}, compiled={compiled}, align={align}); T = cs.T")
        adds = [f"T.add_field({d['name']!r}, X.__fields__[{i}].type, bits={d.get('bits')})" for i, d in enumerate(members) if i >= k0]
        if how == "update-block":
            script += ["with T.start_update():"] + ["    " + s for s in adds]
        else:
            script += adds
        cd0 = {"endian": endian, "align": align, "compiled": compiled, "pointer": pointer, "declared_by": how,
               "definition": f"struct T {{ {body} }};", "script": script}
        try:
            cs = dc.cstruct(endian=endian, pointer=pointer)
            cs.load(pre, align=align)
            cs.load(f"struct X {{ {body} }};", compiled=compiled, align=align)
            X = cs.X
            cs.load(first, compiled=compiled, align=align)
            T = cs.T
            if how == "update-block":
                with T.start_update():
                    for i in range(k0, len(members)):
                        T.add_field(members[i]["name"], X.__fields__[i].type, bits=members[i].get("bits"))
            else:
                for i in range(k0, len(members)):
                    T.add_field(members[i]["name"], X.__fields__[i].type, bits=members[i].get("bits"))
        except Exception as e:  # noqa: BLE001
            viol(f"definition rejected: {type(e).__name__}: {e}", cd0)
            continue
        D = Def(cs, T, X, members, {"uint16": 2, "uint32": 4, "uint64": 8}[pointer])
        cd0["discard_members"] = D.pclass
        res.feat("v5:pads:" + D.pclass + ("" if D.dump_ok else " (dump laws not evaluated)"))
        res.feat(f"v5:discard-members:{len(D.pads)}")
        res.feat("v5:declared-by:" + how)
        res.feat("v5:" + ("aligned" if align else "packed") + "," + ("compiled" if compiled else "interpreted"))
        for kind in sorted({d["kind"] for d in D.named}):
            res.feat("v5:kind:" + kind)
        for kind in sorted({d["kind"] for d in D.pads}):
            res.feat("v5:discard-kind:" + kind)
        if len(D.pads) >= 2:
            i2 = [i for i, d in enumerate(members) if d.get("pad")][1]
            behind = sum(1 for d in members[i2:] if not d.get("pad"))
            res.feat("v5:named-members-behind-the-second-discard:" + (str(behind) if behind <= 3 else "4+"))
        check_def(res, viol, rnd, D, cd0, (endian, align, compiled, pointer, how, k0, body), thorough)
