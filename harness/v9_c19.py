"""C19 probe (v9): BOTH CALL STYLES of dumpstruct, every way of handing the bytes over, ON EVERY DATA LENGTH - the empty one included.

"Dumping a parsed structure shows a hex dump of exactly its bytes and lists every field with its value", and colour is cosmetic.
dumpstruct has two call styles - dumpstruct(instance) and dumpstruct(StructType, data) - and the second one is the less travelled
entry point: the library's own tests hand it 2 or 4 bytes, nothing dumps a structure type together with EMPTY data although plenty of
structures legally parse from no bytes at all (struct e {};  uint8 d[EOF];  char t[0]; uint16 w[0];  an x[EOF] tail at the end of
the input).  An empty bytes object is falsy, so a guard written `if data` instead of `if data is not None` turns exactly those calls
into "Invalid arguments".

What is generated (module PRNG, mkrng(seed, "c19:v9:forms")):

 * a structure whose encoding has a chosen length L - every seed walks L = 0 (several shapes), 1, 2, 15, 16, 17, 31, 32, 33, 48 first,
   then random lengths 0..70 (thorough: 0..300) - built from random members: integers of 1..16 bytes (signed / unsigned, int24 / int48 /
   int128), float / double, char / wchar, char[k] / wchar[k] / intN[k] arrays (k >= 0: zero-length arrays are sprinkled into every
   shape), enums and arrays of them, a nested structure, an anonymous nested structure, an empty nested structure, bit-fields filling
   their unit, a pointer, void, uleb128, null-terminated char[] / wchar[], counted arrays d[n];  shapes: `struct S {};`, only zero-length
   arrays, a lone x[EOF] array, fixed members adding up to exactly L, fixed members plus an x[EOF] tail (which may be left with NO bytes),
   a union of equally long members;  x  endianness spelling (< > ! @ =)  x  compiled / interpreted  x  packed / aligned (aligned: fixed
   members only, the length is then what the layout makes of it).
   The bytes are made canonical first (raw = S(stream).dumps(), S(raw).dumps() == raw - parsing / writing belong to other properties, a
   structure that fails there is skipped and counted), so that "the structure's bytes" and "the data handed in" are the same bytes and
   the two call styles owe the same text.
 * every way of asking for the dump of these bytes at one offset, colour off and on, output "string" and "print" (stdout captured):
     instance styles   dumpstruct(S(raw)), dumpstruct(S(BytesIO(raw))), dumpstruct(S.reads(raw)), dumpstruct(S.read(BytesIO(raw))),
                       dumpstruct(obj=instance, ...), and the instance built through the API from the field values S(**values)
     type+data styles  dumpstruct(S, raw) with raw as bytes, bytearray and memoryview; data= / obj= keywords; everything positional
     defaults          dumpstruct(instance) and dumpstruct(S, raw) with no further argument (= offset 0, colour on, print)
   and the calls that hand over no data: dumpstruct(S), dumpstruct(S, None), dumpstruct(S, data=None, ...).

Oracle (the property, on what the library returns / prints):
 * every call with bytes succeeds (the structure legally parses from exactly these bytes - checked independently by S(raw));
 * with the escape sequences removed, the text is "\\n" + hex dump + "\\n\\n" + listing where the hex dump reads back as exactly the bytes,
   sixteen per line behind the running offset (t6_c19.plain_lines_error: an independent reader; NO line at all for no bytes), the listing
   starts with "struct <name>:" and lists every declared member once, in order, with its value (integers, floats, bytes, strings and
   integer lists are read back from the text and compared with the member's value; enums / pointers by repr; anything else by str);
 * colour off: no escape character in the text;  colour on vs off: equal once the escape sequences are removed;
 * every style, data type, passing convention and output mode gives the same text for the same colour (print: returns None and prints
   the text plus a newline);
 * without data the type+data style raises ValueError (and prints nothing).
Instances and type+data dumps of the same bytes are also sent to the Lean model (driver `dumpstruct`, exact text).

Domain restriction (behaviour of the UNMODIFIED library, reported, not silenced): an instance built with constructor arguments
(S(a=1, b=2) or S(1, 2) - neither parsed nor default-constructed) carries no `_sizes`, and dumpstruct(instance, color=True) - colour is
the default - raises AttributeError("'S' object has no attribute '_sizes'").  Exactly that exception on exactly that style (API-built
instance, colour on) is counted as feature `v9:forms:api-instance:colour:AttributeError-_sizes` instead of a violation; colour off is
judged like every other style, and so is colour on as soon as the call returns a text (then compared with the others up to colour codes).
"""
from __future__ import annotations

import ast
import contextlib
import io
import re
import sys
from enum import Enum

from . import t6_c19
from .common import mkrng

ESC = re.compile(r"\033\[[0-9;]*m")
ADDR = re.compile(r" object at 0x[0-9a-fA-F]+>")  # default reprs (void) name an address

ENDIANS = ["<", ">", "<", ">", "!", "@", "="]
INTS = [("uint8", 1), ("int8", 1), ("uint16", 2), ("int16", 2), ("uint24", 3), ("int24", 3), ("uint32", 4), ("int32", 4), ("uint48", 6),
        ("int48", 6), ("uint64", 8), ("int64", 8), ("uint128", 16), ("int128", 16)]
FORCED = [(0, "empty"), (0, "eof"), (0, "zero"), (0, "fixed+eof"), (0, "empty"), (0, "eof"), (0, "zero"), (1, "eof"), (1, "fixed"), (2, "fixed+eof"),
          (15, "fixed"), (16, "fixed"), (16, "eof"), (17, "fixed"), (17, "fixed+eof"), (31, "fixed"), (32, "fixed+eof"), (33, "fixed"), (48, "fixed"),
          (16, "fixed+eof"), (17, "eof"), (2, "union"), (16, "union"), (0, "fixed+eof")]


def norm(t):
    return ADDR.sub(" object>", t) if isinstance(t, str) else t


def strip(t):
    return ESC.sub("", t)


# ------------------------------------------------------------------------------------------------ definitions

class Gen:
    """members of one structure: declaration lines, the bytes of the packed encoding, what the definition needs in front of it"""

    def __init__(self, rnd, order, plain_only):
        self.rnd, self.order, self.plain_only = rnd, order, plain_only
        self.decls, self.data, self.pre, self.n = [], bytearray(), [], 0
        self.has_bits = self.has_void = False

    def name(self, stem="f"):
        self.n += 1
        return f"{stem}{self.n}"

    def rb(self, k):
        r = self.rnd
        if r.random() < 0.15:
            return bytes(r.choice(b"\x00\xff\x80\x7f{}%\\ \n\x1b") for _ in range(k))
        return bytes(r.randrange(256) for _ in range(k))

    def wtext(self, k, nul_ok=True):
        r = self.rnd
        s = "".join(chr(r.choice([r.randrange(0x20, 0x7F), r.randrange(1, 0xD800), r.randrange(0xE000, 0xFFFE), 0x7B, 0x25, 0x1B, 0 if nul_ok else 0x41]))
                    for _ in range(k))
        return s.encode("utf-16-le" if self.order == "little" else "utf-16-be")

    def zero(self):
        """a member that takes no bytes"""
        r = self.rnd
        k = r.choice(["char", "uint8", "uint16", "wchar", "int32", "struct", "void"] if not self.plain_only else ["char", "uint8", "uint16", "int32"])
        if k == "struct":
            self.decls.append(f"struct {{ }} {self.name('e')};")
        elif k == "void":
            self.has_void = True
            self.decls.append(f"void {self.name('v')};")
        else:
            self.decls.append(f"{k} {self.name('z')}[0];")

    def member(self, budget):
        """append one member of at most `budget` (>= 1) bytes; -> its size"""
        r = self.rnd
        kinds = ["int", "int", "int", "char[]", "int[]", "enum", "nested", "bits", "float", "char1"]
        if not self.plain_only:
            kinds += ["wchar[]", "anon", "pointer", "uleb", "cstr", "wstr", "counted", "enum[]", "wchar1"]
        for _ in range(20):
            k = r.choice(kinds)
            if k == "int":
                t, s = r.choice([x for x in INTS if x[1] <= budget])
                self.decls.append(f"{t} {self.name()};")
                self.data += self.rb(s)
                return s
            if k == "char1":
                self.decls.append(f"char {self.name('c')};")
                self.data += self.rb(1)
                return 1
            if k == "wchar1" and budget >= 2:
                self.decls.append(f"wchar {self.name('w')};")
                self.data += self.wtext(1)
                return 2
            if k == "char[]":
                n = r.randint(1, min(budget, 20))
                self.decls.append(f"char {self.name('c')}[{n}];")
                self.data += self.rb(n)
                return n
            if k == "wchar[]" and budget >= 2:
                n = r.randint(1, min(budget // 2, 9))
                self.decls.append(f"wchar {self.name('w')}[{n}];")
                self.data += self.wtext(n)
                return 2 * n
            if k == "int[]":
                t, s = r.choice([x for x in INTS if x[1] <= budget])
                n = r.randint(1, min(budget // s, 18))
                self.decls.append(f"{t} {self.name('a')}[{n}];")
                self.data += self.rb(s * n)
                return s * n
            if k in ("enum", "enum[]"):
                base, s = r.choice([("uint8", 1), ("uint16", 2), ("int32", 4)])
                n = 1 if k == "enum" else r.randint(1, 3)
                if s * n > budget:
                    continue
                en = self.name("E")
                self.pre.append(f"enum {en} : {base} {{ {en}_A = 1, {en}_B = 2, {en}_C = 0x7f }};")
                self.decls.append(f"{en} {self.name('e')}" + (";" if k == "enum" else f"[{n}];"))
                for _ in range(n):
                    v = r.choice([1, 2, 0x7F, 0, 3, r.randrange(128)])
                    self.data += v.to_bytes(s, self.order)
                return s * n
            if k == "nested" and budget >= 3:
                self.decls.append(f"struct {{ uint8 x; int16 y; }} {self.name('in')};")
                self.data += self.rb(3)
                return 3
            if k == "anon" and budget >= 2:
                self.decls.append(f"struct {{ uint8 {self.name('ax')}; int8 {self.name('ay')}; }};")
                self.data += self.rb(2)
                return 2
            if k == "bits":
                t, s, parts = r.choice([("uint8", 1, (1, 7)), ("uint8", 1, (3, 2, 3)), ("uint16", 2, (4, 12)), ("uint32", 4, (3, 29)), ("uint16", 2, (1, 1, 14))])
                if s > budget:
                    continue
                self.has_bits = True
                self.decls.append(" ".join(f"{t} {self.name('b')}:{p};" for p in parts))
                self.data += self.rb(s)
                return s
            if k == "float":
                t, s = r.choice([("float", 4), ("double", 8), ("float16", 2)])
                if s > budget:
                    continue
                self.decls.append(f"{t} {self.name('g')};")
                self.data += self.rb(s)
                return s
            if k == "pointer" and budget >= 8:
                self.decls.append(f"uint8 *{self.name('p')};")
                self.data += self.rb(8)
                return 8
            if k == "uleb":
                n = r.randint(1, min(budget, 4))
                self.decls.append(f"uleb128 {self.name('u')};")
                self.data += bytes([0x80 | r.randrange(128) for _ in range(n - 1)] + [r.randrange(1, 128)])
                return n
            if k == "cstr":
                n = r.randint(0, min(budget - 1, 18))
                self.decls.append(f"char {self.name('s')}[];")
                self.data += bytes(r.choice(b"{}%\\ab'\"\x1b\xff\x01") for _ in range(n)) + b"\x00"
                return n + 1
            if k == "wstr" and budget >= 2:
                n = r.randint(0, min(budget // 2 - 1, 8))
                self.decls.append(f"wchar {self.name('ws')}[];")
                self.data += self.wtext(n, nul_ok=False) + b"\x00\x00"
                return 2 * n + 2
            if k == "counted":
                t, s = r.choice([("uint8", 1), ("uint16", 2), ("char", 1), ("int32", 4)])
                n = r.randint(0, min((budget - 1) // s, 17))
                cn = self.name("n")
                self.decls.append(f"uint8 {cn}; {t} {self.name('d')}[{cn}];")
                self.data += bytes([n]) + self.rb(s * n)
                return 1 + s * n
        self.decls.append(f"uint8 {self.name()};")
        self.data += self.rb(1)
        return 1

    def fill(self, total, max_members):
        """members adding up to exactly `total` bytes"""
        r = self.rnd
        left, k = total, 0
        while left > 0:
            if r.random() < 0.12:
                self.zero()
            if k >= max_members:
                self.decls.append(f"{r.choice(['uint8', 'char'])} {self.name('fill')}[{left}];")
                self.data += self.rb(left)
                break
            left -= self.member(left)
            k += 1
        if r.random() < 0.12:
            self.zero()

    def eof_tail(self, left):
        """an x[EOF] member taking the `left` (>= 0) remaining bytes"""
        r = self.rnd
        opts = [("uint8", 1), ("char", 1), ("int8", 1)]
        if left % 2 == 0:
            opts += [("uint16", 2), ("wchar", 2)]
        if left % 4 == 0:
            opts += [("uint32", 4), ("int32", 4)]
        if left % 8 == 0:
            opts += [("uint64", 8)]
        t, s = r.choice(opts)
        self.decls.append(f"{t} {self.name('tail')}[EOF];")
        self.data += self.wtext(left // 2) if t == "wchar" else self.rb(left)


def gen_structure(rnd, length, shape, order, aligned):
    """-> (definition text, packed bytes, has_bits, has_void)"""
    g = Gen(rnd, order, plain_only=aligned)
    head = "struct"
    if shape == "empty":
        pass
    elif shape == "zero":
        for _ in range(rnd.randint(1, 4)):
            g.zero()
    elif shape == "eof":
        if rnd.random() < 0.3:
            g.zero()
        g.eof_tail(length)
    elif shape == "fixed":
        g.fill(length, rnd.randint(1, 8))
    elif shape == "fixed+eof":
        fixed = rnd.choice([0, length, rnd.randint(0, length), rnd.randint(0, length)])
        g.fill(fixed, rnd.randint(1, 6))
        g.eof_tail(length - fixed)
    elif shape == "union":
        # members of one length, every one reading the same bytes
        head = "union"
        n = max(1, length)
        g.data += g.rb(n)
        for _ in range(rnd.randint(1, 4)):
            opts = [("uint8", 1), ("char", 1)] + [x for x in INTS if n % x[1] == 0 and x[1] > 1]
            t, s = rnd.choice(opts)
            g.decls.append(f"{t} {g.name('m')}" + (";" if s == n and rnd.random() < 0.7 else f"[{n // s}];"))
    text = "".join(p + "\n" for p in g.pre) + head + " S { " + " ".join(g.decls) + " };"
    return text, bytes(g.data), g.has_bits, g.has_void


# ------------------------------------------------------------------------------------------------ reading a dump

def is_pointer(v):
    return any(b.__name__ == "Pointer" for b in type(v).__mro__)


def shown_ok(v, shown):
    """does the text behind '- name: ' stand for the value v"""
    try:
        if isinstance(v, Enum) or is_pointer(v):
            return shown == repr(v)
        if isinstance(v, bool):
            return True
        if isinstance(v, int):
            return int(shown, 16) == int(v)
        if isinstance(v, float):
            s = float(shown)
            return s == v or (s != s and v != v)
        if isinstance(v, (bytes, str)):
            return ast.literal_eval(shown) == v
        if isinstance(v, list) and all(isinstance(e, int) and not isinstance(e, Enum) and not is_pointer(e) for e in v):
            return ast.literal_eval(shown) == [int(e) for e in v]
        if isinstance(v, list):
            return True  # lists of other things (enums ...): listed; their text is pprint's business
        return norm(shown) == norm(str(v))
    except (ValueError, SyntaxError):
        return False


def text_error(txt, S, obj, raw, offset):
    """None if the colour-free text is  newline, hex dump of exactly raw at offset, empty line, the listing of every member with its value"""
    if not txt.startswith("\n"):
        return f"the text does not start with an empty line: {txt[:40]!r}"
    rest = txt[1:]
    cut = rest.find("\n\n")
    if cut < 0:
        return f"no empty line between the hex dump and the listing: {txt[:80]!r}"
    hexpart, listing = rest[:cut], rest[cut + 2:]
    err = t6_c19.plain_lines_error(hexpart.split("\n") if hexpart else [], raw, offset)
    if err:
        return f"the hex dump is not a dump of exactly the structure's {len(raw)} bytes at offset {offset}: {err}"
    ll = listing.split("\n")
    if ll[0] != f"struct {S.__name__}:":
        return f"the listing starts with {ll[0][:60]!r}, not with 'struct {S.__name__}:'"
    vals = t6_c19._listing_values(listing)
    names = [f._name for f in S.__fields__]
    if list(vals) != names:
        missing = [n for n in names if n not in vals]
        return (f"the listing does not list member {missing[0]}" if missing else f"the listing names {list(vals)[:12]}, the members are {names[:12]}")
    for n in names:
        v = getattr(obj, n)
        if not shown_ok(v, vals[n]):
            return f"the listing shows member {n} as {vals[n][:80]!r}, its value is {norm(repr(v))[:80]}"
    return None


def captured(fn):
    """-> (returned value, what was printed)"""
    buf = io.StringIO()
    with contextlib.redirect_stdout(buf):
        r = fn()
    return r, buf.getvalue()


# ------------------------------------------------------------------------------------------------ the family

def dumpstruct_forms(env, res, U, dc, viol, lines=None, metas=None):
    tier = env["tier"]
    rnd = mkrng(env["seed"], "c19:v9:forms")
    n_random = 200 if tier == "quick" else 1500
    max_len = 70 if tier == "quick" else 300
    plan = [(ln, sh, c) for ln, sh in FORCED for c in (False, True)]
    for _ in range(n_random):
        r = rnd.random()
        ln = rnd.choice([0, 0, 1, 2, 15, 16, 17, 31, 32, 33]) if r < 0.35 else rnd.randint(0, 40) if r < 0.85 else rnd.randint(41, max_len)
        sh = rnd.choice(["fixed", "fixed", "fixed+eof", "fixed+eof", "eof", "union"] + (["empty", "zero"] if ln == 0 else []))
        plan.append((ln, sh, rnd.random() < 0.5))

    for idx, (length, shape, compiled) in enumerate(plan):
        endian = rnd.choice(ENDIANS)
        order = "big" if endian in ">!" else "little" if endian == "<" else sys.byteorder
        aligned = shape == "fixed" and idx >= 2 * len(FORCED) and rnd.random() < 0.3
        text, data0, has_bits, has_void = gen_structure(rnd, length, shape, order, aligned)
        offset = rnd.choice([0, 0, 0, 1, 16, 0x1000, 0xFFFFFFF8, 1 << 36, rnd.randrange(1 << 33)])
        base = {"kind": "dumpstruct", "definition": text, "endian": endian, "compiled": compiled, "aligned": aligned, "has_bits": has_bits,
                "has_void": has_void, "offset": offset}
        # -- the structure and its canonical bytes (parsing and writing belong to other properties: what fails here is skipped, counted)
        try:
            cs = dc.cstruct(endian=endian)
            cs.load(text, compiled=compiled, align=aligned)
            S = cs.S
            raw = S(io.BytesIO(data0 + (bytes(rnd.randrange(256) for _ in range(64)) if aligned else b""))).dumps()
            obj = S(raw)
            if obj.dumps() != raw or not isinstance(raw, bytes):
                raise ValueError("not canonical")
        except Exception as ex:  # noqa: BLE001
            res.feat("v9:forms:skipped:" + type(ex).__name__)
            continue
        n = len(raw)
        case0 = dict(base, data=raw.hex())
        res.feat("v9:forms:shape=" + shape + ("+aligned" if aligned else ""))
        res.feat("v9:forms:bytes=" + ("0" if n == 0 else "1" if n == 1 else "2..15" if n < 16 else "16" if n == 16 else "17" if n == 17 else "18+"))
        res.feat("v9:forms:" + ("compiled" if compiled else "interpreted"))

        # -- the instances (every public way to come by one for these bytes)
        insts = {"instance": obj}
        for label, mk in (("instance-from-stream", lambda: S(io.BytesIO(raw))), ("instance-reads", lambda: S.reads(raw)),
                          ("instance-read-stream", lambda: S.read(io.BytesIO(raw)))):
            try:
                o = mk()
                if o.dumps() == raw:
                    insts[label] = o
            except Exception:  # noqa: BLE001   (other properties)
                res.feat("v9:forms:" + label + ":unavailable")
        try:
            o = S(**{f._name: getattr(obj, f._name) for f in S.__fields__}) if S.__fields__ else None
            if o is not None and o.dumps() == raw and "union" not in shape:
                insts["instance-built-through-the-api"] = o
        except Exception:  # noqa: BLE001   (construction from values belongs to other properties)
            res.feat("v9:forms:api-instance:unavailable")

        # -- every call: label -> (thunk(color, mode) -> what dumpstruct returns)
        calls = {}
        for label, o in insts.items():
            calls[label] = (lambda c, m, o=o: U.dumpstruct(o, offset=offset, color=c, output=m))
        calls["instance,obj-keyword"] = lambda c, m: U.dumpstruct(obj=obj, offset=offset, color=c, output=m)
        calls["type+bytes"] = lambda c, m: U.dumpstruct(S, raw, offset=offset, color=c, output=m)
        calls["type+bytearray"] = lambda c, m: U.dumpstruct(S, bytearray(raw), offset=offset, color=c, output=m)
        calls["type+memoryview"] = lambda c, m: U.dumpstruct(S, memoryview(raw), offset=offset, color=c, output=m)
        calls["type+bytes,data-keyword"] = lambda c, m: U.dumpstruct(S, data=raw, color=c, output=m, offset=offset)
        calls["type+bytes,all-keywords"] = lambda c, m: U.dumpstruct(obj=S, data=raw, offset=offset, color=c, output=m)
        calls["type+bytearray,all-positional"] = lambda c, m: U.dumpstruct(S, bytearray(raw), offset, c, m)
        labels = list(calls)
        if tier == "quick" and idx >= 2 * len(FORCED):  # random part of the quick tier: the two plain styles and a sample of the others
            labels = labels[:1] + ["type+bytes"] + rnd.sample([x for x in labels[1:] if x != "type+bytes"], 4)

        outs = {}  # (label, mode, color) -> text as output="string" would return it
        bad = False
        for color in (False, True):
            for label in labels:
                for mode in ("string", "print"):
                    case = dict(case0, color=color, output=mode, form=label)
                    res.count(("v9:forms", text, endian, compiled, aligned, raw, offset, color, mode, label), nontrivial=True)
                    res.feat("v9:forms:" + ("type+data" if label.startswith("type") else "instance") + ":" + mode)
                    try:
                        r, printed = captured(lambda: calls[label](color, mode))
                    except Exception as ex:  # noqa: BLE001
                        if (label == "instance-built-through-the-api" and color and isinstance(ex, AttributeError) and "_sizes" in str(ex)):
                            res.feat("v9:forms:api-instance:colour:AttributeError-_sizes")  # see the module docstring: reported, excluded
                            continue
                        viol(f"dumpstruct [{label}] of a structure that parses from these {n} bytes (offset={offset}, color={color}, "
                             f"output={mode!r}) raised {type(ex).__name__}: {str(ex)[:200]}", case)
                        bad = True
                        continue
                    if mode == "print":
                        if r is not None or not printed.endswith("\n"):
                            viol(f"dumpstruct [{label}] output='print' returned {norm(repr(r))[:80]} and printed {printed[-30:]!r}: it has to return None "
                                 "and print the dump", case)
                            bad = True
                            continue
                        outs[(label, mode, color)] = printed[:-1]
                    else:
                        if not isinstance(r, str) or printed:
                            viol(f"dumpstruct [{label}] output='string' returned {norm(repr(r))[:80]} and printed {printed[:30]!r}: it has to return the "
                                 "dump and print nothing", case)
                            bad = True
                            continue
                        outs[(label, mode, color)] = r

        # -- each text on its own: hex dump of exactly the bytes + every member with its value; colour off = no escape character
        for (label, mode, color), t in outs.items():
            case = dict(case0, color=color, output=mode, form=label)
            if not color and "\033" in t:
                viol(f"dumpstruct [{label}] with color=False puts escape sequences into the text: {t[:120]!r}", case)
                bad = True
                continue
            err = text_error(strip(t), S, obj, raw, offset)
            if err:
                viol(f"dumpstruct [{label}] (color={color}, output={mode!r}) of {n} bytes: {err}", case)
                bad = True
        if bad or not outs:
            continue
        # -- all styles / data types / conventions / modes agree; colour changes nothing but the colour codes
        for color in (False, True):
            same = [(k, t) for k, t in outs.items() if k[2] == color]
            ref_k, ref_t = same[0]
            for k, t in same[1:]:
                api = "api" in k[0] and color  # its palette may differ (no recorded sizes): equal up to the colour codes
                if (strip(norm(t)) != strip(norm(ref_t))) if api else (norm(t) != norm(ref_t)):
                    viol(f"dumpstruct [{k[0]}] output={k[1]!r} and [{ref_k[0]}] output={ref_k[1]!r} give different texts for the same {n} bytes "
                         f"(color={color})", dict(case0, color=color, output=k[1], form=k[0], other_form=ref_k[0]))
                    bad = True
                    break
        for (label, mode, color), t in outs.items():
            if color and (label, mode, False) in outs and strip(norm(t)) != norm(outs[(label, mode, False)]):
                viol(f"dumpstruct [{label}] with color=True differs from color=False in more than the colour codes",
                     dict(case0, color=True, output=mode, form=label))
                bad = True
                break
        # -- defaults: no further argument = offset 0, colour on, printed
        for label, fn in (("instance,defaults", lambda: U.dumpstruct(obj)), ("type+bytes,defaults", lambda: U.dumpstruct(S, raw))):
            case = dict(case0, color=True, output="print", form=label, offset=0)
            res.count(("v9:forms:defaults", text, endian, compiled, raw, label))
            try:
                r, printed = captured(fn)
                want = captured(lambda: U.dumpstruct(obj, offset=0, color=True, output="print"))[1]
            except Exception as ex:  # noqa: BLE001
                viol(f"dumpstruct [{label}] of a structure that parses from these {n} bytes raised {type(ex).__name__}: {str(ex)[:200]}", case)
                continue
            if r is not None or norm(printed) != norm(want):
                viol(f"dumpstruct [{label}] does not print what dumpstruct(instance, offset=0, color=True, output='print') prints", case)
        # -- no data handed over: ValueError, nothing printed
        for label, fn in (("type-alone", lambda: U.dumpstruct(S)), ("type+None", lambda: U.dumpstruct(S, None)),
                          ("type,data=None", lambda: U.dumpstruct(S, data=None, offset=offset, color=False, output="string"))):
            case = dict(case0, form=label)
            res.count(("v9:forms:nodata", text, compiled, label), nontrivial=False)
            res.feat("v9:forms:no-data")
            try:
                r, printed = captured(fn)
            except ValueError:
                continue
            except Exception as ex:  # noqa: BLE001
                viol(f"dumpstruct [{label}] (a structure type and no data) raised {type(ex).__name__}: {str(ex)[:160]}, not ValueError", case)
                continue
            viol(f"dumpstruct [{label}] (a structure type and no data) returned {norm(repr(r))[:60]} / printed {printed[:60]!r} instead of raising "
                 "ValueError", case)
        # -- the model: the instance dump and the type+data dump of the same bytes
        if lines is not None and not bad and (tier != "quick" or idx % 2 == 0 or n < 2):
            for label in ("instance", "type+bytes"):
                color = rnd.random() < 0.5
                t = outs.get((label, "string", color))
                if t is None:
                    continue
                try:
                    line = t6_c19.dumpstruct_model_line(obj, raw, offset, color)
                except Exception:  # noqa: BLE001   a structure the line cannot describe is not sent
                    res.feat("v9:forms:not-sent-to-the-model")
                    continue
                lines.append(line)
                metas.append(("dumpstruct", dict(case0, color=color, output="string", form=label), (t,)))
        if idx % 23 == 0:
            res.sample({"definition": text, "data": raw.hex(), "offset": offset, "forms": len(labels)}, cap=8)
