"""Shared plumbing of the checks: importing the real library from /repo's working tree, the S-expression
line protocol to the Lean model driver, lake build + axiom audit, evidence, known findings, replays.

Runs under /venv/bin/python (stdlib only).
"""
from __future__ import annotations

import fcntl
import hashlib
import json
import os
import random
import re
import subprocess
import sys
import time
from pathlib import Path

VERIF = Path(__file__).resolve().parent.parent
REPO = Path(os.environ.get("VERIF_REPO", "/repo"))
LEAN = VERIF / "lean"
DRIVER = LEAN / ".lake" / "build" / "bin" / "driver"
ALLOWED_AXIOMS = {"propext", "Classical.choice", "Quot.sound"}
FORBIDDEN = re.compile(r"\bsorry\b|\badmit\b|^\s*axiom\s|native_decide|bv_decide|implemented_by|\bunsafe\s|maxHeartbeats\s+0")

sys.dont_write_bytecode = True
os.environ["PYTHONDONTWRITEBYTECODE"] = "1"


class Infra(Exception):
    """Infrastructure failure: exit 2, never a violation."""


def import_repo():
    """Put /repo's working tree first on sys.path and make sure that is what gets imported."""
    p = str(REPO)
    if p in sys.path:
        sys.path.remove(p)
    sys.path.insert(0, p)
    for m in [m for m in sys.modules if m == "dissect" or m.startswith("dissect.")]:
        del sys.modules[m]
    import dissect.cstruct as dc  # noqa

    f = Path(dc.__file__).resolve()
    if REPO.resolve() not in f.parents:
        raise Infra(f"dissect.cstruct imported from {f}, not from {REPO}")
    return dc


# ------------------------------------------------------------------------------------------------ sexp

def q(s: str) -> str:
    out = ['"']
    for ch in s:
        o = ord(ch)
        if ch == '"':
            out.append('\\"')
        elif ch == "\\":
            out.append("\\\\")
        elif ch == "\n":
            out.append("\\n")
        elif ch == "\t":
            out.append("\\t")
        elif ch == "\r":
            out.append("\\r")
        elif o < 32 or o == 127:
            out.append("\\x%02x" % o)
        else:
            out.append(ch)
    out.append('"')
    return "".join(out)


def hx(b: bytes) -> str:
    return b.hex() if b else "-"


def sx(x) -> str:
    """Python value -> S-expression text. str -> quoted, Atom -> bare, int -> bare, bytes -> hex, list/tuple -> list."""
    if isinstance(x, Atom):
        return str.__str__(x)
    if isinstance(x, bool):
        return "true" if x else "false"
    if isinstance(x, int):
        return str(x)
    if isinstance(x, str):
        return q(x)
    if isinstance(x, (bytes, bytearray)):
        return hx(bytes(x))
    if isinstance(x, (list, tuple)):
        return "(" + " ".join(sx(e) for e in x) + ")"
    if x is None:
        return "none"
    raise TypeError(f"cannot encode {type(x)}")


class Atom(str):
    pass


A = Atom


def parse_sexp(s: str):
    """S-expression text -> nested lists; atoms -> Atom, strings -> str."""
    pos = 0
    n = len(s)

    def skip():
        nonlocal pos
        while pos < n and s[pos] == " ":
            pos += 1

    def one():
        nonlocal pos
        skip()
        if pos >= n:
            raise ValueError("eof")
        c = s[pos]
        if c == "(":
            pos += 1
            out = []
            while True:
                skip()
                if pos >= n:
                    raise ValueError("unclosed")
                if s[pos] == ")":
                    pos += 1
                    return out
                out.append(one())
        if c == '"':
            pos += 1
            buf = []
            while True:
                c = s[pos]
                if c == '"':
                    pos += 1
                    return "".join(buf)
                if c == "\\":
                    d = s[pos + 1]
                    if d == "n":
                        buf.append("\n")
                    elif d == "t":
                        buf.append("\t")
                    elif d == "r":
                        buf.append("\r")
                    elif d == "x":
                        buf.append(chr(int(s[pos + 2 : pos + 4], 16)))
                        pos += 2
                    else:
                        buf.append(d)
                    pos += 2
                else:
                    buf.append(c)
                    pos += 1
        st = pos
        while pos < n and s[pos] not in " ()":
            pos += 1
        return Atom(s[st:pos])

    return one()


def run_driver(lines: list[str]) -> list[str]:
    """Pipe the lines through the native model driver; one answer line per input line."""
    if not lines:
        return []
    if not DRIVER.exists():
        raise Infra("model driver is not built")
    for ln in lines:
        if "\n" in ln:
            raise Infra("newline inside a protocol line")
    inp = ("\n".join(lines) + "\n").encode("utf-8", "surrogatepass")
    p = subprocess.run([str(DRIVER)], input=inp, capture_output=True, timeout=1800)
    if p.returncode != 0:
        raise Infra(f"driver exited {p.returncode}: {p.stderr[-2000:]!r}")
    out = p.stdout.decode("utf-8", "replace").split("\n")
    if out and out[-1] == "":
        out.pop()
    if len(out) != len(lines):
        raise Infra(f"driver answered {len(out)} lines for {len(lines)} requests")
    return out


# ------------------------------------------------------------------------------------------------ lean

class LeanStatus:
    def __init__(self):
        self.ok = True
        self.driver_ok = True
        self.errors: list[str] = []  # human-readable reasons (build errors, audit failures)
        self.theorems: dict[str, list[str]] = {}  # theorem -> axioms
        self.obligations = 0
        self.discharged = 0
        self.checker_cmd = ""
        self.gen_changed: list[str] = []
        self.translate_errors: list[str] = []


def _lock():
    (LEAN / ".lake").mkdir(exist_ok=True)
    f = open(LEAN / ".lake" / "verif.lock", "w")
    fcntl.flock(f, fcntl.LOCK_EX)
    return f


def strip_comments(src: str) -> str:
    src = re.sub(r"/-.*?-/", "", src, flags=re.S)
    return re.sub(r"--.*", "", src)


def import_closure(modules: list[str]) -> list[Path]:
    """the project's own source files the given modules import, transitively"""
    seen: dict[str, Path] = {}
    todo = list(modules)
    while todo:
        m = todo.pop()
        if m in seen:
            continue
        f = LEAN / (m.replace(".", "/") + ".lean")
        if not f.exists():
            continue
        seen[m] = f
        for line in f.read_text().split("\n"):
            mm = re.match(r"\s*import\s+([\w.]+)", line)
            if mm:
                todo.append(mm.group(1))
    return list(seen.values())


def lean_step(prop: str, tier: str) -> LeanStatus:
    """Regenerate Gen/*.lean from /repo, build the property's proofs and the driver, audit axioms."""
    from . import translate

    st = LeanStatus()
    theorems = json.loads((VERIF / "theorems.json").read_text())
    entry = theorems[prop]
    modules = entry["modules"]
    names = entry["theorems"]
    st.obligations = len(names)
    st.checker_cmd = f"cd lean && lake build {' '.join(modules)} driver && lake env lean <audit of #print axioms>"
    lock = _lock()
    try:
        st.gen_changed, st.translate_errors = translate.regenerate(REPO, LEAN / "CstructModel" / "Gen")
        for e in st.translate_errors:
            st.ok = False
            st.errors.append(f"translator: {e}")
        env = dict(os.environ)
        p = subprocess.run(["lake", "build", "driver"], cwd=LEAN, capture_output=True, text=True, env=env, timeout=3000)
        if p.returncode != 0:
            st.driver_ok = False
            st.ok = False
            st.errors.append("model driver does not build against the regenerated tables:\n" + _tail(p.stdout + p.stderr))
        p = subprocess.run(["lake", "build", *modules], cwd=LEAN, capture_output=True, text=True, env=env, timeout=3000)
        if p.returncode != 0:
            st.ok = False
            st.errors.append("proof obligations do not build:\n" + _tail(p.stdout + p.stderr))
            return st
        # forbidden constructs in the sources of the property's modules and everything of ours they import
        for f in import_closure(modules):
            txt = strip_comments(f.read_text())
            for i, line in enumerate(txt.split("\n")):
                if FORBIDDEN.search(line):
                    st.ok = False
                    st.errors.append(f"forbidden construct in {f.relative_to(LEAN)}: {line.strip()[:120]}")
        audit = "\n".join([f"import {m}" for m in modules] + [f"#print axioms {n}" for n in names]) + "\n"
        p = subprocess.run(["lake", "env", "lean", "--stdin"], cwd=LEAN, input=audit, capture_output=True, text=True, env=env, timeout=3000)
        out = p.stdout + p.stderr
        for n in names:
            m = re.search(r"'" + re.escape(n) + r"' depends on axioms: \[([^\]]*)\]", out, flags=re.S)
            m0 = re.search(r"'" + re.escape(n) + r"' does not depend on any axioms", out)
            if m0:
                st.theorems[n] = []
            elif m:
                st.theorems[n] = [a.strip() for a in m.group(1).replace("\n", " ").split(",") if a.strip()]
            else:
                st.ok = False
                st.errors.append(f"audit: theorem {n} not found ({_tail(out, 400)})")
                continue
            bad = [a for a in st.theorems[n] if a not in ALLOWED_AXIOMS]
            if bad:
                st.ok = False
                st.errors.append(f"audit: theorem {n} depends on inadmissible axioms {bad}")
            else:
                st.discharged += 1
        if tier == "thorough" and st.ok:
            p = subprocess.run(["lake", "env", "leanchecker", *modules], cwd=LEAN, capture_output=True, text=True, env=env, timeout=3000)
            st.checker_cmd += f" && lake env leanchecker {' '.join(modules)}"
            if p.returncode != 0:
                st.ok = False
                st.errors.append("leanchecker rejected the compiled proofs:\n" + _tail(p.stdout + p.stderr))
    finally:
        lock.close()
    return st


def _tail(s: str, n: int = 3000) -> str:
    s = "\n".join(l for l in s.split("\n") if "conda" not in l)
    return s[-n:]


# ------------------------------------------------------------------------------------------------ results

class Case:
    """One failing or disagreeing case, ready to be written as a replay."""

    def __init__(self, kind: str, what: str, data: dict, signature: str | None = None):
        self.kind = kind  # "property" (predicate failed on the real code) | "corr" (model and code differ)
        self.what = what
        self.data = data
        self.signature = signature


class Result:
    def __init__(self):
        self.evaluations = 0
        self.keys: set[str] = set()  # hashes of distinct non-trivial cases
        self.samples: list = []
        self.features: dict[str, int] = {}
        self.violations: list[Case] = []  # property predicate failed on the real code (not a known finding)
        self.disagreements: list[Case] = []  # model/code differences
        self.known_seen: dict[str, int] = {}  # finding id -> count
        self.notes: list[str] = []
        self.exhaustive = False
        self.rule = ""

    def feat(self, k: str, n: int = 1):
        self.features[k] = self.features.get(k, 0) + n

    def count(self, key, nontrivial: bool = True):
        self.evaluations += 1
        if nontrivial:
            self.keys.add(hashlib.sha1(repr(key).encode("utf-8", "surrogatepass")).hexdigest()[:16])

    def sample(self, s, cap: int = 6):
        if len(self.samples) < cap:
            self.samples.append(s)


def load_findings() -> dict:
    return json.loads((VERIF / "known_findings.json").read_text())


def mkrng(seed: int, salt: str) -> random.Random:
    return random.Random(int(hashlib.sha256(f"{seed}:{salt}".encode()).hexdigest()[:16], 16))


def exc_class(e: BaseException) -> str:
    return type(e).__name__
