"""./check <ID> [--tier quick|thorough] [--replay FILE]

exit 0: property held on everything explored (known findings are printed as KNOWN-FINDING lines)
exit 1: VIOLATION property=<id> replay=<path> [no-failing-input-found]
exit 2: infrastructure failure (never a violation)
"""
from __future__ import annotations

import argparse
import importlib
import json
import os
import sys
import time
import traceback
from pathlib import Path

from . import cov  # noqa: F401  (VERIF_COVERAGE=<file>: diagnostic line coverage of the library, off by default)
from . import common
from .common import VERIF, Case, Infra, Result


def write_replay(prop: str, seed: int, n: int, case: Case | None, lean_errors: list[str], extra: dict | None = None, tier: str = "quick") -> Path:
    d = VERIF / "replays"
    d.mkdir(exist_ok=True)
    p = d / f"{prop}-{seed}-{n}.json"
    body = {"property": prop, "seed": seed, "tier": tier}
    if case is not None:
        body.update({"kind": case.kind, "what": case.what, "case": case.data})
    if lean_errors:
        body["broken_obligations"] = lean_errors
    if extra:
        body.update(extra)
    p.write_text(json.dumps(body, indent=1, default=repr))
    return p


def main(argv=None) -> int:
    ap = argparse.ArgumentParser()
    ap.add_argument("prop")
    ap.add_argument("--tier", default=os.environ.get("VERIF_TIER", "quick"), choices=["quick", "thorough"])
    ap.add_argument("--replay", default=None)
    ap.add_argument("--no-lean", action="store_true", help="development only: skip the Lean step")
    args = ap.parse_args(argv)
    prop = args.prop.upper()
    seed = int(os.environ.get("VERIF_SEED", "0") or 0)
    t0 = time.time()
    try:
        return run(prop, args.tier, seed, t0, args)
    except Infra as e:
        print(f"INFRA-FAILURE property={prop}: {e}", flush=True)
        return 2
    except Exception:
        traceback.print_exc()
        print(f"INFRA-FAILURE property={prop}: unexpected exception in the harness", flush=True)
        return 2


def witnesses_failing(findings) -> set[str]:
    """ids of the listed findings whose recorded witness (known_findings.json: witness.python, a snippet that sets `fails`) still
    fails on the library under test"""
    out = set()
    try:
        dc = common.import_repo()
    except Exception:  # noqa: BLE001
        return out
    for f in findings:
        code = (f.get("witness") or {}).get("python")
        if not code:
            continue
        ns = {"cstruct": dc.cstruct, "dc": dc}
        try:
            exec(compile(code, f"<witness {f['id']}>", "exec"), ns)  # noqa: S102 - our own committed snippets
            if ns.get("fails"):
                out.add(f["id"])
        except Exception:  # noqa: BLE001 - a witness that cannot even run still fails
            out.add(f["id"])
    return out


def replay(prop: str, mod, body: dict, findings) -> int:
    """exit 1 if the recorded violation still occurs on the current tree, 0 if it does not.
    First the module's own replay (re-evaluates the recorded case directly where it can); when that does not decide
    (returns 0 without declaring REPLAY_EXACT), the run that produced the replay is repeated with the recorded seed and tier
    - every random choice derives from the seed, so the same cases are generated - and the recorded case is looked up among
    its violations / disagreements."""
    if body.get("property") != prop:
        raise Infra(f"the replay file belongs to property {body.get('property')}, not {prop}")
    rc = mod.replay(body)
    if rc == 1:
        print("replay: the recorded case still fails on the current tree")
        return 1
    if getattr(mod, "REPLAY_EXACT", False):
        print("replay: the recorded case no longer fails on the current tree")
        return 0
    seed, tier = int(body.get("seed", 0)), body.get("tier", "quick")
    lean = common.lean_step(prop, "quick")
    env = {"tier": tier, "seed": seed, "lean": lean, "findings": findings, "driver_ok": lean.driver_ok and common.DRIVER.exists()}
    res = mod.run(env)
    if body.get("broken_obligations") and not lean.ok:
        print("replay: the recorded proof obligations are still broken:", *lean.errors[:3], sep="\n  ")
        return 1
    want = json.dumps(body.get("case"), sort_keys=True, default=repr)
    for c in res.violations + res.disagreements:
        if c.what == body.get("what") or json.dumps(c.data, sort_keys=True, default=repr) == want:
            print(f"replay: seed {seed} tier {tier} reproduces it: {c.what[:300]}")
            return 1
    for d in body.get("disagreements", []):
        for c in res.disagreements:
            if c.what == d.get("what"):
                print(f"replay: seed {seed} tier {tier} reproduces the disagreement: {c.what[:300]}")
                return 1
    print(f"replay: re-running seed {seed} tier {tier} on the current tree does not reproduce the recorded case "
          f"({len(res.violations)} violations, {len(res.disagreements)} disagreements this run)")
    return 0


def run(prop: str, tier: str, seed: int, t0: float, args) -> int:
    manifest = json.loads((VERIF / "MANIFEST.json").read_text())
    chk = [c for c in manifest["checks"] if c["property_id"] == prop]
    if not chk:
        raise Infra(f"{prop} is not a claimed property")
    mod = importlib.import_module(f"harness.props.{prop.lower()}")
    findings = [f for f in common.load_findings()["findings"] if prop in f["properties"]]

    if args.replay:
        return replay(prop, mod, json.loads(Path(args.replay).read_text()), findings)

    # 1. Lean: translator, proofs, audit, driver
    if args.no_lean:
        lean = common.LeanStatus()
        lean.obligations = lean.discharged = 0
    else:
        lean = common.lean_step(prop, tier)

    # 2. correspondence + property oracle on the real code
    env = {"tier": tier, "seed": seed, "lean": lean, "findings": findings, "driver_ok": lean.driver_ok and common.DRIVER.exists()}
    try:
        res: Result = mod.run(env)
    except Infra:
        raise
    except Exception as e:  # noqa: BLE001
        # The harness itself tripped while driving the library: on the unchanged tree this never happens, so the library no longer
        # behaves the way the correspondence expects (an attribute missing, a value of another shape, an output the oracle cannot
        # read). That is a broken correspondence, reported as such - with the traceback as the replay - not an infrastructure failure.
        tb = traceback.format_exc()
        res = Result()
        res.rule = "(the run was cut short by an exception in the harness)"
        res.evaluations = 1
        res.keys = {"harness-exception", "-"}
        res.sample({"harness_exception": f"{type(e).__name__}: {e}"})
        res.disagreements.append(Case("corr", f"the harness raised {type(e).__name__}: {str(e)[:200]} while driving the library - the "
                                      "library no longer behaves the way the correspondence run expects", {"traceback": tb[-3000:]}))

    # 3. classification
    exit_code = 0
    out_lines = []
    nrep = 0
    # every finding listed for this property: its recorded witness is re-evaluated on the current tree; the line is printed while
    # the witness still fails (a repaired defect prints nothing), whether or not the run's generators met the finding's territory
    still = witnesses_failing(findings)
    for f in findings:
        fid = f["id"]
        cnt = res.known_seen.get(fid)
        if fid in still or cnt:
            seen = f"seen on {cnt} cases this run" if cnt else "territory not met by this run's generators"
            wit = "witness still fails" if fid in still else "witness no longer fails"
            out_lines.append(f"KNOWN-FINDING: property={prop} {fid}: {f['what_fails']} ({wit}; {seen})")
    broken = (not lean.ok) or bool(res.disagreements)
    if res.violations:
        exit_code = 1
        for c in res.violations[:5]:
            p = write_replay(prop, seed, nrep, c, lean.errors, tier=tier)
            nrep += 1
            out_lines.append(f"VIOLATION property={prop} replay={p}")
    elif broken:
        # a proof obligation or the correspondence no longer checks and the search found no failing input
        exit_code = 1
        c = res.disagreements[0] if res.disagreements else None
        p = write_replay(
            prop, seed, nrep, c, lean.errors,
            {"note": "no input on which the property fails was found; the named theorem / correspondence no longer checks",
             "disagreements": [{"what": d.what, "case": d.data} for d in res.disagreements[:10]]},
            tier=tier,
        )
        out_lines.append(f"VIOLATION property={prop} replay={p} no-failing-input-found")

    # 4. evidence
    wall = time.time() - t0
    ck = chk[0]
    theorems = json.loads((VERIF / "theorems.json").read_text())[prop]
    ev = {
        "property_id": prop,
        "tier": tier,
        "seed": seed,
        "level": ck["level_claimed"]["category"],
        "coverage": {
            "obligations": lean.obligations,
            "discharged": lean.discharged,
            "checker_cmd": lean.checker_cmd,
            "trusted_base": theorems.get("trusted_base", []) + [
                "Lean 4.33.0 kernel; axioms admitted: propext, Classical.choice, Quot.sound (audited per theorem with #print axioms on every run)",
                "harness/translate.py (Python ast -> Gen/*.lean) and the correspondence harness (generators, canonicalisation, S-expression codec)",
                "CPython 3.12 semantics of the standard library calls the implementation makes",
            ],
            "theorems": {k: v for k, v in lean.theorems.items()},
            "evaluations": res.evaluations,
            "distinct_nontrivial": len(res.keys),
            "rule": res.rule,
            "samples": res.samples,
            "exhaustive": res.exhaustive,
            "disagreements_checked": res.evaluations,
            "model_code_disagreements": len(res.disagreements),
            "feature_histogram": dict(sorted(res.features.items())),
            "known_findings_seen": res.known_seen,
            "gen_tables_changed": lean.gen_changed,
            "lean_errors": lean.errors[:5],
            "notes": res.notes,
        },
        "assumptions": theorems.get("assumptions", []),
        "wall_s": round(wall, 2),
        "violations": len(res.violations) + (1 if (broken and not res.violations) else 0),
    }
    if lean.obligations == 0:
        # no theorem is registered for this property (yet): the proof-level keys are left out, the exploration-style counts stand
        ev["coverage"].pop("obligations")
        ev["coverage"].pop("discharged")
    if getattr(res, "programs", 0):
        ev["coverage"]["programs"] = res.programs
    if not args.no_lean:  # development runs without the Lean step never overwrite the evidence
        (VERIF / "evidence").mkdir(exist_ok=True)
        (VERIF / "evidence" / f"{prop}.json").write_text(json.dumps(ev, indent=1, default=repr) + "\n")
    for l in out_lines:
        print(l, flush=True)
    print(f"{prop} tier={tier} seed={seed}: theorems {lean.discharged}/{lean.obligations}, cases {res.evaluations} "
          f"({len(res.keys)} distinct non-trivial), disagreements {len(res.disagreements)}, violations {len(res.violations)}, "
          f"{wall:.1f}s", flush=True)
    return exit_code


if __name__ == "__main__":
    sys.exit(main())
