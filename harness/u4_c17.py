"""C17 probe (agent u4): equality / hash / bool after IN-PLACE modifications of container-valued fields.

The property: two instances are equal exactly when they are of the same type and all their fields are equal (hash equally
when equal and hashable; falsy exactly when all fields are).  The predicates are evaluated on instances whose state was
reached by changes that do NOT go through the top-level instance's `__setattr__`:

  * `x.a[i] = v`, `x.a[i] ^= m`                 an element of an integer array member (also `x.m[i][j]`),
  * `x.ps[i].f = v`                             a field of a structure that sits in an array member,
  * `x.s.f = v`, `x.s.r[i] = v`                 a field / an array element of a nested structure member,
  * `x.u.a[i] = v`, `x.us[i].ps[j].f = v`, ...  the same below a union member, an array of unions, a union in a union.

Definitions: on one cstruct instance small leaf structures, unions (members: integer arrays, arrays of structures, nested
structures with arrays, 2-D arrays, scalars) and structures holding scalars, arrays, nested structures, arrays of
structures, inline structures, unions and arrays of unions (up to three levels); compiled and interpreted, both
endiannesses.  Instances are parsed from bytes or value-initialised (keyword constructor with private copies of all
values) -- never default-constructed (shared defaults are known finding F8).

History: four instances made the same way from the same bytes: `a` (all changes), `d` (the same changes, applied
separately), `c` (all changes but the last), `b` (untouched).  After every change the pairs (a,b) (a,c) (a,d) (c,b) are
compared with the oracle, which is the property's own predicate applied recursively: same type and every field equal, where
structure-valued fields (and elements of arrays) are compared field by field again.  `==`, `!=` (both operand orders), the
hash of equal hashable instances and `bool()` (oracle: any field truthy, recursively for structure-valued fields; a
non-empty array is truthy like the list it is) are checked.

Unions: the library keeps the members of a union as separate values; a member changed in place leaves the other members
as they were parsed.  The oracle takes the member values as they are.  Changes below a union go through the member the
union is written from (the first-declared largest member); and an assignment that makes the union re-read all its members (a field
of a nested structure member assigned through the union's proxy) is not generated after an in-place change below that union:
changes through another member, and re-reads after an in-place change, are known finding F49 (witness in known_findings.json, printed as KNOWN-FINDING by the check); see
`ALLOW_STALE_UNION_MEMBERS` below (that territory is not generated here).
"""
from __future__ import annotations

from . import impl
from .structprops import rand_bytes

INTS = {"uint8": (1, False), "int8": (1, True), "uint16": (2, False), "int16": (2, True), "uint32": (4, False), "int32": (4, True),
        "uint24": (3, False), "uint64": (8, False)}

ALLOW_STALE_UNION_MEMBERS = False
if False:  # known finding F49 territory (u4, C17; not generated): on the UNMODIFIED tree `==` of unions looks only at the member the union is written from
    # (the first-declared largest member); the other members are separate values that an in-place change leaves stale:
    #  (1) cs.load("union w2 { uint32 b; uint8 a[4]; };"); x = cs.w2(b"\1\2\3\4"); y = cs.w2(b"\1\2\3\4"); y.a[0] = 9
    #      -> x.a != y.a, yet x == y is True (Union.__eq__ compares bytes(self), which serialises member `b` only);
    #  (2) cs.load("struct q { uint8 k; uint16 r[2]; }; union w { q s; uint32 b; };"); x = cs.w(bytes(5)); y = cs.w(bytes(5))
    #      x.s.r[0] = 7; y.s.r[0] = 7; y.s.k = 0      (the last assignment goes through the union's proxy and re-reads every member)
    #      -> x.b == 0 (stale), y.b == 0x700, yet x == y is True.
    # The property says "equal exactly when ... all their fields are equal".  Enable to generate such histories.
    ALLOW_STALE_UNION_MEMBERS = True


# ------------------------------------------------------------------------------------------------ definitions
# type descriptor: ("int", name) | ("arr", desc, n) | ("agg", kind, type name or None (inline), [(field, desc)])

def size_of(d):
    if d[0] == "int":
        return INTS[d[1]][0]
    if d[0] == "arr":
        return d[2] * size_of(d[1])
    sizes = [size_of(x) for _, x in d[3]]
    return max(sizes) if d[1] == "union" else sum(sizes)


def has_array(d):
    return d[0] == "arr" or (d[0] == "agg" and any(has_array(x) for _, x in d[3]))


def decl(d, name):
    """C declaration of a member `name` of type d"""
    dims = ""
    while d[0] == "arr":
        dims += f"[{d[2]}]"
        d = d[1]
    if d[0] == "int":
        return f"{d[1]} {name}{dims};"
    if d[2] is not None:
        return f"{d[2]} {name}{dims};"
    return f"{d[1]} {{ {' '.join(decl(x, n) for n, x in d[3])} }} {name}{dims};"


def gen_defs(rnd, tag):
    """-> (text, {name: desc}) : leaf structures, unions, structures; later ones use earlier ones"""
    types, lines = {}, []
    rint = lambda: ("int", rnd.choice(list(INTS)))  # noqa: E731
    small = lambda: ("int", rnd.choice(["uint8", "int8", "uint16", "int16"]))  # noqa: E731

    def add(kind, name, fields):
        types[name] = ("agg", kind, name, fields)
        lines.append(f"{kind} {name} {{ {' '.join(decl(x, n) for n, x in fields)} }};")

    # leaves: plain scalars (hashable) and one with an array
    for i in range(2):
        add("struct", f"{tag}L{i}", [(f"{'xyz'[k]}", small() if i == 0 else rint()) for k in range(rnd.randint(1, 3))])
    add("struct", f"{tag}LA", [("q", small()), ("r", ("arr", small(), rnd.randint(2, 3)))])
    leaves = [f"{tag}L0", f"{tag}L1", f"{tag}LA"]

    def container_member(depth_pool):
        r = rnd.random()
        if r < 0.22:
            return ("arr", rint(), rnd.randint(1, 4))
        if r < 0.30:
            return ("arr", ("arr", small(), 2), rnd.randint(1, 2))
        if r < 0.45:
            return types[rnd.choice(leaves)]
        if r < 0.62:
            return ("arr", types[rnd.choice(leaves)], rnd.randint(1, 3))
        if r < 0.70:
            return ("agg", "struct", None, [("q", small()), ("r", ("arr", small(), 2)), ("t", small())][: rnd.randint(2, 3)])
        if r < 0.80 or not depth_pool:
            return rint()
        t = types[rnd.choice(depth_pool)]
        return t if rnd.random() < 0.7 else ("arr", t, 2)

    unions, structs = [], []
    for i in range(rnd.randint(2, 3)):
        pool = unions + structs if i else []
        fields = [(f"m{k}", container_member(pool)) for k in range(rnd.randint(2, 3))]
        if not any(has_array(x) for _, x in fields):
            fields[0] = (fields[0][0], ("arr", rint(), rnd.randint(2, 4)))
        if rnd.random() < 0.8:
            fields.sort(key=lambda f: -size_of(f[1]))       # stable: the first-declared largest member leads
        fields = [(n, x) for n, x in fields]
        add("union", f"{tag}U{i}", fields)
        unions.append(f"{tag}U{i}")
        # a structure that holds unions, containers and scalars
        sf = []
        for k in range(rnd.randint(2, 5)):
            r = rnd.random()
            if r < 0.3:
                u = types[rnd.choice(unions)]
                sf.append((f"f{k}", u if rnd.random() < 0.7 else ("arr", u, 2)))
            elif r < 0.45:
                sf.append((f"f{k}", rint()))
            else:
                sf.append((f"f{k}", container_member(structs)))
        add("struct", f"{tag}S{i}", sf)
        structs.append(f"{tag}S{i}")
    # a hashable structure: nested structures only (in-place change of a nested field, hash and bool are observable)
    add("struct", f"{tag}H", [("a", small()), ("p", types[f"{tag}L0"]), ("inn", ("agg", "struct", None, [("q", small()), ("w", types[f"{tag}L0"])]))])
    return "\n".join(lines) + "\n", types, unions + structs + [f"{tag}H"]


# ------------------------------------------------------------------------------------------------ values

def unproxy(v):
    if type(v).__name__ == "UnionProxy":
        return object.__getattribute__(v, "__target__")
    return v


def is_struct(v):
    return isinstance(v, impl.dc().Structure)


def deep_eq(a, b):
    """the property's predicate, applied recursively to structure-valued fields and array elements"""
    a, b = unproxy(a), unproxy(b)
    if is_struct(a) or is_struct(b):
        return type(a) is type(b) and all(deep_eq(getattr(a, f._name), getattr(b, f._name)) for f in type(a).__fields__)
    if isinstance(a, list) and isinstance(b, list):
        return len(a) == len(b) and all(deep_eq(x, y) for x, y in zip(a, b))
    return a == b


def deep_bool(a):
    a = unproxy(a)
    if is_struct(a):
        return any(deep_bool(getattr(a, f._name)) for f in type(a).__fields__)
    return bool(a)


def deep_copy(v):
    v = unproxy(v)
    if is_struct(v):
        return type(v)(v.dumps())
    if isinstance(v, list):
        return [deep_copy(x) for x in v]
    return v


def show(v):
    v = unproxy(v)
    if is_struct(v):
        return "{" + ", ".join(f"{f._name}={show(getattr(v, f._name))}" for f in type(v).__fields__) + "}"
    if isinstance(v, list):
        return "[" + ", ".join(show(x) for x in v) + "]"
    return repr(int(v)) if isinstance(v, int) else repr(v)


def dump_member(d):
    """name of the member a union is written from: the first-declared among the largest"""
    best = max(size_of(x) for _, x in d[3])
    return next(n for n, x in d[3] if size_of(x) == best)


def leaf_ops(d, path=(), via_container=False, out=None):
    """every in-place change reachable below a value of type d: (path to the holder, 'item'|'attr', key, int type name).
    path elements: ('attr', name) | ('idx', i).  Only changes that bypass the top-level __setattr__ (path non-empty)."""
    out = [] if out is None else out
    if d[0] == "arr":
        for i in range(d[2]):
            if d[1][0] == "int":
                if path:
                    out.append((path, "item", i, d[1][1]))
            else:
                leaf_ops(d[1], path + (("idx", i),), True, out)
    elif d[0] == "agg":
        dm = dump_member(d) if d[1] == "union" else None
        for n, x in d[3]:
            if dm is not None and n != dm and not ALLOW_STALE_UNION_MEMBERS:
                continue
            if x[0] == "int":
                if path:
                    out.append((path, "attr", n, x[1]))
            else:
                leaf_ops(x, path + (("attr", n),), True, out)
    return out


def union_effects(d, op):
    """for every union the change steps through: (path prefix of the union, does the union re-read its members).  A union
    re-reads its members when the change is an attribute assignment reached from it through structure members only (those
    are proxied); an item assignment or a step through an array element leaves the union's other members as they were."""
    path, how, key, _ = op
    out = []
    for i, (kind, k) in enumerate(path + ((how, key),)):
        if d[0] == "agg" and d[1] == "union":
            out.append((path[:i], how == "attr" and all(kd == "attr" for kd, _ in path[i:])))
        if i < len(path):
            d = d[1] if kind == "idx" else dict(d[3])[k]
    return out


def holder(v, path):
    for kind, key in path:
        v = getattr(v, key) if kind == "attr" else v[key]
    return v


def path_text(path, how, key):
    s = "x"
    for kind, k in path:
        s += f".{k}" if kind == "attr" else f"[{k}]"
    return s + (f"[{key}]" if how == "item" else f".{key}")


def new_value(rnd, tname, old):
    size, signed = INTS[tname]
    bits = 8 * size
    lo, hi = (-(1 << (bits - 1)), (1 << (bits - 1)) - 1) if signed else (0, (1 << bits) - 1)
    r = rnd.random()
    if r < 0.3:
        return 0
    if r < 0.45:
        return rnd.choice([lo, hi, 1])
    if r < 0.6:
        v = int(old) ^ (1 << rnd.randrange(bits - 1))       # one bit flipped, sign bit left alone
        return v if lo <= v <= hi else hi
    return rnd.randint(lo, hi)


def apply(x, op, v, xor):
    path, how, key, _ = op
    h = holder(x, path)
    if how == "item":
        if xor is not None:
            h[key] ^= xor
        else:
            h[key] = v
    else:
        setattr(h, key, v)


# ------------------------------------------------------------------------------------------------ the probe

def run(env, res, viol, rnd, reps):
    dc = impl.dc()
    for rep in range(reps):
        endian = rnd.choice("<>")
        cs = dc.cstruct(endian=endian)
        tag = f"I{rep}_"
        text, types, tops = gen_defs(rnd, tag)
        compiled = rnd.random() < 0.5
        cd0 = {"definition": text, "endian": endian, "compiled": compiled}
        try:
            cs.load(text, compiled=compiled)
        except Exception as e:  # noqa: BLE001
            viol(f"definition with container members rejected: {type(e).__name__}: {e}", cd0)
            continue
        for tname in tops:
            d = types[tname]
            T = getattr(cs, tname)
            ops = leaf_ops(d)
            if not ops:
                continue
            size = size_of(d)
            if len(T) != size:
                viol(f"len({tname}) is {len(T)}, the packed layout has {size} bytes", dict(cd0, type=tname))
                continue
            for _inst in range(3):
                raw = rand_bytes(rnd, size) if rnd.random() < 0.8 else bytes(size)
                how_made = rnd.choice(["parse", "parse", "keywords"])
                cd = dict(cd0, type=tname, data=raw.hex(), made_by=how_made)

                def make():
                    x = T(raw)
                    if how_made == "parse":
                        return x
                    if d[1] == "union":
                        dm = dump_member(d)
                        return T(**{dm: deep_copy(getattr(x, dm))})
                    return T(**{f._name: deep_copy(getattr(x, f._name)) for f in T.__fields__})

                try:
                    a, b, c, dd = make(), make(), make(), make()
                except Exception as e:  # noqa: BLE001
                    viol(f"building an instance ({how_made}) raises {type(e).__name__}: {e}", cd)
                    continue
                history = []
                pending = None
                stale = set()        # unions (by path) below which an in-place change left members unrefreshed
                for step in range(rnd.randint(1, 4)):
                    op = rnd.choice(ops)
                    effects = union_effects(d, op)
                    if not ALLOW_STALE_UNION_MEMBERS and any(reread and any(s[:len(pre)] == pre for s in stale) for pre, reread in effects):
                        res.feat("u4:inplace:skipped (re-read of a union after an in-place change: pending finding)")
                        continue
                    stale.update(pre for pre, reread in effects if not reread)
                    path, how, key, ity = op
                    try:
                        h = holder(a, path)
                        old = h[key] if how == "item" else getattr(h, key)
                        v = new_value(rnd, ity, old)
                        xor = (int(old) ^ v) if how == "item" and rnd.random() < 0.4 and not INTS[ity][1] else None
                        if pending is not None:
                            apply(c, *pending)
                        apply(a, op, v, xor)
                        apply(dd, op, v, xor)
                        pending = (op, v, xor)
                    except Exception as e:  # noqa: BLE001
                        viol(f"in-place change {path_text(path, how, key)} = {v} raises {type(e).__name__}: {e}", dict(cd, history=history))
                        break
                    history.append(f"{path_text(path, how, key)} {'^= ' + str(xor) if xor is not None else '= ' + str(v)}")
                    under_union = bool(effects)
                    if any(reread for _, reread in effects):
                        res.feat("u4:inplace:through-a-union-proxy")
                    res.feat("u4:inplace:" + ("array-element" if how == "item" else "field-of-inner-structure"))
                    res.feat("u4:inplace:" + ("below-a-union" if under_union else "plain-structure"))
                    res.feat(f"u4:inplace:top-{d[1]}")
                    res.feat(f"u4:inplace:made-by-{how_made}")
                    pairs = [("changed instance vs untouched twin", a, b), ("changed instance vs twin without the last change", a, c),
                             ("changed instance vs twin with the same changes", a, dd), ("twin without the last change vs untouched twin", c, b)]
                    for what, p, q in pairs:
                        res.count((text, tname, raw, how_made, tuple(history), what), True)
                        cdp = dict(cd, history=list(history), pair=what)
                        try:
                            want = deep_eq(p, q)
                            eq, eq2, ne, ne2 = p == q, q == p, p != q, q != p
                        except Exception as e:  # noqa: BLE001
                            viol(f"comparing instances after in-place changes raises {type(e).__name__}: {e}", cdp)
                            continue
                        res.feat("u4:inplace:pair-" + ("equal" if want else "unequal"))
                        if not (eq == eq2 == want and ne == ne2 == (not want)):
                            viol(f"{tname} after {'; '.join(history)} ({what}): == gives {eq}/{eq2}, != gives {ne}/{ne2}, but comparing the fields one by one "
                                 f"gives {want}: {show(p)[:300]} vs {show(q)[:300]}", cdp)
                            continue
                        if want:
                            try:
                                hp, hq = hash(p), hash(q)
                                res.feat("u4:inplace:hash-compared")
                                if hp != hq:
                                    viol(f"{tname} after {'; '.join(history)} ({what}): equal instances hash differently ({hp} vs {hq})", cdp)
                            except TypeError:
                                res.feat("u4:inplace:unhashable (array fields)")
                    try:
                        for what, p in (("changed instance", a), ("untouched twin", b)):
                            wantb = deep_bool(p)
                            res.feat("u4:inplace:bool-" + ("truthy" if wantb else "falsy"))
                            if bool(p) != wantb:
                                viol(f"{tname} after {'; '.join(history)} ({what}): bool() is {bool(p)}, any(fields) is {wantb}: {show(p)[:300]}",
                                     dict(cd, history=list(history)))
                    except Exception as e:  # noqa: BLE001
                        viol(f"bool() after in-place changes raises {type(e).__name__}: {e}", dict(cd, history=list(history)))
