"""C12 alias probes (agent t3): "members compare equal to their integer value and to same-class members with that value".

Enum and flag declarations in which several members name one value, built on purpose in every way the syntax offers: a repeated
literal (`READ = 1, LIST = 1`), the name of an earlier member (`LIST = READ`), an expression that lands on an earlier value
(`M3 = M1 + 0`, `ALL = 3` after `RW = READ | WRITE`), an implicit member that collides with an explicit one
(`A, B = 0, C`), zero named twice, composite flag values named by one, two or three members.  Per declaration the laws are
evaluated on the real classes
  * between EVERY pair of members of the class: `a == b`, `b == a`, `not (a != b)`, `not (b != a)` iff the values agree;
  * between every member and its integer value, in both directions;
  * between every member and the objects obtained for a value from data - parsed as scalar from bytes, as element of `E[2]`,
    as scalar / array element / bit-field of a structure (interpreted and compiled), `E(int)`, and for flags the `a | b`
    of two members -, in both directions, for the member values, combinations of flag members and unnamed values;
  * those objects for one value are mutually equal and have equal hashes ("two parses of the same underlying value").
"""
from __future__ import annotations

import itertools

BASES = {"uint8": (1, False), "int8": (1, True), "uint16": (2, False), "int16": (2, True), "uint32": (4, False), "int32": (4, True),
         "uint64": (8, False), "int64": (8, True), "uint24": (3, False), "int24": (3, True), "uint128": (16, False)}
NAMES = ["READ", "LIST", "WRITE", "CREATE", "EXEC", "RW", "ALL", "NONE", "M8", "M9"]


def gen_alias_members(rnd, is_flag, signed, oracle):
    """-> [(name, expr | None)] with at least one value named by two members; values stay within 0..0x7f (enums over a signed type
    may go down to -5) so that every underlying type holds them"""
    n = rnd.randint(2, 8)
    out = []

    def vals():
        return oracle(is_flag, out, {"K1": 4})

    for i in range(n):
        nm = NAMES[i]
        cur = vals()
        r = rnd.random()
        if not out or r < 0.22:
            pool = [1, 2, 4, 8, 0x10, 0x20, 0, 3, 6] if is_flag else [0, 1, 2, 5, 7, 10, 100] + ([-1, -5] if signed else [])
            v = rnd.choice(pool)
            out.append((nm, rnd.choice([str(v), hex(v) if v >= 0 else str(v)])))
        elif r < 0.36:
            out.append((nm, None))                                  # implicit: may collide with an explicit value
        elif r < 0.56:
            v = cur[rnd.choice(list(cur))]
            out.append((nm, rnd.choice([str(v), hex(v) if v >= 0 else str(v)])))     # the literal once more
        elif r < 0.72:
            out.append((nm, rnd.choice(list(cur))))                 # the name of an earlier member
        elif r < 0.86 and len(cur) >= 2:
            a, b = rnd.sample(list(cur), 2)
            if is_flag:
                out.append((nm, rnd.choice([f"{a} | {b}", f"{b} | {a}", f"({a} | {b}) & 0x7f"])))   # composite value, named
            else:
                out.append((nm, rnd.choice([f"{a} + 0", f"{a} * 1", f"({a} + {b}) - {b}"])))
        else:
            a = rnd.choice(list(cur))
            out.append((nm, rnd.choice([f"{a} + 0", f"{a} & {a}", f"{a} | 0", f"K1 - 4 + {a}"])))
    cur = vals()
    groups = {}
    for k, v in cur.items():
        groups.setdefault(v, []).append(k)
    if not any(len(g) > 1 for g in groups.values()):
        a = rnd.choice(list(cur))
        out.append((NAMES[len(out)], rnd.choice([a, str(cur[a])])))
    elif is_flag and rnd.random() < 0.5:
        # a composite of two earlier members as a literal: a value that the stdlib would otherwise build as pseudo-member
        a, b = rnd.sample(list(cur), 2) if len(cur) >= 2 else (list(cur)[0],) * 2
        out.append((NAMES[len(out)], hex(cur[a] | cur[b])))
    return out


def _eqlaws(x, y, same):
    """the four comparisons of x and y -> description of the first that disagrees with `same` | None"""
    for text, got in ((f"{x!r} == {y!r}", x == y), (f"{y!r} == {x!r}", y == x)):
        if bool(got) != same:
            return f"{text} is {bool(got)}"
    for text, got in ((f"{x!r} != {y!r}", x != y), (f"{y!r} != {x!r}", y != x)):
        if bool(got) == same:
            return f"{text} is {bool(got)}"
    return None


def alias_probes(rnd, res, viol, dc, tier, oracle):
    for i in range(160 if tier == "quick" else 2500):
        is_flag = rnd.random() < 0.55
        base = rnd.choice(list(BASES))
        size, signed = BASES[base]
        try:
            members = gen_alias_members(rnd, is_flag, signed, oracle)
            want = oracle(is_flag, members, {"K1": 4})
        except Exception:  # noqa: BLE001 - an expression the oracle cannot evaluate: not a case
            continue
        if any(not (-5 <= v <= 0x7f) or (v < 0 and (is_flag or not signed)) for v in want.values()):
            continue
        kw = "flag" if is_flag else "enum"
        body = ", ".join(n if e is None else f"{n} = {e}" for n, e in members)
        endian = rnd.choice("<>")
        compiled = rnd.random() < 0.5
        text = f"#define K1 4\n{kw} A{i} : {base} {{ {body} }};\nstruct SA{i} {{ A{i} one; A{i} arr[2]; A{i} lo : 3; A{i} hi : 5; }};"
        data = {"declaration": text, "endian": endian, "compiled": compiled,
                "repro": f"from dissect.cstruct import cstruct; cs = cstruct(endian={endian!r}); cs.load({text!r}, compiled={compiled}); E = cs.A{i}; S = cs.SA{i}"}
        cs = dc.cstruct(endian=endian)
        try:
            cs.load(text, compiled=compiled)
        except Exception as e:  # noqa: BLE001
            viol(f"declaration with duplicate values rejected: {type(e).__name__}: {e}", data)
            continue
        E, S = getattr(cs, f"A{i}"), getattr(cs, f"SA{i}")
        mem = dict(E.__members__)
        got = {k: int(m.value) for k, m in mem.items()}
        res.count((text, "alias-members"), True)
        if got != want:
            viol(f"member values {got}, C numbering gives {want}", data)
            continue
        groups = {}
        for k, v in want.items():
            groups.setdefault(v, []).append(k)
        big = max(len(g) for g in groups.values())
        res.feat(f"alias:{kw}:largest-group-of-same-valued-members=" + (str(big) if big < 4 else ">=4"))
        if 0 in groups and len(groups[0]) > 1:
            res.feat(f"alias:{kw}:zero-named-twice")
        if is_flag and any(len(g) > 1 and v & (v - 1) for v, g in groups.items()):
            res.feat("alias:flag:composite-value-named-by-several-members")
        # ---- every pair of members, every member and its integer
        bad = None
        for (ka, a), (kb, b) in itertools.combinations_with_replacement(mem.items(), 2):
            same = want[ka] == want[kb]
            res.count((text, "pair", ka, kb), True)
            if ka != kb:
                res.feat(f"alias:{kw}:pair:" + ("same-value" if same else "different-values"))
            bad = _eqlaws(a, b, same)
            if bad:
                viol(f"members {ka} (value {want[ka]}) and {kb} (value {want[kb]}) of one {kw}: {bad}", dict(data, members=want))
                break
        for k, m in mem.items():
            v = want[k]
            bad = _eqlaws(m, v, True) or _eqlaws(m, v + 1, False)
            if bad:
                viol(f"member {k} = {v} and its integer value: {bad}", dict(data, members=want))
                break
        # NOT A CLAIM OF C12 (observation): `hash(a) == hash(b)` for two same-valued members of one class (a == b holds) does NOT hold on the
        # unmodified library - Enum/Flag.__hash__ hash (class, name, value), so `hash(Perm.READ) != hash(Perm.LIST)` although
        # `Perm.READ == Perm.LIST`, and `{Perm.READ: 1}[Perm(b"\x01")]` raises KeyError (the parse yields LIST).  C12 states hash
        # equality only for two parses of the same underlying value, so this stricter predicate is not evaluated (it would demand more than the property states).
        if False:  # stricter than C12
            for g in groups.values():
                for ka, kb in itertools.combinations(g, 2):
                    if hash(mem[ka]) != hash(mem[kb]):
                        viol(f"members {ka} and {kb} compare equal but have different hashes", dict(data, members=want))
        # ---- objects obtained from data for one value, against every member
        order = "little" if endian == "<" else "big"
        bits = 8 * size
        lo_, hi_ = (-(1 << (bits - 1)), (1 << (bits - 1)) - 1) if signed else (0, (1 << bits) - 1)
        mv = sorted(set(want.values()))
        cand = set(mv)
        if is_flag:
            cand |= {a | b for a, b in itertools.combinations(mv, 2)}
            cand.add(0)
        cand |= {max(mv) + 1, 0x55}
        cand = sorted(v for v in cand if lo_ <= v <= hi_ and (v >= 0 or not is_flag))
        if tier == "quick" and len(cand) > 10:
            cand = sorted(set(mv[:6]) | set(rnd.sample(cand, 4)))
        small = [v for v in mv if 0 <= v < 8] or [1]
        for v in cand:
            raw = v.to_bytes(size, order, signed=signed)
            v2 = rnd.choice(mv)
            # the bit-field unit: lo takes the first 3 bits, hi the next 5 (from the low end when little endian, from the top otherwise)
            blo = v if 0 <= v < 8 else rnd.choice(small)
            bhi = v if 0 <= v < 32 else rnd.choice(small)
            unit = (blo | bhi << 3) if endian == "<" else (blo << (bits - 3) | bhi << (bits - 8))
            sraw = raw + v2.to_bytes(size, order, signed=signed) + raw + unit.to_bytes(size, order)
            d2 = dict(data, value=v, bytes=raw.hex(), struct_bytes=sraw.hex(), members=want)
            d2["repro"] += f"; x = E(bytes.fromhex({raw.hex()!r})); s = S(bytes.fromhex({sraw.hex()!r})); print(repr(x), s, [(m, x == m, m == x) for m in E.__members__.values()])"
            objs = []
            try:
                objs.append(("E(bytes)", E(raw)))
                objs.append(("E[2](bytes)[1]", E[2](raw + raw)[1]))
                objs.append(("E(int)", E(v)))
                s = S(sraw)
                objs += [("struct field", s.one), ("struct array element", s.arr[1]), ("bit-field lo:3", s.lo), ("bit-field hi:5", s.hi)]
                if is_flag:
                    pairs = [(ka, kb) for ka, kb in itertools.combinations(want, 2) if want[ka] | want[kb] == v]
                    for ka, kb in (rnd.sample(pairs, 2) if len(pairs) > 2 else pairs):
                        objs.append((f"{ka} | {kb}", mem[ka] | mem[kb]))
            except Exception as e:  # noqa: BLE001
                viol(f"obtaining value {v} from data raises {type(e).__name__}: {e}", d2)
                continue
            res.count((text, "value", v), True)
            done = False
            for how, x in objs:
                xv = int(x.value)
                if not how.startswith("bit-field") and xv != v:
                    viol(f"{how}: the object has value {xv}, the underlying integer is {v}", d2)
                    done = True
                    break
                named = [k for k in want if want[k] == xv]
                res.feat(f"alias:{kw}:{how if '|' not in how else 'a | b'}:" +
                         ("value-named-by-several-members" if len(named) > 1 else "value-named-once" if named else "unnamed-value"))
                for k, m in mem.items():
                    bad = _eqlaws(x, m, want[k] == xv)
                    if bad:
                        viol(f"{how} for value {xv} gives {x!r}; member {k} has value {want[k]}: {bad}", d2)
                        done = True
                        break
                if done:
                    break
                bad = _eqlaws(x, xv, True)
                if bad:
                    viol(f"{how} for value {xv} gives {x!r}: {bad}", d2)
                    break
            if done:
                continue
            # two parses of the same underlying value: equal objects, equal hashes
            parsed = [(how, x) for how, x in objs if "|" not in how]
            for (ha, a), (hb, b) in itertools.combinations(parsed, 2):
                if int(a.value) != int(b.value):
                    continue
                bad = _eqlaws(a, b, True)
                if bad is None and hash(a) != hash(b):
                    bad = f"hash({a!r}) != hash({b!r})"
                if bad:
                    viol(f"value {int(a.value)} obtained as {ha} and as {hb}: {bad}", d2)
                    break
