"""Helpers for the C16 check (agent t5): histories on ONE cstruct instance in which the configured pointer type changes between
declarations.

A history is a sequence of phases.  Every phase configures a pointer width (the first through the constructor or by assigning
`cs.pointer` before anything is declared, the later ones by assigning `cs.pointer`), then makes pointers in the ways a user can
(`T *x` / `T *x[2]` / `T **x` members of a loaded structure, a `typedef T *name;`, `cs._make_pointer(T)`) to targets that already
had a pointer made under an earlier width ("old" targets) and to targets that never had one ("new": built-in types not used so
far, structures declared in this phase).  For every structure declared in a phase the C16 predicates are evaluated under the
width in effect when it was declared, while that width is still in effect:

 * layout: every pointer slot is exactly `width` bytes (offsets / size from the C layout rule with the configured pointer type's
   size and alignment; len(struct) == bytes consumed by a parse == bytes dumped),
 * the pointer values are the unsigned integers stored in those slots, and the fields between and behind the pointers read what
   was stored at their offsets,
 * dereferencing gives what parsing the target at that absolute offset gives (a separately configured instance with this width
   from the start supplies the target type; NUL-terminated string for char, nothing for void), leaves the stream where it was,
   is stable; null raises NullPointerDereference; `p + 1` is a pointer of the same type on the same stream,
 * dumping (the parsed object, and an object constructed from the integers) writes the addresses back unchanged.

Structures declared in an earlier phase are not looked at again after the switch (the property speaks about the configured
width; what an old class does under a new configuration is not stated).
"""
from __future__ import annotations

import io

from . import defs, impl
from .common import A
from .s2_ptr import ALL_PTRS

BUILTIN_TARGETS = ["uint8", "int16", "uint32", "uint24", "double", "char", "wchar", "void", "E8", "uint64", "int8", "F16"]
FIXED_STRUCT = "struct {name} {{ uint8 x; uint16 y; char s[3]; }};"
DYN_STRUCT = "struct {name} {{ uint8 n; uint8 d[n & 3]; }};"


def c_layout(fields, psz, palign, align):
    """fields: [(name, kind, count)], kind in u8/u16/ptr -> ({name: offset}, size) by the C rule"""
    off, maxal, out = 0, 1, {}
    for name, kind, cnt in fields:
        sz, al = {"u8": (1, 1), "u16": (2, 2), "ptr": (psz, palign)}[kind]
        if align:
            off += -off % al
            maxal = max(maxal, al)
        out[name] = off
        off += sz * cnt
    if align:
        off += -off % maxal
    return out, off


def gen_shape(rnd):
    """-> list of members: (name, kind, count, role) with role in scalar/ptr/ptrarr/ptrptr; there is always a scalar directly
    behind the first pointer (what is misread when the slot has the wrong width) and a scalar at the end"""
    m = []
    if rnd.random() < 0.6:
        m.append(("a", "u8", 1, "scalar"))
    m.append(("p", "ptr", 1, "ptr"))
    m.append(("mid", "u8", 1, "scalar"))
    if rnd.random() < 0.5:
        m.append(("q", "ptr", 2, "ptrarr"))
    if rnd.random() < 0.4:
        m.append(("pp", "ptr", 1, "ptrptr"))
    if rnd.random() < 0.3:
        m.append(("r", "ptr", 1, "ptr"))
    m.append(("z", "u16", 1, "scalar"))
    return m


def render(name, shape, targets):
    """targets: {member name: target type name}"""
    lines = []
    for nm, kind, cnt, role in shape:
        if role == "scalar":
            lines.append(f"  {'uint8' if kind == 'u8' else 'uint16'} {nm};")
        elif role == "ptr":
            lines.append(f"  {targets[nm]} *{nm};")
        elif role == "ptrarr":
            lines.append(f"  {targets[nm]} *{nm}[{cnt}];")
        else:
            lines.append(f"  {targets[nm]} **{nm};")
    return f"struct {name} {{\n" + "\n".join(lines) + "\n};\n"


def expect_deref(refT, tname, data, addr):
    """what dereferencing a pointer to `tname` at `addr` must give: ('null',) | ('ok', canon) | ('err', class)"""
    if addr == 0:
        return ("null",)
    if tname == "void":
        return ("ok", [A("void")])
    if tname == "char":
        end = data.find(b"\x00", addr) if addr <= len(data) else -1
        return ("ok", [A("bytes"), data[addr:end]]) if end >= 0 else ("err", "EOFError")
    r = impl.parse(refT, data, addr)
    return ("ok", impl.canon(r[1])) if r[0] == "ok" else r


def widths_histories(rnd, tier):
    """sequences of pointer widths; thorough: every ordered pair (A, B) starts a history"""
    names = list(ALL_PTRS)
    out = []
    if tier == "thorough":
        for a in names:
            for b in names:
                if a != b:
                    out.append([a, b] + [rnd.choice(names) for _ in range(rnd.randint(0, 2))])
    for _ in range(5 if tier == "quick" else 30):
        seq = names[:]
        rnd.shuffle(seq)
        seq += [rnd.choice(names) for _ in range(3)]          # revisits: A -> B -> A
        out.append(seq)
    return [[w for i, w in enumerate(seq) if i == 0 or seq[i - 1] != w] for seq in out]


def run_history(m, widths, endian, rnd, tier, res, viol):
    """one instance, one phase per entry of `widths`"""
    NullPointerDereference = m.NullPointerDereference
    first_by_ctor = rnd.random() < 0.5
    ses = impl.Session(endian=endian, pointer=widths[0]) if first_by_ctor else impl.Session(endian=endian)
    order = "little" if endian == "<" else "big"
    used: dict[str, str] = {}          # target name -> width under which its first pointer was made
    unused = BUILTIN_TARGETS[:]
    rnd.shuffle(unused)
    target_texts: list[str] = []       # definitions of the structure targets declared so far (for the reference instance)
    nstruct = 0

    for phase, pname in enumerate(widths):
        psz = ALL_PTRS[pname]
        if phase or not first_by_ctor:
            ses.set_pointer(pname)
        palign = ses.cs.pointer.alignment
        top = (1 << (8 * psz)) - 1
        switched = phase > 0

        # targets declared in this phase
        if rnd.random() < 0.5:
            nstruct += 1
            tn = f"TS{nstruct}" if rnd.random() < 0.7 else f"TD{nstruct}"
            text = (FIXED_STRUCT if tn.startswith("TS") else DYN_STRUCT).format(name=tn)
            ses.load_text(text)
            target_texts.append(text)
            unused.insert(0, tn)

        def pick_target():
            """-> (name, 'old'|'new')"""
            if used and (rnd.random() < 0.6 or not unused):
                return rnd.choice(sorted(used)), "old"
            t = unused.pop(0)
            return t, "new"

        # reference: an instance configured with this width from the start
        ref = m.cstruct(endian=endian, pointer=pname)
        ref.load(defs.PREAMBLE + "".join(target_texts))

        for _s in range(rnd.randint(2, 3)):
            # other ways of making a pointer under this width (their classes are not looked at later)
            r = rnd.random()
            if r < 0.15:
                t, _ = pick_target()
                ses.note(f"cs._make_pointer(cs.resolve({t!r}))")
                ses.cs._make_pointer(ses.cs.resolve(t))
                used.setdefault(t, pname)
                res.feat("reconfig:pointer-made-by:_make_pointer")
            elif r < 0.3:
                t, _ = pick_target()
                nstruct += 1
                ses.load_text(f"typedef {t} *PT{nstruct};")
                used.setdefault(t, pname)
                res.feat("reconfig:pointer-made-by:typedef")

            nstruct += 1
            name = f"R{nstruct}"
            shape = gen_shape(rnd)
            targets, ages = {}, {}
            for nm, kind, cnt, role in shape:
                if role != "scalar":
                    targets[nm], ages[nm] = pick_target()
            compiled, align = rnd.random() < 0.5, rnd.random() < 0.4
            text = render(name, shape, targets)
            stale = sorted({used[t] for nm, t in targets.items() if ages[nm] == "old" and used[t] != pname})
            cd0 = {"script": None, "definition": text, "struct": name, "endian": endian, "compiled": compiled, "align": align,
                   "pointer": pname, "phase": phase, "widths_so_far": widths[:phase + 1], "first_width_by_constructor": first_by_ctor,
                   "targets": targets, "targets_with_a_pointer_made_under_another_width": {t: used[t] for t in targets.values() if t in used and used[t] != pname}}
            try:
                ses.load_text(text, compiled=compiled, align=align)
                T = getattr(ses.cs, name)
            except Exception as e:  # noqa: BLE001
                cd0["script"] = ses.script()
                viol(f"definition with {pname} pointers (configured by cs.pointer = ... on a used instance) rejected: {type(e).__name__}: {e}", cd0)
                continue
            for nm, t in targets.items():
                used.setdefault(t, pname)
            cd0["script"] = ses.script()
            res.feat("reconfig:struct-declared" + ("-after-switch" if switched else "-first-width"))
            res.feat(f"reconfig:ptr:{pname}")
            if stale:
                res.feat("reconfig:struct-with-old-target-from-other-width")
            if switched and any(a == "new" for a in ages.values()):
                res.feat("reconfig:struct-with-new-target-after-switch")
            res.feat(f"reconfig:compiled-flag:{bool(T.__compiled__)}")
            res.feat(f"reconfig:align:{align}")

            # ---- layout: every pointer slot is exactly the configured width
            offs, hdr = c_layout([(nm, kind, cnt) for nm, kind, cnt, _ in shape], psz, palign, align)
            got_offs = {f._name: f.offset for f in T.__fields__}
            try:
                tlen = len(T)
            except Exception as e:  # noqa: BLE001
                tlen = f"{type(e).__name__}"
            if got_offs != offs or T.size != hdr or tlen != hdr:
                viol(f"a pointer field declared while cs.pointer is {pname} does not occupy {psz} bytes: offsets {got_offs}, size {T.size}, "
                     f"len {tlen}; with {psz}-byte pointers the layout is {offs}, size {hdr}", cd0)
                continue
            bad = [nm for nm, kind, cnt, role in shape if role != "scalar" and T.fields[nm].type.size != psz * cnt]
            if bad:
                viol(f"the type of pointer member(s) {bad} declared while cs.pointer is {pname} does not have size {psz}: "
                     f"{[T.fields[nm].type.size for nm in bad]}", cd0)
                continue
            try:
                ref.load(text, compiled=compiled, align=align)
                RT = getattr(ref, name)
                if (RT.size, [f.offset for f in RT.__fields__]) != (T.size, [f.offset for f in T.__fields__]):
                    viol(f"layout {(T.size, [f.offset for f in T.__fields__])} differs from the same declaration on an instance configured "
                         f"with pointer={pname} from the start {(RT.size, [f.offset for f in RT.__fields__])}", cd0)
            except Exception as e:  # noqa: BLE001
                viol(f"reference instance (pointer={pname} from the start) rejects the declaration: {type(e).__name__}: {e}", cd0)
                continue

            total = hdr + (120 if psz > 1 else 200 - min(hdr, 80))
            for _d in range(2 if tier == "quick" else 4):
                buf = bytearray(total)
                buf[hdr:] = bytes(rnd.choice([0, 1, 2, 0x41, 0x42, 0x7F, 0x80, 0xFF, rnd.randrange(256)]) for _ in range(total - hdr))

                def addr_choice():
                    hi = min(total - 1, top)
                    return rnd.choice([0, rnd.randint(min(hdr, hi), hi), rnd.randint(min(hdr, hi), hi), hi, min(total + rnd.randint(0, 5), top),
                                       rnd.randint(1, min(total + 3, top))])

                planted, inner = {}, {}
                for nm, kind, cnt, role in shape:
                    if role == "scalar":
                        v = rnd.randrange(1, 256) if kind == "u8" else rnd.randrange(1, 65536)
                        planted[nm] = v
                        buf[offs[nm]:offs[nm] + (1 if kind == "u8" else 2)] = v.to_bytes(1 if kind == "u8" else 2, order)
                    elif role == "ptrptr":
                        hi = min(total - psz - 1, top)
                        slot = rnd.randint(min(hdr, hi), hi)
                        planted[nm] = slot
                        buf[offs[nm]:offs[nm] + psz] = slot.to_bytes(psz, order)
                    else:
                        vals = [addr_choice() for _ in range(cnt)]
                        planted[nm] = vals if role == "ptrarr" else vals[0]
                        for i, v in enumerate(vals):
                            buf[offs[nm] + i * psz:offs[nm] + (i + 1) * psz] = v.to_bytes(psz, order)
                for nm, kind, cnt, role in shape:     # the inner pointers last: they live in the payload
                    if role == "ptrptr":
                        inner[nm] = addr_choice()
                        buf[planted[nm]:planted[nm] + psz] = inner[nm].to_bytes(psz, order)
                data = bytes(buf)
                head = data[:hdr]
                cd = dict(cd0, data=data.hex(), stored=planted)
                res.count(("reconfig", tuple(widths[:phase + 1]), endian, compiled, align, text, data), switched)
                stream = io.BytesIO(data)
                try:
                    o = T(stream)
                except Exception as e:  # noqa: BLE001
                    viol(f"parsing a structure with pointers declared while cs.pointer is {pname} raises {type(e).__name__}: {e}", cd)
                    continue
                endpos = stream.tell()
                got = {}
                for nm, kind, cnt, role in shape:
                    v = getattr(o, nm)
                    got[nm] = [int(x) for x in v] if role == "ptrarr" else int(v)
                if got != planted or endpos != hdr:
                    viol(f"members read {got} (consumed {endpos} bytes); the unsigned integers stored in the {psz}-byte pointer slots and the "
                         f"fields around them are {planted} ({hdr} bytes)", cd)
                    continue
                notptr = [nm for nm, kind, cnt, role in shape if role in ("ptr", "ptrptr") and not isinstance(getattr(o, nm), m.Pointer)]
                if notptr:
                    viol(f"members {notptr} are not pointers", cd)
                    continue
                # ---- dumping writes the addresses back unchanged, len(struct) == consumed == dumped
                try:
                    dumped = o.dumps()
                    kw = {nm: planted[nm] for nm, *_ in shape}
                    dumped2 = T(**kw).dumps()
                except Exception as e:  # noqa: BLE001
                    viol(f"dumping a structure with pointers declared while cs.pointer is {pname} raises {type(e).__name__}: {e}", cd)
                    continue
                for what, b in (("dumps() of the parsed structure", dumped), ("dumps() of a structure constructed from the integers", dumped2)):
                    same = b == head if not align else (len(b) == hdr and all(
                        b[offs[nm]:offs[nm] + w] == head[offs[nm]:offs[nm] + w]
                        for nm, kind, cnt, role in shape for w in [{"u8": 1, "u16": 2, "ptr": psz}[kind] * cnt]))
                    if not same:
                        viol(f"{what} does not write the addresses back unchanged: wrote {b.hex()} ({len(b)} bytes), read from {head.hex()} "
                             f"({hdr} bytes, len(struct) {tlen}, consumed {endpos})", dict(cd, wrote=b.hex()))
                # ---- dereference
                def check(ptrobj, tname, addr, what):
                    refT = None if tname in ("void", "char") else ref.resolve(tname)
                    want = expect_deref(refT, tname, data, addr)
                    res.count(("reconfig-deref", pname, endian, compiled, tname, addr, data), addr != 0)
                    pos0 = stream.tell()
                    try:
                        v = ptrobj.dereference()
                        g = ("ok", [A("void")] if v is None else impl.canon(v))
                        v2 = ptrobj.dereference()
                        if v2 is not v and (v is None or impl.canon(v2) != impl.canon(v)):
                            viol(f"{what}: repeated dereference gives a different value", dict(cd, addr=addr))
                    except NullPointerDereference:
                        g = ("null",)
                    except Exception as e:  # noqa: BLE001
                        g = ("err", impl.err_class(e))
                    if stream.tell() != pos0:
                        viol(f"{what}: dereferencing moved the stream from {pos0} to {stream.tell()}", dict(cd, addr=addr))
                    ok = g == want or (g[0] == want[0] == "ok" and impl.same_val(want[1], g[1])) or (g[0] == want[0] == "err")
                    if not ok:
                        viol(f"{what} ({tname} *, declared while cs.pointer is {pname}) at {addr}: dereference gives {str(g)[:200]}, parsing the "
                             f"target there gives {str(want)[:200]}", dict(cd, addr=addr))
                    if addr:
                        y = ptrobj + 1
                        if type(y) is not type(ptrobj) or int(y) != addr + 1 or y._stream is not ptrobj._stream:
                            viol(f"{what}: pointer arithmetic does not yield a pointer of the same type on the same stream", dict(cd, addr=addr))

                for nm, kind, cnt, role in shape:
                    if role == "ptr":
                        check(getattr(o, nm), targets[nm], planted[nm], nm)
                    elif role == "ptrarr":
                        for i, x in enumerate(getattr(o, nm)):
                            check(x, targets[nm], planted[nm][i], f"{nm}[{i}]")
                    elif role == "ptrptr":
                        try:
                            ip = getattr(o, nm).dereference()
                        except Exception as e:  # noqa: BLE001
                            viol(f"dereferencing {nm} (address {planted[nm]}, inside the stream) raises {type(e).__name__}", cd)
                            continue
                        if not isinstance(ip, m.Pointer) or int(ip) != inner[nm]:
                            viol(f"{nm} dereferences to {ip!r}, the {psz}-byte pointer stored at {planted[nm]} is {inner[nm]}", cd)
                        else:
                            check(ip, targets[nm], inner[nm], f"*{nm}")
                            res.feat("reconfig:pointer-to-pointer")
            # a default-constructed structure dumps len(struct) bytes
            try:
                n0 = len(T().dumps())
                if n0 != hdr:
                    viol(f"a default-constructed structure with {pname} pointers dumps {n0} bytes, len(struct) is {hdr}", cd0)
            except Exception as e:  # noqa: BLE001
                viol(f"dumping a default-constructed structure with {pname} pointers raises {type(e).__name__}: {e}", cd0)
