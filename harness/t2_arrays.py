"""Generators for two probe families of C07 (array length semantics).

Family A - *mixed-form multi-dimensional arrays* (`mixed_plan`, `MixedView`, `mixed_input`):
    struct T { <1-3 integer fields>; ELEM a[d1][d2]([d3]); [tail] };
every dimension draws its own length form: fixed / expression over the earlier fields and constants / EOF (outermost, rarely
an inner one) / null-terminated (innermost only: an array type has no zero element, the parser refuses `a[][3]`).  Constants
are defined on the same instance, some of them with the NAME OF A FIELD (the property: the expression is evaluated over the
fields parsed before it, falling back to constants - so the field wins), some that are no field at all (the fall-back), and
either before the preamble constants K2/K0 (early) or after the structure (late).  The element types cover packed and odd-width
integers, char, wchar, enums, float, LEB128, a fixed structure and a structure with an expression-length member of its own whose
count field has the same name as a field of the enclosing structure (each structure evaluates over its own fields).

Family B - *null-terminated arrays of multi-byte elements over partial-zero elements* (`straddle_trees`, `emit_input`):
    struct T { <pre>; ELEM a[]; <tail>; [ELEM2 b[]; end;] };
the input is built element by element so that zero BYTES straddle element boundaries without forming a zero ELEMENT (an element
that ends in a zero byte followed by one that starts with a zero byte; elements with a single non-zero byte), short and long
(around and beyond 32 and 64 elements), with and without the terminator, followed by further fields so that the position after
the array is observed.

Both families hand their structures to c07.check_case (reference parser, dumps, Lean model).
"""
from __future__ import annotations

import contextlib
import random
import signal
import threading

from . import defs, impl, refimpl
from .common import A
from .structprops import rand_bytes

S = lambda n: ("sc", n)  # noqa: E731


def F(name, ty, bits=None):
    return {"name": name, "ty": ty, "bits": bits}


# ------------------------------------------------------------------------------------------------ guard against non-termination

class Hang(Exception):
    """the operation did not finish within the time limit (a to-end-of-stream loop that makes no progress)"""


@contextlib.contextmanager
def time_limit(seconds: float):
    if threading.current_thread() is not threading.main_thread():
        yield
        return

    def on_alarm(*_a):
        raise Hang(f"no result after {seconds} s")

    old = signal.signal(signal.SIGALRM, on_alarm)
    signal.setitimer(signal.ITIMER_REAL, seconds)
    try:
        yield
    finally:
        signal.setitimer(signal.ITIMER_REAL, 0)
        signal.signal(signal.SIGALRM, old)


# ------------------------------------------------------------------------------------------------ family A: mixed-form dimensions

ELEMS_A = {
    "uint8": S("uint8"), "int16": S("int16"), "uint32": S("uint32"), "uint24": S("uint24"), "int24": S("int24"), "int64": S("int64"),
    "char": S("char"), "wchar": S("wchar"), "float": S("float"), "E8": ("enum", "E8"), "F16": ("enum", "F16"), "E32": ("enum", "E32"),
    "uleb128": S("uleb128"),
    "struct": ("struct", [F("x", S("uint8")), F("y", S("uint16"))]),
    # its count field is called like a field of the enclosing structure: every structure evaluates over its own fields
    "dynstruct": ("struct", [F("n", S("uint8")), F("d", ("arr", S("uint8"), ("expr", "n & 3")))]),
}
NULL_OK_A = ["uint8", "int16", "uint32", "uint24", "int24", "int64", "char", "wchar", "E8", "F16", "E32", "uleb128", "struct"]
FIELD_NAMES = ["n", "cols", "rows", "w"]
FIELD_TYPES = [S("uint8")] * 6 + [S("uint16"), S("uint16"), S("int8"), S("int8"), ("enum", "E8")]
# {f}: a field parsed before the array; {g}: another field or a constant that is no field
EXPRS_ANY = ["{f}", "{f} & 3", "({f} & 1) + K2", "{f} % 3", "{f} - 1", "KC", "{f} * KC", "K2", "{f} + {g}", "-{f}", "{f} >> 1", "{g} - {f}", "K0"]
EXPRS_POS = ["{f}", "({f} & 3) + 1", "({f} & 1) + K2", "KC", "{f} * KC", "K2", "{f} + {g}", "{f} | 1", "({g} & 1) + {f}"]


def mixed_plan(rnd: random.Random, *, early=False):
    """-> plan dict: tree, dims, forms, element label, constants (name -> value, `early`: defined before the structure)"""
    en = rnd.choice(list(ELEMS_A))
    elem = ELEMS_A[en]
    npre = rnd.choice([1, 1, 2, 2, 3])
    names = rnd.sample(FIELD_NAMES, npre)
    pre = [F(nm, rnd.choice(FIELD_TYPES)) for nm in names]
    ndim = rnd.choice([1, 2, 2, 2, 2, 3, 3])
    outer = rnd.choice(["fixed", "expr", "expr", "eof", "eof", "eof"])
    forms = [outer]
    for i in range(1, ndim):
        last = i == ndim - 1
        r = rnd.random()
        if last and en in NULL_OK_A and r < 0.2:
            forms.append("null")
        elif r < 0.08 and "eof" not in forms and en != "dynstruct":
            forms.append("eof")  # a[2][EOF]: the first row takes everything, the others are empty
        elif r < 0.7:
            forms.append("expr")
        else:
            forms.append("fixed")
    if ndim == 1 and forms == ["fixed"]:
        forms = ["expr"]
    consts = {"KC": rnd.randint(1, 3)}
    for nm in names:
        if rnd.random() < 0.5:
            consts[nm] = rnd.choice([1, 2, 3, 4, 5])  # a constant with the name of a field: the field wins
    if rnd.random() < 0.3:
        consts[rnd.choice([x for x in FIELD_NAMES if x not in names] or ["kk"])] = rnd.randint(1, 3)  # a constant that is no field here
    others = [k for k in consts if k not in names]
    dims = []
    under_eof = False
    for fm in forms:
        if fm == "fixed":
            dims.append(("fixed", rnd.randint(1, 3) if under_eof or rnd.random() < 0.85 else 0))
        elif fm == "expr":
            t = rnd.choice(EXPRS_POS if under_eof or rnd.random() < 0.4 else EXPRS_ANY)
            g = rnd.choice(others + [x for x in names]) if rnd.random() < 0.6 else rnd.choice(names)
            dims.append(("expr", t.format(f=rnd.choice(names), g=g)))
        elif fm == "null":
            dims.append(("null",))
        else:
            dims.append(("eof",))
            under_eof = True
    t = elem
    for d in reversed(dims):  # C order: the first dimension is the outermost
        t = ("arr", t, d)
    fields = pre + [F("a", t)]
    if "eof" not in forms:
        fields.append(F("tail", S("uint8")))
    return {"tree": ("struct", fields), "pre": pre, "names": names, "dims": dims, "forms": forms, "en": en, "elem": elem,
            "consts": consts, "early": early, "arr_index": npre}


class MixedView:
    """one structure `T` on its own cstruct instance, with extra constants defined before or after it; has the attributes
    structprops.Engine and c07.check_case expect of an impl.Loaded"""

    name = "T"

    def __init__(self, plan, *, endian="<", align=False, compiled=False, pointer="uint64"):
        m = impl.dc()
        self.plan, self.tree, self.arr_index = plan, plan["tree"], plan["arr_index"]
        self.endian, self.align, self.compiled, self.pointer = endian, align, compiled, pointer
        self.consts = dict(impl.CONSTS)
        self.consts.update(plan["consts"])
        pre = defs.PREAMBLE + "#define K2 2\n#define K0 0\n"
        cdefs = "".join(f"#define {k} {v}\n" for k, v in plan["consts"].items())
        stext = defs.render_struct("T", plan["tree"])
        self.cs = m.cstruct(endian=endian, pointer=pointer)
        lines = [f"cs = cstruct(endian={endian!r}, pointer={pointer!r})"]
        steps = [(pre + cdefs, False), (stext, True)] if plan["early"] else [(pre, False), (stext, True), (cdefs, False)]
        for text, is_struct in steps:
            if is_struct:
                self.cs.load(text, compiled=compiled, align=align)
                lines.append(f"cs.load({text!r}, compiled={compiled}, align={align})")
            else:
                self.cs.load(text)
                lines.append(f"cs.load({text!r})")
        self.text = "\n".join(lines)
        self.T = self.cs.T

    def cfg_sexp(self):
        return [A("cfg"), A("le" if self.endian == "<" else "be"), self.pointer, [[A(k), v] for k, v in self.consts.items()]]

    def ty_sexp(self):
        return impl.real_ty_sexp(self.tree, self.T, self.align)


def _encode(ty, v, cfg):
    base = ty[1] if ty[0] == "sc" else defs.ENUMS[ty[1]][1]
    _, size, signed, _ = refimpl.sc(base)
    return (v % (1 << (8 * size))).to_bytes(size, cfg.endian)


def _pick_value(rnd, ty):
    signed = ty[0] == "sc" and refimpl.sc(ty[1])[2]
    r = rnd.random()
    if r < 0.8:
        return rnd.choice([0, 1, 1, 2, 2, 3, 3, 4, 5])
    if signed:
        return rnd.choice([-1, -2, -128, 6])
    return rnd.choice([7, 8, 255, 128])


def mixed_input(rnd: random.Random, plan, cfg: refimpl.Cfg) -> bytes:
    """values for the count fields such that no to-end-of-stream dimension has zero-size elements (neither the library nor the
    reference makes progress over those: the property is silent about them), then a body that mostly holds whole rows"""
    pre, dims, names = plan["pre"], plan["dims"], plan["names"]
    eof_at = next((i for i, d in enumerate(dims) if d[0] == "eof"), None)
    counts = None
    for attempt in range(40):
        vals = {f["name"]: (_pick_value(rnd, f["ty"]) if attempt < 39 else 1) for f in pre}
        ctx = {k: [A("int"), v] for k, v in vals.items()}
        counts = []
        for d in dims:
            if d[0] == "fixed":
                counts.append(d[1])
            elif d[0] == "expr":
                counts.append(max(0, refimpl.eval_expr(d[1], ctx, cfg.consts)))
            else:
                counts.append(None)
        if eof_at is None or all(c is None or c > 0 for c in counts[eof_at + 1:]):
            if all(c is None or c <= 40 for c in counts):
                break
    lay = refimpl.struct_layout(pre, cfg)
    head = bytearray()
    for f, off in zip(pre, lay["offsets"]):
        if len(head) < off:
            head += rand_bytes(rnd, off - len(head))
        head += _encode(f["ty"], vals[f["name"]], cfg)
    esize, eal = refimpl.size_align(plan["elem"], cfg)
    if cfg.align and len(head) % eal:
        head += rand_bytes(rnd, -len(head) % eal)
    inner_null = dims[-1][0] == "null"
    if inner_null and esize is not None and esize > 1 and rnd.random() < 0.7:
        body = b"".join(straddle_string(rnd, esize, rnd.choice([0, 1, 2, 3, 5]), plan["en"] == "wchar") + bytes(esize) for _ in range(rnd.randint(1, 8)))
    elif inner_null:
        body = rand_bytes(rnd, rnd.choice([6, 13, 30, 61]))
        if rnd.random() < 0.6:
            body = bytes(b if rnd.random() < 0.8 else 0 for b in body) + bytes(16)
    elif eof_at is not None and esize is not None and all(c is not None for c in counts[eof_at + 1:]):
        unit = esize
        for c in counts[eof_at + 1:]:
            unit *= c
        k = rnd.choice([0, 1, 1, 2, 3, 4])
        body = rand_bytes(rnd, min(unit * k, 400)) if unit else b""
        if rnd.random() < 0.15:
            body += rand_bytes(rnd, rnd.randint(1, max(1, unit)))  # a partial trailing element
    else:
        body = rand_bytes(rnd, rnd.choice([6, 13, 30, 61, 120]))
    if plan["en"] == "wchar" and rnd.random() < 0.8:
        body = bytes(0x41 if 0xD8 <= b <= 0xDF else b for b in body)  # mostly well-formed UTF-16
    return bytes(head) + body


# ------------------------------------------------------------------------------------------------ family B: partial-zero elements

NZ = [1, 2, 0x41, 0x61, 0x7F, 0x80, 0xFF, 0xFE]
NZ_W = [1, 2, 0x41, 0x61, 0x7F, 0x80, 0xFF, 0x20]  # no surrogate halves for wchar


def partial_zero_elem(rnd, s, nz, kind=None):
    """a non-zero element of s bytes (memory order) that has zero bytes"""
    e = bytearray(rnd.choice(nz) for _ in range(s))
    kind = kind or rnd.choice(["tail0", "head0", "single", "ends0", "full", "full"])
    if s == 1:
        return bytes(e)
    if kind == "tail0":
        e[-1] = 0
    elif kind == "head0":
        e[0] = 0
    elif kind == "single":
        e = bytearray(s)
        e[rnd.randrange(s)] = rnd.choice(nz)
    elif kind == "ends0" and s > 2:
        e[0] = e[-1] = 0
    return bytes(e)


def straddle_string(rnd, s, n, wide=False):
    """n non-zero elements of s bytes; about half of the element boundaries have zero bytes on both sides"""
    nz = NZ_W if wide else NZ
    out = []
    while len(out) < n:
        if n - len(out) >= 2 and rnd.random() < 0.5:
            out.append(partial_zero_elem(rnd, s, nz, "tail0"))
            out.append(partial_zero_elem(rnd, s, nz, "head0"))
        else:
            out.append(partial_zero_elem(rnd, s, nz))
    return b"".join(out)


ELEMS_B = {
    "wchar": S("wchar"), "uint16": S("uint16"), "int16": S("int16"), "uint32": S("uint32"), "int24": S("int24"), "uint24": S("uint24"),
    "int64": S("int64"), "uint48": S("uint48"), "int128": S("int128"), "F16": ("enum", "F16"), "E32": ("enum", "E32"), "E24": ("enum", "E24"),
    "struct-u8u16": ("struct", [F("x", S("uint8")), F("y", S("uint16"))]),
    "struct-u16u16": ("struct", [F("x", S("uint16")), F("y", S("uint16"))]),
    "struct-u24i24": ("struct", [F("x", S("uint24")), F("y", S("int24"))]),
    "struct-e8u8": ("struct", [F("x", ("enum", "E8")), F("y", S("uint8"))]),
}
PRES = [[F("n", S("uint8"))], [F("n", S("uint16"))], [F("n", S("uint8")), F("m", S("uint8"))], [F("n", S("uint8")), F("m", S("uint16"))]]


def straddle_trees(rnd: random.Random, tier):
    """-> [(element label, tree, index of `a` among the fields)]"""
    out = []
    for en, et in ELEMS_B.items():
        for pre in (PRES if tier == "thorough" else rnd.sample(PRES, 2)):
            en2 = rnd.choice(list(ELEMS_B))
            post = rnd.choice([
                [F("tail", S("uint8"))],
                [F("tail", S("uint16")), F("b", ("arr", ELEMS_B[en2], ("null",))), F("end", S("uint8"))],
                [F("tail", S("uint8")), F("b", ("arr", et, ("null",))), F("end", S("uint16"))],
            ])
            out.append((en, ("struct", pre + [F("a", ("arr", et, ("null",)))] + post), len(pre)))
    return out


def emit_input(rnd: random.Random, tree, cfg: refimpl.Cfg, *, long=False) -> bytes:
    """bytes for a top-level structure, field by field at the positions the layout rule gives them; null-terminated arrays of
    fixed-size multi-byte elements get a partial-zero element string and (mostly) their terminator"""
    out = bytearray()
    for f in tree[1]:
        ty = f["ty"]
        size, al = refimpl.size_align(ty, cfg)
        if cfg.align and len(out) % al:
            out += rand_bytes(rnd, -len(out) % al)
        if ty[0] == "arr" and ty[2][0] == "null":
            es, _ = refimpl.size_align(ty[1], cfg)
            if es is None or es < 2:
                out += bytes(b or 1 for b in rand_bytes(rnd, rnd.randint(0, 9))) + bytes(2)
                continue
            n = rnd.choice([0, 1, 2, 2, 3, 3, 4, 5, 8, 13] + ([31, 32, 33, 40, 63, 64, 65, 70] if long or rnd.random() < 0.15 else []))
            out += straddle_string(rnd, es, n, ty[1] == S("wchar"))
            if rnd.random() < 0.85:
                out += bytes(es)
            elif rnd.random() < 0.5:
                out += bytes(rnd.randrange(es))  # the input ends inside the terminator
        elif size is not None:
            out += rand_bytes(rnd, size)
        else:
            out += rand_bytes(rnd, rnd.randint(0, 6))
    return bytes(out) + rand_bytes(rnd, rnd.choice([0, 0, 1, 3, 8]))
