"""C18 probe (round 6): DERIVED TYPES taken while the structure is still growing.

A history builds a structure T field by field (add_field with a commit per field, `with T.start_update():` batches, the parser's
extend-`__fields__`-then-commit) on ONE cstruct instance on which T is registered by name.  At random points of the history -
before the first field, between the steps, and inside an open batch (fields appended, not yet committed) - types DERIVED from T
are requested and used (size, parse, dump, default value):

    {"k": "arr", "how", "dims"}      an array type of T: T[n] / cs.T[n] / cs.resolve("T")[n] / cs._make_array(T, n), one- or
                                     two-dimensional (T[n][m]); a history prefers one length, so that the SAME length is requested
                                     again and again in different states of T
    {"k": "embed", "via", "member",  a structure that embeds T: `struct E { <lead> h; <member> <tail> t; };` with the member
     "dims", "lead", "tail",         `T x[n];` / `T x[n][m];` / `T *p;` / `T *p[n];` / `T m;` / `uint8 c; T x[c];` (expression
     "align", "compiled"}            length), defined by cs.load(text, compiled=, align=) or made from Field objects

Then T is extended further.  Whenever the history stands outside every batch, what is requested THEN must see the structure as it
is THEN: every request is repeated on a fresh cstruct instance on which T is declared in one piece with exactly the fields it has
at that moment (the reference), and the two results must agree -

    array types       name, size, alignment, dynamic flag, the element type is T itself; parse from stream positions 0 and 1 (value,
                      consumed, dumps, sizes); dumps of the default value; and, stated directly, size == n * m * len(T);
    embedding types   everything harness/props/c18.py compares between two structure classes (`full` / `compare`: size, alignment,
                      offsets, compiled flag, the reader's source/plan and the types its tokens are bound to, parses at positions
                      0/1/3 and as member / array element, dumps, default instance, instance behaviour).

At "check" points and at the end ALL requests made so far in the history - including those made inside open batches - are made
again (same array lengths, the same embedding definitions under new names) together with a new embedding definition, and compared
with the reference of the final field list; at the end T itself is compared with its one-shot declaration too (nothing the derived
types cached may have leaked into it).

What is NOT asserted: derived types that were created BEFORE an extension and are still held.  The unmodified library computes
the size of an array class and the offsets of an embedding structure when the class is made, so a held `T[2]` keeps the size of the
intermediate T (its reader does follow T, since elements are read through `T._read`), and a held embedding structure keeps its old
offsets and reads garbage / runs into EOF.  The property speaks about what is obtained after the commit, so held types are only
used (their use must not disturb later requests) and counted (`derived:held-array:*` features).  Requests made inside an open batch
are used without an oracle either (T is between two states there); an exception there is counted, not reported.
"""
from __future__ import annotations

import ast
import itertools
import random

from . import impl
from . import s7_c18 as s7
from .structprops import rand_bytes

LEADS = ["uint8", "uint16", "uint32", "char", "int24", "uint64"]
HOWS = ["index", "attr", "resolve", "make"]
MEMBERS = ["arr", "arr", "arr", "arr2", "ptr", "ptrarr", "nested", "nested", "expr"]


# ------------------------------------------------------------------------------------------------ generation

def gen_recipe(rnd, fav, embed=None):
    def dim():
        return fav if rnd.random() < 0.7 else rnd.choice([0, 1, 2, 3, 4])

    if embed is None:
        embed = rnd.random() < 0.5
    if not embed:
        return {"k": "arr", "how": rnd.choice(HOWS), "dims": [dim()] if rnd.random() < 0.75 else [dim(), rnd.choice([1, 2, 3])]}
    member = rnd.choice(MEMBERS)
    return {"k": "embed", "via": "load" if member == "expr" or rnd.random() < 0.6 else "field", "member": member,
            "dims": [dim(), rnd.choice([1, 2, 3])], "lead": rnd.choice(LEADS), "tail": rnd.choice(LEADS),
            "align": rnd.random() < 0.5, "compiled": rnd.random() < 0.5}


def gen_steps(rnd, n):
    """-> (recipes taken on the still empty T, steps).  step: {"mode", "add": [field index, ...], "inside": [[k, recipe], ...]
    (requested after k fields of the batch were appended, before the commit; update / extend only), "after": [recipe, ...],
    "check": bool (all earlier requests are made again behind this step)}"""
    fav = rnd.choice([2, 2, 2, 1, 3])
    initial = [gen_recipe(rnd, fav) for _ in range(rnd.randint(1, 2))] if rnd.random() < 0.6 else []
    todo, steps = list(range(n)), []
    while todo:
        size = rnd.randint(1, min(len(todo), 3))
        batch, todo = todo[:size], todo[size:]
        mode = rnd.choice(["each", "each", "update", "update", "extend"])
        inside = []
        if mode != "each" and rnd.random() < 0.45:
            inside = [[rnd.randint(0, len(batch)), gen_recipe(rnd, fav)] for _ in range(rnd.randint(1, 2))]
            inside.sort(key=lambda x: x[0])
        after = [gen_recipe(rnd, fav) for _ in range(rnd.randint(1, 2))] if rnd.random() < 0.7 else []
        steps.append({"mode": mode, "add": batch, "inside": inside, "after": after, "check": rnd.random() < 0.35})
    if steps:
        # at the end everything is requested again, and a definition that was never loaded before
        steps[-1]["check"] = True
        steps[-1]["after"] = steps[-1]["after"][:1] + [gen_recipe(rnd, fav, embed=True)]
    return initial, steps


# ------------------------------------------------------------------------------------------------ requesting a derived type

def embed_text(r, name):
    d0, d1 = r["dims"]
    member = {"arr": f"T x[{d0}];", "arr2": f"T x[{d0}][{d1}];", "ptr": "T *p;", "ptrarr": f"T *p[{d0}];", "nested": "T m;",
              "expr": "T x[c];"}[r["member"]]
    lead = "uint8 c;" if r["member"] == "expr" else f"{r['lead']} h;"
    return f"struct {name} {{ {lead} {member} {r['tail']} t; }};"


def describe(r):
    if r["k"] == "arr":
        idx = "".join(f"[{d}]" for d in r["dims"])
        return {"index": f"T{idx}", "attr": f"cs.T{idx}", "resolve": f"cs.resolve('T'){idx}",
                "make": "cs._make_array(" * len(r["dims"]) + "T" + "".join(f", {d})" for d in r["dims"])}[r["how"]]
    how = f"cs.load(..., compiled={r['compiled']}, align={r['align']})" if r["via"] == "load" else \
        f"made from Field objects (compiled={r['compiled']}, align={r['align']})"
    return f"`{embed_text(r, 'E')}` {how}"


def total(r):
    n = 1
    for d in r["dims"]:
        n *= d
    return n


def derive(cs, T, r, name):
    """make the request `r` on the instance `cs` whose structure under construction is `T` (registered as "T")"""
    from dissect.cstruct import compiler
    from dissect.cstruct.types.structure import Field

    if r["k"] == "arr":
        how = r["how"]
        D = T if how in ("index", "make") else getattr(cs, "T") if how == "attr" else cs.resolve("T")
        for d in r["dims"]:
            D = cs._make_array(D, d) if how == "make" else D[d]
        return D
    if r["via"] == "load":
        cs.load(embed_text(r, name), compiled=r["compiled"], align=r["align"])
        return getattr(cs, name)
    d0, d1 = r["dims"]
    m = r["member"]
    X = getattr(cs, "T")
    member = {"arr": lambda: Field("x", X[d0]), "arr2": lambda: Field("x", X[d1][d0]), "ptr": lambda: Field("p", cs._make_pointer(X)),
              "ptrarr": lambda: Field("p", cs._make_pointer(X)[d0]), "nested": lambda: Field("m", X)}[m]()
    E = cs._make_struct(name, [Field("h", cs.resolve(r["lead"])), member, Field("t", cs.resolve(r["tail"]))], align=r["align"])
    return compiler.compile(E) if r["compiled"] else E


def elem_is(D, T, depth):
    for _ in range(depth):
        D = getattr(D, "type", None)
    return D is T


def obs_array(D, T, r, data):
    def tryit(f):
        try:
            return f()
        except Exception as e:  # noqa: BLE001
            return "raises " + impl.err_class(e)

    out = [("name / size / alignment / dynamic / num_entries",
            (D.__name__, D.size, D.alignment, D.dynamic, repr(getattr(D, "num_entries", "?")), tryit(lambda: len(D)))),
           ("element type is T", elem_is(D, T, len(r["dims"])))]
    out.append(("parse at stream position 0", s7.summ(impl.parse(D, data))))
    out.append(("parse at stream position 1", s7.summ(impl.parse(D, b"\x77" + data, 1))))
    out.append(("dumps of the default value", tryit(lambda: D.__default__().dumps())))
    return out


def same_obs(w, g):
    if isinstance(w, tuple) and isinstance(g, tuple) and w and g and w[0] in ("ok", "err") and g[0] in ("ok", "err"):
        return s7.same_summ(w, g)
    return w == g


def use(D, data):
    """use a derived type without looking at the result"""
    _ = D.size
    r = impl.parse(D, data)
    if r[0] == "ok" and hasattr(r[1], "dumps"):
        try:
            r[1].dumps()
        except Exception:  # noqa: BLE001
            pass
    try:
        D.__default__().dumps()
    except Exception:  # noqa: BLE001
        pass


# ------------------------------------------------------------------------------------------------ one history

def run_case(h, dc, cd, viol, res=None, sig=None):
    """cd: fields, align, compiled, endian, data_seed, initial, derive_steps.  `h`: the module harness.props.c18.
    -> number of requests that were repeated after an extension"""
    from dissect.cstruct import compiler
    from dissect.cstruct.types.structure import Field

    specs = [ast.literal_eval(x) if isinstance(x, str) else tuple(x) for x in cd["fields"]]
    align, compiled, endian, steps = cd["align"], cd["compiled"], cd["endian"], cd["derive_steps"]
    cs = h.fresh_cs(dc, endian, align, compiled)
    st = cs._make_struct("T", [], align=align)
    if compiled:
        st = compiler.compile(st)
    cs.add_type("T", st)
    serial = itertools.count()
    seen: list[dict] = []        # every request made so far (once each), with the number of fields T had when it was first made
    first: dict[str, int] = {}
    held: list = []              # (request, type, number of fields T had)
    refs: dict[int, object] = {}
    present: list[int] = []
    repeated = 0

    def feat(k, n=1):
        if res:
            res.feat(k, n)

    def remember(r):
        k = repr(sorted(r.items()))
        if k not in first:
            first[k] = len(present)
            seen.append(r)
        return first[k]

    def reference():
        k = len(present)
        if k not in refs:
            cs0 = h.fresh_cs(dc, endian, align, compiled)
            try:
                one = h.build_oneshot(cs0, [specs[i] for i in present], align, compiled)
                cs0.add_type("T", one)
                refs[k] = (cs0, one)
            except Exception as e:  # noqa: BLE001
                feat("derived:one-shot-of-present-fields-rejected:" + type(e).__name__)
                refs[k] = None
        return refs[k]

    def request(r, where, stepno, ri):
        """make the request on the history's instance and on the reference; compare"""
        nonlocal repeated
        name = f"Emb{next(serial)}"
        drnd = random.Random(f"{cd['data_seed']}:{stepno}:{ri}:{name}")
        was = remember(r)
        again = was < len(present)
        state = f"{where} (T has {len(present)} field(s); the request was first made when it had {was})"
        extra = {"at_step": stepno, "request": r, "present": [specs[i][0] for i in present]}
        ref = reference()
        if ref is None:
            try:
                use(derive(cs, st, r, name), rand_bytes(drnd, 46))
            except Exception as e:  # noqa: BLE001
                feat("derived:no-reference:raises:" + type(e).__name__)
            return
        cs0, one = ref
        try:
            D0, e0 = derive(cs0, one, r, name), None
        except Exception as e:  # noqa: BLE001
            D0, e0 = None, f"{type(e).__name__}: {e}"
        try:
            D, e1 = derive(cs, st, r, name), None
        except Exception as e:  # noqa: BLE001
            D, e1 = None, f"{type(e).__name__}: {e}"
        if e0 or e1:
            if (e0 or "").split(":")[0] != (e1 or "").split(":")[0]:
                viol(f"requesting {describe(r)} {state}: on the structure built step by step -> {e1 or 'accepted'}, on the "
                     f"structure declared in one piece -> {e0 or 'accepted'}", dict(cd, **extra), sig)
            else:
                feat("derived:request-rejected-on-both:" + (e0 or "").split(":")[0])
            return
        if again:
            repeated += 1
            feat("derived:requested-again-after-extension:" + (r["k"] if r["k"] == "arr" else r["member"]))
        feat("derived:request:" + (f"arr:{r['how']}:{len(r['dims'])}d" if r["k"] == "arr" else f"embed:{r['via']}:{r['member']}"))
        held.append((r, D, len(present)))
        if r["k"] == "arr":
            if st.size is not None and D.size != total(r) * st.size:
                viol(f"stale size: {describe(r)} requested {state} has size {D.size}, but {total(r)} * len(T) == {total(r) * st.size}",
                     dict(cd, **extra), sig)
                return
            data = rand_bytes(drnd, (D0.size if D0.size is not None else 40) + 6)
            want, got = obs_array(D0, one, r, data), obs_array(D, st, r, data)
            for (lw, w), (lg, g) in zip(want, got):
                if not same_obs(w, g):
                    viol(f"{describe(r)} requested {state} differs from the same request on the one-shot structure ({lg}): "
                         f"{str(g)[:220]}, one-shot {str(w)[:220]}", dict(cd, data=data.hex(), **extra), sig)
                    break
            return
        size = D0.size if D0.size is not None else 40
        inputs = [rand_bytes(drnd, size + 6) for _ in range(2)]
        if r["member"] == "expr":
            inputs = [bytes([r["dims"][0]]) + d[1:] for d in inputs]
        prefix = bytes(drnd.randrange(1, 256) for _ in range(8))
        flips = sorted({size - 1, drnd.randrange(size)}) if size else []
        who = f"structure {describe(r)} defined {state}"
        try:
            want = h.full(cs0, D0, inputs, prefix, r["compiled"], flips)
            got = h.full(cs, D, inputs, prefix, r["compiled"], flips)
        except Exception as e:  # noqa: BLE001
            viol(f"the {who} cannot be observed: {type(e).__name__}: {e}", dict(cd, **extra), sig)
            return
        h.compare(viol, res, dict(cd, data=[d.hex() for d in inputs], prefix=prefix.hex(), flips=flips, **extra), sig, want, got,
                  r["compiled"], inputs, prefix, who=who)

    def inside(r, stepno, ri):
        """a request while a batch is open: used, not judged"""
        name = f"Emb{next(serial)}"
        remember(r)
        feat("derived:request-inside-open-batch")
        try:
            D = derive(cs, st, r, name)
            use(D, rand_bytes(random.Random(f"{cd['data_seed']}:{stepno}:in{ri}"), 46))
        except Exception as e:  # noqa: BLE001
            feat("derived:request-inside-open-batch:raises:" + type(e).__name__)

    def use_held(stepno):
        drnd = random.Random(f"{cd['data_seed']}:{stepno}:held")
        for r, D, nf in held[-6:]:
            try:
                use(D, rand_bytes(drnd, 46))
            except Exception as e:  # noqa: BLE001
                feat("derived:held-type:use-raises:" + type(e).__name__)

    def point(recipes, check, where, stepno):
        todo = list(recipes)
        if check:
            use_held(stepno)
            new = {repr(sorted(r.items())) for r in recipes}
            todo = [r for r in seen if repr(sorted(r.items())) not in new] + todo
        for ri, r in enumerate(todo):
            request(r, where, stepno, ri)

    def add(i):
        nm, sp, b, o = specs[i]
        st.add_field(nm, h.mk_type(cs, sp), bits=b, offset=o)
        present.append(i)

    try:
        point(cd.get("initial", []), False, "before the first field", -1)
        for no, step in enumerate(steps):
            mode, batch = step["mode"], step["add"]
            ins = {}
            for k, r in step.get("inside", []):
                ins.setdefault(k, []).append(r)
            if mode == "each":
                for i in batch:
                    add(i)
            elif mode == "update":
                with st.start_update():
                    for k in range(len(batch) + 1):
                        for ri, r in enumerate(ins.get(k, [])):
                            inside(r, no, ri + 10 * k)
                        if k < len(batch):
                            add(batch[k])
            elif mode == "extend":
                for k in range(len(batch) + 1):
                    for ri, r in enumerate(ins.get(k, [])):
                        inside(r, no, ri + 10 * k)
                    if k < len(batch):
                        i = batch[k]
                        st.__fields__.append(Field(specs[i][0], h.mk_type(cs, specs[i][1]), bits=specs[i][2], offset=specs[i][3]))
                        present.append(i)
                st.commit()
            else:
                raise ValueError(mode)
            point(step.get("after", []), step.get("check", False), f"behind step {no} ({mode}, {len(batch)} field(s))", no)
    except Exception as e:  # noqa: BLE001
        viol(f"history with derived types taken while the structure grows raises: {type(e).__name__}: {e}", cd, sig)
        return repeated

    # what the unmodified library does with derived types made BEFORE an extension and still held: counted, not judged
    for r, D, nf in held:
        if r["k"] == "arr" and nf < len(present) and st.size is not None:
            try:
                feat("derived:held-array:" + ("size-is-current" if D.size == total(r) * st.size else "keeps-the-size-of-the-intermediate-state"))
            except Exception:  # noqa: BLE001
                pass

    # T itself, after all this, against its one-shot declaration
    ref = reference()
    if ref is not None:
        cs0, one = ref
        names = [specs[i][0] for i in present]
        if [f._name for f in st.__fields__] != names:
            viol(f"the field list of the structure is {[f._name for f in st.__fields__]}, the fields added were {names}", cd, sig)
            return repeated
        drnd = random.Random(f"{cd['data_seed']}:final")
        size = one.size if one.size is not None else 40
        inputs = [rand_bytes(drnd, size + 6) for _ in range(2)]
        prefix = bytes(drnd.randrange(1, 256) for _ in range(8))
        flips = sorted({size - 1, drnd.randrange(size)}) if size else []
        try:
            want, got = h.full(cs0, one, inputs, prefix, compiled, flips), h.full(cs, st, inputs, prefix, compiled, flips)
        except Exception as e:  # noqa: BLE001
            viol(f"the structure from which derived types were taken while it grew cannot be observed: {type(e).__name__}: {e}", cd, sig)
            return repeated
        h.compare(viol, res, dict(cd, data=[d.hex() for d in inputs], prefix=prefix.hex(), flips=flips), sig, want, got, compiled,
                  inputs, prefix, who="structure from which derived types were taken while it grew")
    return repeated


# ------------------------------------------------------------------------------------------------ the family

def run(env, res, viol, rnd, h):
    """`h`: the module harness.props.c18 (fresh_cs, mk_type, field_specs, build_oneshot, full, compare)"""
    dc = impl.dc()
    tier = env["tier"]
    for _ in range(40 if tier == "quick" else 450):
        n = rnd.randint(1, 6)
        for align, compiled in itertools.product((False, True), (False, True)):
            if tier == "quick" and rnd.random() < 0.5:
                continue
            endian = rnd.choice("<>")
            cs0 = h.fresh_cs(dc, endian, align, compiled)
            specs = h.field_specs(rnd, cs0, n)
            f23 = align and any(s[2] and s[1][1] in ("int24", "uint24", "uint48") for s in specs if s[1][0] == "sc")
            initial, steps = gen_steps(rnd, n)
            cd = {"fields": [str(s) for s in specs], "align": align, "compiled": compiled, "endian": endian,
                  "data_seed": rnd.randrange(1 << 30), "initial": initial, "derive_steps": steps}
            repeated = run_case(h, dc, cd, viol, res, "F23" if f23 else None)
            res.count(("derived", str(specs), align, compiled, endian, str(initial), str(steps)), repeated > 0)
            res.feat("derived:history")
            res.feat(f"derived:steps:{len(steps)}")
            for s_ in steps:
                res.feat("derived:mode:" + s_["mode"])


def replay_case(h, case, viol) -> None:
    run_case(h, impl.dc(), case, viol, None)
