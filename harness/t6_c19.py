"""C19 helper probes (agent t6): every public parameter of hexdump / dumpstruct, and pack / unpack / swap over widths 1..130.

Each probe evaluates the property's own predicates on the real library:

 * hexdump_params   - prefix x offset x palette x data type x output mode ("string", "generator", "print") x positional/keyword passing with
                      adversarial-but-legal values (braces and format fields, percent directives, backslashes, non-ASCII, control characters, a
                      text that looks like an offset column, empty, hundreds of characters).  Oracles, all stated in Python:
                        - the plain dump without a prefix lists every byte once, in order, sixteen per line behind format(offset + 16*i, "08x");
                        - with a prefix every line is  prefix + the line without the prefix  (nothing else changes);
                        - with a palette whose colours are escape sequences ESC [ body m, removing exactly those sequences (and NORMAL) gives the
                          plain dump, and no other escape sequence appears;
                        - every output mode delivers the same lines.
                      Free-form colour strings (not escape sequences: "{", "%s", non-ASCII ...) are compared with the model's exact text.
 * dumpstruct_params - offset / color / output ("string", "print") / instance and (class, data) call forms over structures whose values and
                      lengths are awkward (braces and percent signs in char data, negative integers, enums, strings, fields crossing the
                      16-byte lines): the hex part is a dump of exactly the structure's bytes at the running offset, every field is listed with
                      its value (integers, bytes and strings are read back from the listing), colour changes nothing but the colour codes.
 * pack_widths       - explicit bit widths 1..130 (multiples of 8 or not), signed and unsigned boundary values of each width, every endianness
                      spelling the API accepts (little big network < > ! @ =), compared with two's complement in ceil(bits/8) bytes computed by
                      shifting and masking (not int.to_bytes); unpack is the inverse; fixed-width helpers with negative values and sign=True; swap.
"""
from __future__ import annotations

import ast
import contextlib
import io
import re
import sys

from .common import A, mkrng, sx

NORMAL = "\033[1;0m"
ESC_RE = re.compile(r"\033\[[^\033m]*m")

ENDIAN_ALL = {"little": "little", "big": "big", "network": "big", "<": "little", ">": "big", "!": "big", "@": sys.byteorder, "=": sys.byteorder}

# adversarial-but-legal pieces of a prefix (a prefix is any str)
PREFIX_TOKENS = [
    "{", "}", "{}", "{{", "}}", "{0}", "{1}", "{2}", "{x}", "{idx}", "{:08x}", "{!r}", "{0:48s}", "{{x}}", "{{}}", "}{", "{ ", "buf{idx}: ",
    "%", "%%", "%s", "%d", "%r", "%(x)s", "%08x", "100% ", "%%s",
    "\\", "\\\\", "\\n", "\\x41", "\\u0041", "\\N{BULLET}", "\\1", "\\g<0>",
    "$", "$x", "${x}", "$$",
    "é", "ß", "日本語", "→ ", "​", "\U0001f642", "́", "‮",
    "\033[1;31m", "\033[0m", "\x00", "\x7f", "\t", "\r", "\n", " ", "> ", ": ", "|", "#", "buf", "0x", "00000000  ", "ff ", "'", '"', "`",
]

# bodies of escape-sequence colours ESC [ body m  (no ESC, no "m" inside: the tokenisation of the coloured text is then unique)
COLOR_BODIES = ["1;31", "1;41", "1;37", "0", "", "38;5;196", "{", "}", "{}", "{0}", "{x}", "{{", "%", "%s", "%(a)s", "%%", "\\", "\\n", "\\x1b",
                "é", "日本", "$x", " ", "1;0;0", "1;2;3;4;5;6;7;8;9;10;11;12;13;14;15;16;17;18;19;20", "1;0"]
# free-form colour strings (compared with the model's exact text only)
FREE_COLORS = ["{", "}", "{}", "{0}", "%s", "%", "\\", "<b>", "é", "日本", "[", "*", "\033", "\033[", "m", "\033[1;0", "\033[1;0m", "  ", "0"]

OFFSETS = [0, 0, 1, 15, 16, 17, 255, 256, 0x1000, 0xFFFFFF0, 0xFFFFFFF, 0xFFFFFFF0, 0xFFFFFFFF, 1 << 32, (1 << 32) - 16, (1 << 40) + 7, (1 << 64) - 8,
           (1 << 64), 10 ** 30]


# ------------------------------------------------------------------------------------------------ predicates

def plain_lines_error(plines, data: bytes, offset: int):
    """None if the un-prefixed, un-coloured lines list every byte of data once, in order, sixteen per line, behind the running offset."""
    n = len(data)
    if len(plines) != (n + 15) // 16:
        return f"{len(plines)} lines for {n} bytes"
    got = bytearray()
    for li, ln in enumerate(plines):
        head = format(offset + 16 * li, "08x") + "  "
        if not ln.startswith(head):
            return f"line {li} does not start with the running offset {head!r}: {ln[:40]!r}"
        body = ln[len(head):]
        hexcol, gap, chars = body[:49], body[49:51], body[51:]
        try:
            row = bytes(int(t, 16) for t in hexcol.split())
        except ValueError:
            return f"line {li}: the hex column holds something else than hex pairs: {hexcol!r}"
        if hexcol != "".join(("%02x" % row[j] if j < len(row) else "  ") + (" " if j != 7 else "  ") for j in range(16)) or gap != "  ":
            return f"line {li}: the hex column is not sixteen two-digit cells: {hexcol!r}"
        if chars != "".join(chr(b) if 0x20 <= b <= 0x7E else "." for b in row):
            return f"line {li}: the character column {chars!r} does not belong to {row.hex()}"
        if li < len(plines) - 1 and len(row) != 16:
            return f"line {li} holds {len(row)} bytes"
        got += row
    if bytes(got) != data:
        return f"the hex column reads back as {bytes(got).hex()[:80]}"
    return None


def strip_escape_colors(text: str, colors):
    """Remove the escape sequences; second result: the sequences found that are neither a palette colour nor NORMAL."""
    allowed = set(colors) | {NORMAL}
    foreign = [m for m in ESC_RE.findall(text) if m not in allowed]
    return ESC_RE.sub("", text), foreign


def twos(v: int, nbytes: int, order: str) -> bytes:
    """two's-complement encoding by shifting and masking"""
    m = v % (1 << (8 * nbytes)) if nbytes else 0
    cells = [(m >> (8 * i)) & 0xFF for i in range(nbytes)]
    return bytes(cells if order == "little" else cells[::-1])


def from_twos(bs: bytes, order: str, signed: bool) -> int:
    cells = bs if order == "little" else bs[::-1]
    v = 0
    for i, b in enumerate(cells):
        v |= b << (8 * i)
    if signed and bs and cells[-1] & 0x80:
        v -= 1 << (8 * len(bs))
    return v


# ------------------------------------------------------------------------------------------------ generators

def gen_prefix(rnd) -> str:
    r = rnd.random()
    if r < 0.04:
        return ""
    if r < 0.45:
        return rnd.choice(PREFIX_TOKENS)
    if r < 0.55:
        return rnd.choice(PREFIX_TOKENS) * rnd.choice([2, 3, 17, 64, 150])
    return "".join(rnd.choice(PREFIX_TOKENS) for _ in range(rnd.randint(2, 5)))


def gen_data(rnd, tier) -> bytes:
    r = rnd.random()
    if r < 0.1:
        n = rnd.choice([0, 1, 15, 16, 17, 31, 32, 33])
    elif r < 0.85:
        n = rnd.randint(1, 80)
    else:
        n = rnd.randint(81, 400 if tier == "quick" else 3000)
    r = rnd.random()
    if r < 0.6:
        return bytes(rnd.randrange(256) for _ in range(n))
    if r < 0.8:
        return bytes(rnd.choice(b"{}%\\$ Az09~\x7f\x00\xff\x1f\"'") for _ in range(n))
    return bytes((rnd.randrange(256) + i) & 0xFF for i in range(n))


def gen_palette(rnd, n, colors):
    """None | [] | entries (length, colour) drawn from colors; lengths sum to about n (shorter, longer, zero-length entries included)"""
    r = rnd.random()
    if r < 0.2:
        return None
    if r < 0.25:
        return []
    pal, total = [], 0
    target = rnd.choice([n, n, max(0, n - rnd.randint(1, 9)), n + rnd.randint(1, 20), rnd.randint(0, 2 * n + 1)])
    while total < target and len(pal) < 14:
        k = rnd.choice([0, 1, 1, 2, 3, 7, 8, 9, 15, 16, 17, 31, 32, 33, 64])
        k = min(k, target - total) if rnd.random() < 0.8 else k
        pal.append((k, rnd.choice(colors)))
        total += k
    if rnd.random() < 0.2:
        pal.append((0, rnd.choice(colors)))
    return pal


def call_hexdump(U, data, pal, offset, prefix, mode, style):
    """-> list of lines; style: how the arguments are passed"""
    p = None if pal is None else list(pal)
    if style == "positional":
        args, kw = (data, p, offset, prefix, mode), {}
    elif style == "keyword":
        args, kw = (), {"data": data, "palette": p, "offset": offset, "prefix": prefix, "output": mode}
    else:
        args, kw = (data, p), {"prefix": prefix, "output": mode, "offset": offset}
    if mode == "print":
        buf = io.StringIO()
        with contextlib.redirect_stdout(buf):
            r = U.hexdump(*args, **kw)
        text = buf.getvalue()
        if r is not None or not text.endswith("\n"):
            raise AssertionError(f"print mode returned {r!r} and printed {text[-20:]!r}")
        return ("text", text[:-1])
    if mode == "generator":
        return ("lines", list(U.hexdump(*args, **kw)))
    return ("text", U.hexdump(*args, **kw))


# ------------------------------------------------------------------------------------------------ hexdump parameters

def hexdump_params(env, res, U, viol, lines, metas):
    tier = env["tier"]
    rnd = mkrng(env["seed"], "c19:t6:hexdump")
    esc_colors = ["\033[" + b + "m" for b in COLOR_BODIES]
    n_cases = 1500 if tier == "quick" else 12000
    forced = [(t, 0) for t in PREFIX_TOKENS] + [("", o) for o in OFFSETS]  # every token alone, every offset once
    for i in range(n_cases):
        prefix, offset = forced[i] if i < len(forced) else (gen_prefix(rnd), None)
        if offset is None:
            r = rnd.random()
            offset = rnd.choice(OFFSETS) if r < 0.6 else rnd.randrange(1 << rnd.randint(1, 70)) if r < 0.92 else -rnd.randrange(1, 1 << rnd.randint(1, 40))
        data = gen_data(rnd, tier)
        n = len(data)
        free = rnd.random() < 0.15
        pal = gen_palette(rnd, n, FREE_COLORS + esc_colors if free else esc_colors)
        dtype = rnd.choice(["bytes", "bytes", "bytes", "bytearray", "memoryview"])
        arg = data if dtype == "bytes" else bytearray(data) if dtype == "bytearray" else memoryview(data)
        mode = rnd.choice(["string", "string", "generator", "print"])
        style = rnd.choice(["positional", "keyword", "mixed"])
        if i < len(forced):  # every token / offset once in the simplest setting (readable replays)
            data, pal, free, dtype, mode, style = data[:rnd.choice([1, 5, 17])] or b"A", None, False, "bytes", "string", "mixed"
            n, arg = len(data), data
        case = {"kind": "hexdump-params", "data": data.hex(), "palette": pal, "offset": offset, "prefix": prefix, "data_type": dtype, "output": mode,
                "call": style}
        res.count(("hexdump-params", data, repr(pal), offset, prefix, dtype, mode, style), nontrivial=n > 1)
        res.feat("hexdump-params:prefix=" + ("empty" if not prefix else "brace" if ("{" in prefix or "}" in prefix) else "percent" if "%" in prefix else
                                             "backslash" if "\\" in prefix else "non-ascii" if any(ord(c) > 126 for c in prefix) else "other"))
        res.feat("hexdump-params:output=" + mode)
        res.feat("hexdump-params:offset=" + ("negative" if offset < 0 else "9+digits" if offset + n > 0xFFFFFFFF else "8digits"))
        res.feat("hexdump-params:palette=" + ("none" if pal is None else "empty" if not pal else "free-form" if free else "escape-sequences"))
        if dtype != "bytes":
            res.feat("hexdump-params:data=" + dtype)
        if len(prefix) > 100:
            res.feat("hexdump-params:prefix>100chars")
        try:
            base = list(U.hexdump(data, None, offset=offset, prefix="", output="generator"))
            col = list(U.hexdump(data, None if pal is None else list(pal), offset=offset, prefix="", output="generator"))
            kind, got = call_hexdump(U, arg, pal, offset, prefix, mode, style)
        except Exception as ex:  # noqa: BLE001
            viol(f"hexdump(<{n} bytes>, palette={pal!r}, offset={offset}, prefix={prefix!r}, output={mode!r}) raised {type(ex).__name__}: {ex}", case)
            continue
        # lossless, sixteen per line, running offset
        err = plain_lines_error(base, data, offset)
        if err:
            viol(f"plain hexdump at offset {offset}: {err}", case)
            continue
        # the palette changes nothing but the colour codes
        if not free:
            cols = [c for _, c in (pal or [])]
            stripped, foreign = strip_escape_colors("\n".join(col), cols)
            if stripped != "\n".join(base) or foreign:
                viol(f"hexdump with palette {pal!r} differs from the plain hexdump in more than the palette's colour codes"
                     + (f" (foreign sequences {foreign[:3]!r})" if foreign else ""), case)
                continue
        # the prefix changes nothing but the inserted text; every output mode delivers the same lines
        want = [prefix + ln for ln in col]
        if (got != want) if kind == "lines" else (got != "\n".join(want)):
            have = got if kind == "lines" else got.split("\n")
            bad = next((k for k, (a, b) in enumerate(zip(have, want)) if a != b), min(len(have), len(want)))
            viol(f"hexdump(prefix={prefix!r}, output={mode!r}): line {bad} is {(have[bad] if bad < len(have) else None)!r}, "
                 f"prefix + the line without a prefix is {(want[bad] if bad < len(want) else None)!r}", case)
            continue
        if offset >= 0 and (i % 2 == 0 or free or tier != "quick"):
            lines.append(sx([A("hexdump"), data, A("none") if pal is None else [[k, c] for k, c in pal], offset]))
            metas.append(("hexdump", case, ("\n".join(want), prefix)))


# ------------------------------------------------------------------------------------------------ dumpstruct parameters

DUMP_DEFS = [
    # (definition, data maker name, has_bits, has_void)
    ("struct S { char tag[4]; uint8 n; char body[n]; uint16 tail; };", "tagged", False, False),
    ("struct S { uint8 a; uint8 pad[15]; uint32 b; uint8 c[17]; uint16 d; };", "random", False, False),
    ("struct S { uint64 q; int8 n1; int16 n2; int32 n3; int64 n4; int24 n5; };", "negative", False, False),
    ("enum E : uint8 { A = 1, B = 2 }; struct S { E e; E f; uint8 x; };", "enum", False, False),
    ("struct S { uint8 a; char s[]; uint8 z; };", "cstring", False, False),
    ("struct S { wchar w[]; uint8 z; };", "wstring", False, False),
    ("struct S { uint8 a; struct { uint16 x; char y[3]; } in[2]; uint8 z; };", "random", False, False),
    ("struct S { uint32 a:3; uint32 b:29; uint8 c:1; uint8 d:7; char e[2]; };", "random", True, False),
    ("struct S { char only[33]; };", "tagged", False, False),
    ("struct S { uint8 n; uint16 v[n]; char t[n]; };", "counted", False, False),
    ("struct S { uint16 a; void v; char b[2]; };", "random", False, True),
    ("struct S { uint8 a; struct { uint8 x; uint8 y; }; uint8 z; uint8 many[50]; };", "random", False, False),
    ("struct S { uint8 a; uint8 *p; int16 q[3]; uint64 big[4]; };", "random", False, False),
    # inputs that differ from what the structure dumps to: bits no bit-field declares, alignment padding
    ("struct S { uint16 a:4; uint16 b:5; uint8 c; uint32 d:3; uint8 e; };", "random", True, False),
    ("struct S { uint8 a; uint32 b; uint8 c; uint16 d; uint8 e; };", "random+align", False, False),
    ("struct S { uint8 a; uint16 f:3; uint64 g; char t[3]; };", "random+align", True, False),
]


def make_data(rnd, how: str) -> bytes:
    rb = lambda k: bytes(rnd.randrange(1, 256) for _ in range(k))  # noqa: E731
    if how == "tagged":
        body = bytes(rnd.choice(b"{}%\\$'\"x0 \n\x00\xff") for _ in range(rnd.choice([0, 1, 7, 16, 29])))
        return bytes(rnd.choice(b"{}%\\{x") for _ in range(4)) + bytes([len(body)]) + body + rb(2) + bytes(rnd.choice(b"{}%\\") for _ in range(40))
    if how == "negative":
        return rb(8) + bytes(rnd.choice([0x80, 0xFF, 0xFE, 0x7F, 0x00]) for _ in range(1 + 2 + 4 + 8 + 3))
    if how == "enum":
        return bytes([rnd.choice([1, 2]), rnd.choice([1, 2, 3, 0, 255]), rnd.randrange(256)])
    if how == "cstring":
        return rb(1) + bytes(rnd.choice(b"{}%\\ab'\"") for _ in range(rnd.choice([0, 1, 14, 15, 16, 30]))) + b"\x00" + rb(1)
    if how == "wstring":
        return "".join(rnd.choice("{}%\\aé日'") for _ in range(rnd.choice([0, 1, 7, 8, 9]))).encode("utf-16-le") + b"\x00\x00" + rb(1)
    if how == "counted":
        k = rnd.choice([0, 1, 5, 16])
        return bytes([k]) + rb(2 * k) + bytes(rnd.choice(b"{}%\\z") for _ in range(k))
    return rb(64)


def _listing_values(listing: str) -> dict:
    """field name -> the text behind '- name: ' (continuation lines joined)"""
    out, cur = {}, None
    for ln in listing.split("\n")[1:]:
        m = re.match(r"- ([A-Za-z_][A-Za-z0-9_]*): (.*)$", ln, flags=re.S)
        if m:
            cur = m.group(1)
            out[cur] = m.group(2)
        elif cur is not None:
            out[cur] += "\n" + ln
    return out


def dumpstruct_model_line(obj, raw: bytes, offset: int, color: bool) -> str:
    """The driver line for utils._dumpstruct(obj, raw, offset, color, "string"): the class name, per entry of __fields__ the name, whether
    its type is anonymous, the recorded size and the value as _dumpstruct distinguishes it (integers go to the model as integers; the
    renderings the model does not carry - repr of str / Pointer / Enum, pprint.pformat of lists, str() of anything else - are computed here)."""
    import pprint
    from enum import Enum

    from dissect.cstruct.types.pointer import Pointer

    fs = []
    for f in type(obj).__fields__:
        anon = bool(getattr(f.type, "anonymous", False))
        size = obj._sizes.get(f._name) if hasattr(obj, "_sizes") else None
        if anon:
            fs.append([f._name, 1, size if isinstance(size, int) and size >= 0 else None, [A("text"), ""]])
            continue
        v = getattr(obj, f._name)
        if isinstance(v, (str, Pointer, Enum)):
            val = [A("text"), repr(v)]
        elif isinstance(v, int):
            val = [A("int"), int(v)]
        elif isinstance(v, list):
            val = [A("list"), pprint.pformat(v)]
        else:
            val = [A("text"), f"{v}"]
        fs.append([f._name, 0, size if isinstance(size, int) and size >= 0 else None, val])
    return sx([A("dumpstruct"), type(obj).__name__, fs, raw, offset, 1 if color else 0])


def dumpstruct_model_text(s) -> str | None:
    """the parsed driver answer -> the string utils._dumpstruct(..., output="string") returns"""
    if s[0] != "ok":
        return None
    hexpart = "\n".join(f"{int(l[0]):08x}  {str(l[1]):48s}  {str(l[2])}" for l in s[1])
    return "\n" + hexpart + "\n\n" + "\n".join([str(s[2])] + [str(x) for x in s[3]])


def dumpstruct_params(env, res, U, dc, viol, lines=None, metas=None):
    tier = env["tier"]
    rnd = mkrng(env["seed"], "c19:t6:dumpstruct")
    from enum import Enum

    rounds = 4 if tier == "quick" else 25
    for text, how, has_bits, has_void in DUMP_DEFS:
        for compiled in (False, True):
            cs = dc.cstruct()
            cs.load(text, compiled=compiled, align=how.endswith("+align"))
            for _ in range(rounds):
                data = make_data(rnd, how.split("+")[0])
                try:
                    fh = io.BytesIO(data)
                    obj = cs.S(fh)  # from a stream: S(bytes) of a lone char array is value initialisation, not parsing
                    raw = obj.dumps()
                    # the bytes the structure was parsed from: they differ from obj.dumps() where the input has non-zero padding or
                    # bits no bit-field declares; dumpstruct(S, data) must show THEM (it dumps the data it was given)
                    given = data[:fh.tell()]
                except Exception:  # noqa: BLE001   parsing / writing belongs to other properties
                    res.feat("dumpstruct-params:skipped-unparsable")
                    continue
                fields = cs.S.__fields__
                # the library's "single char/bytes member" shortcut: S(data) initialises the member instead of parsing
                shortcut = (len(fields) == 1 and isinstance(fields[0].type, type) and issubclass(fields[0].type, bytes) and not fields[0].bits
                            and len(raw) == fields[0].type.size)
                for color in (False, True):
                    offset = rnd.choice([0, 1, 16, 0x1000, 0xFFFFFFF8, 1 << 36, rnd.randrange(1 << 33)])
                    mode = rnd.choice(["string", "print"])
                    form = rnd.choice(["instance", "class+data"])
                    if shortcut and form == "class+data" and color:
                        # dumpstruct(S, data, color=True) with S = struct { char only[N]; } and N bytes of data raises AttributeError ('_sizes') on
                        # the unmodified tree: S(data) takes the value-initialisation shortcut and such objects carry no field sizes
                        # (found by this probe, repaired: fixed F47) - probed like every other shape
                        res.feat("dumpstruct-params:class+data-of-a-lone-char-array")
                    case = {"kind": "dumpstruct", "definition": text, "compiled": compiled, "color": color, "has_bits": has_bits, "has_void": has_void,
                            "data": data.hex(), "offset": offset, "output": mode, "form": form}
                    res.count(("dumpstruct-params", text, compiled, color, data, offset, mode, form))
                    res.feat("dumpstruct-params:" + mode + ":" + form)

                    def dump(color_, mode_=mode, form_=form, offset_=offset):
                        args = (obj,) if form_ == "instance" else (cs.S, given)
                        if mode_ == "print":
                            buf = io.StringIO()
                            with contextlib.redirect_stdout(buf):
                                r = U.dumpstruct(*args, offset=offset_, color=color_, output="print")
                            t = buf.getvalue()
                            if r is not None or not t.endswith("\n"):
                                raise AssertionError(f"print mode returned {r!r} / printed {t[-20:]!r}")
                            return t[:-1]
                        return U.dumpstruct(*args, offset=offset_, color=color_, output="string")

                    try:
                        out = dump(color)
                        # (the two call forms show the same bytes only when the input is what the structure dumps to)
                        plain = dump(False, "string", "instance" if given == raw else form)
                        if given != raw:
                            res.feat("dumpstruct-params:input-differs-from-dumps:" + form)
                    except Exception as ex:  # noqa: BLE001
                        viol(f"dumpstruct(offset={offset}, color={color}, output={mode!r}, {form}) raised {type(ex).__name__}: {ex}", case)
                        continue
                    if lines is not None and offset >= 0:
                        try:
                            lines.append(dumpstruct_model_line(obj, raw if form == "instance" else given, offset, color))
                            metas.append(("dumpstruct", case, (out,)))
                        except Exception:  # noqa: BLE001   a structure the line cannot describe is not sent
                            res.feat("dumpstruct-params:not-sent-to-the-model")
                    txt = re.sub(r"\033\[[0-9;]*m", "", out)
                    # colour (and the output mode / call form) changes nothing but the colour codes (color=False still ends full lines with NORMAL)
                    addr = lambda t: re.sub(r" object at 0x[0-9a-f]+>", " object>", t)  # noqa: E731   default reprs (void) name an address
                    if addr(txt) != addr(re.sub(r"\033\[[0-9;]*m", "", plain)):
                        viol("dumpstruct with color / print mode / (class, data) form differs from the plain string dump of the instance in more than "
                             "the colour codes", case)
                        continue
                    hexpart, _, listing = txt.strip("\n").partition("\n\n")
                    err = plain_lines_error(hexpart.split("\n") if hexpart else [], raw if form == "instance" else given, offset)
                    if err:
                        viol(f"dumpstruct's hex dump is not a dump of exactly the structure's bytes at offset {offset}: {err}", case)
                        continue
                    vals = _listing_values(listing)
                    for f in cs.S.__fields__:
                        name = f._name
                        v = getattr(obj, name)
                        if name not in vals:
                            viol(f"dumpstruct does not list field {name}", case)
                            break
                        shown = vals[name]
                        ok = True
                        if isinstance(v, Enum) or type(v).__name__ == "Pointer" or any(b.__name__ == "Pointer" for b in type(v).__mro__):
                            ok = shown == repr(v)
                        elif isinstance(v, bool):
                            pass
                        elif isinstance(v, int):
                            try:
                                ok = int(shown, 16) == int(v)
                            except ValueError:
                                ok = False
                        elif isinstance(v, (bytes, str)):
                            try:
                                ok = ast.literal_eval(shown) == v
                            except (ValueError, SyntaxError):
                                ok = False
                        elif isinstance(v, list) and all(isinstance(e, int) and not isinstance(e, Enum) for e in v):
                            try:
                                ok = ast.literal_eval(shown) == [int(e) for e in v]
                            except (ValueError, SyntaxError):
                                ok = False
                        if not ok:
                            viol(f"dumpstruct lists field {name} as {shown[:80]!r}, its value is {v!r}", case)
                            break


# ------------------------------------------------------------------------------------------------ pack / unpack / swap over widths 1..130

def boundary_values(w: int):
    half = 1 << (w - 1)
    vals = {0, 1, 2, half - 1, half, half + 1, (1 << w) - 2, (1 << w) - 1, -1, -2, -half, -half + 1, -(half >> 1), 0x7F, 0x80, 0xFF, 0x100, -0x80, -0x81}
    for k in range(8, w, 8):  # around every byte boundary below the width
        vals |= {(1 << k) - 1, 1 << k, -(1 << (k - 1)), -(1 << (k - 1)) - 1, -(1 << k)}
    return sorted(v for v in vals if (0 <= v < (1 << w)) or (-half <= v < 0))


def pack_widths(env, res, U, viol, lines, metas):
    tier = env["tier"]
    rnd = mkrng(env["seed"], "c19:t6:pack")
    n_rand = 6 if tier == "quick" else 150
    model_seen = set()
    for w in range(1, 131):
        nb = (w + 7) // 8
        whole = w % 8 == 0
        half = 1 << (w - 1)
        vals = boundary_values(w)
        vals += [rnd.randrange(-half, 1 << w) for _ in range(n_rand)]
        for v in vals:
            sps = list(ENDIAN_ALL.items())
            if tier == "quick" and len(vals) > 30:
                sps = rnd.sample(sps, 4)
            for sp, order in sps:
                case = {"kind": "pack-width", "value": v, "size": w, "endian": sp}
                res.count(("pack-width", v, w, sp), nontrivial=w > 8)
                res.feat("pack-width:" + ("multiple-of-8" if whole else "not-multiple-of-8"))
                res.feat("pack-width:" + ("negative" if v < 0 else "non-negative"))
                if sp in "@=":
                    res.feat("pack-width:native-spelling")
                want = twos(v, nb, order)
                try:
                    bs = U.pack(v, w, sp)
                except Exception as ex:  # noqa: BLE001
                    viol(f"pack({v:#x}, {w}, {sp!r}) raised {type(ex).__name__}: {ex}; the value fits in {w} bits", case)
                    continue
                if bs != want:
                    viol(f"pack({v:#x}, {w}, {sp!r}) = {bs.hex() or '(empty)'}, two's complement {order} in ceil({w}/8) = {nb} bytes is {want.hex()}", case)
                    continue
                # unpack is the inverse (without a size and with the whole-byte size; see the note on explicit sizes below)
                try:
                    backs = {("none", v < 0): U.unpack(bs, None, sp, v < 0), (8 * nb, v < 0): U.unpack(bs, 8 * nb, sp, sign=v < 0)}
                    if 0 <= v < (1 << (8 * nb - 1)):
                        backs[("none", True)] = U.unpack(bs, None, sp, sign=True)
                except Exception as ex:  # noqa: BLE001
                    viol(f"unpack(pack({v:#x}, {w}, {sp!r})) raised {type(ex).__name__}: {ex}", case)
                    continue
                bad = [(k, b) for k, b in backs.items() if b != v]
                if bad:
                    viol(f"unpack(pack({v:#x}, {w}, {sp!r}) = {bs.hex()}, size={bad[0][0][0]}, sign={bad[0][0][1]}) = {bad[0][1]:#x}", case)
                    continue
                if from_twos(bs, order, v < 0) != v:
                    raise AssertionError("t6_c19: the oracle's own decode disagrees with its encode")
                # pack(unpack(bs)) = bs
                for sg in (False, True):
                    u = U.unpack(bs, None, sp, sign=sg)
                    if (0 <= u < (1 << w)) or (-half <= u < 0):
                        if U.pack(u, w, sp) != bs:
                            viol(f"pack(unpack({bs.hex()}, sign={sg}) = {u:#x}, {w}, {sp!r}) = {U.pack(u, w, sp).hex()}", case)
                if whole:
                    for sg in (False, True):
                        got = U.unpack(bs, w, sp, sign=sg)
                        if got != from_twos(bs, order, sg):
                            viol(f"unpack({bs.hex()}, {w}, {sp!r}, sign={sg}) = {got:#x}, two's complement says {from_twos(bs, order, sg):#x}", case)
                else:
                    # The unmodified library's unpack() rejects every explicit size that is not a multiple of 8 (it demands len == size // 8
                    # while pack() writes ceil(size / 8) bytes), and swap() is built on it.  Counted, not judged, here.
                    res.feat("unpack:explicit-size-not-multiple-of-8")
                    if True:  # used to raise ValueError for every w % 8 != 0 (found by this probe, repaired: fixed F46)
                        if U.unpack(bs, w, sp, sign=v < 0) != v:
                            viol(f"unpack(pack({v:#x}, {w}, {sp!r}), {w}) is not the value", case)
                        if v >= 0 and U.swap(U.swap(v, w), w) != v:
                            viol(f"swap(swap({v:#x}, {w}), {w}) is not the identity", case)
                key = (v, w, order)
                if key not in model_seen and (not whole or w > 64 or rnd.random() < 0.3):
                    model_seen.add(key)
                    e = A("le" if order == "little" else "be")
                    lines.append(sx([A("pack"), v, w, e]))
                    metas.append(("pack", case, ("ok", bs)))
                    sg = int(rnd.random() < 0.5)
                    lines.append(sx([A("unpack"), bs, A("none"), e, sg]))
                    metas.append(("unpack", case, ("ok", U.unpack(bs, None, sp, sign=bool(sg)))))
                    if not whole and rnd.random() < 0.2:  # model and library agree that the explicit size is rejected
                        try:
                            r = ("ok", U.unpack(bs, w, sp))
                        except ValueError:
                            r = ("err",)
                        lines.append(sx([A("unpack"), bs, w, e, 0]))
                        metas.append(("unpack", case, r))
            # swap: involution and byte reversal on the unsigned values of a whole-byte width
            if whole and v >= 0:
                case = {"kind": "swap-width", "value": v, "size": w}
                res.count(("swap-width", v, w), nontrivial=w > 8)
                res.feat("swap-width")
                try:
                    s1 = U.swap(v, w)
                    s2 = U.swap(s1, w)
                except Exception as ex:  # noqa: BLE001
                    viol(f"swap({v:#x}, {w}) raised {type(ex).__name__}: {ex}", case)
                    continue
                if s2 != v or s1 != from_twos(twos(v, nb, "big"), "little", False):
                    viol(f"swap({v:#x}, {w}) = {s1:#x}, swap of that = {s2:#x}", case)

    # values that do not fit a width that is not a whole number of bytes: outside the property's domain, the library accepts some (it only
    # checks the byte count); counted for the evidence file
    for w in (1, 4, 7, 9, 12, 31, 33, 63, 65, 127):
        for v in (1 << w, -(1 << (w - 1)) - 1):
            try:
                U.pack(v, w, "little")
                res.feat("pack:not-multiple-of-8:unfitting-value-accepted")
            except OverflowError:
                res.feat("pack:not-multiple-of-8:unfitting-value-rejected")

    # fixed-width helpers: negative and boundary values, sign=True / False, every spelling; swapN is swap(., N) and reverses the bytes
    helpers = ((8, U.p8, U.u8, None), (16, U.p16, U.u16, U.swap16), (32, U.p32, U.u32, U.swap32), (64, U.p64, U.u64, U.swap64))
    for w, p, u, sw in helpers:
        nb = w // 8
        for v in boundary_values(w) + [rnd.randrange(-(1 << (w - 1)), 1 << w) for _ in range(4 * n_rand)]:
            for sp, order in ENDIAN_ALL.items():
                case = {"kind": "helper-width", "value": v, "size": w, "endian": sp}
                res.count(("helper-width", w, v, sp))
                res.feat("helper-width:" + ("negative" if v < 0 else "non-negative"))
                try:
                    bs = p(v, sp)
                    back = u(bs, sp, sign=v < 0)
                    other = u(bs, sp, v >= 0)
                except Exception as ex:  # noqa: BLE001
                    viol(f"p{w}/u{w}({v:#x}, {sp!r}) raised {type(ex).__name__}: {ex}", case)
                    continue
                if bs != twos(v, nb, order) or back != v or other != from_twos(bs, order, v >= 0):
                    viol(f"p{w}({v:#x}, {sp!r}) = {bs.hex()}, u{w} of it = {back:#x} (other signedness {other:#x}); two's complement {order} is "
                         f"{twos(v, nb, order).hex()}", case)
            if sw and v >= 0:
                s1 = sw(v)
                if sw(s1) != v or s1 != from_twos(twos(v, nb, "big"), "little", False) or s1 != U.swap(v, w):
                    viol(f"swap{w}({v:#x}) = {s1:#x}, swap{w} of that = {sw(s1):#x}", {"kind": "helper-width", "value": v, "size": w})

    # auto-sized pack of non-negative values of every bit length 0..130
    for k in range(0, 131):
        for v in {0 if k == 0 else 1 << (k - 1), (1 << k) - 1, rnd.getrandbits(k) | ((1 << (k - 1)) if k else 0)}:
            for sp, order in (("little", "little"), ("big", "big"), rnd.choice(list(ENDIAN_ALL.items()))):
                case = {"kind": "autopack", "value": v, "endian": sp}
                res.count(("autopack-width", v, sp))
                res.feat("autopack-width")
                try:
                    bs = U.pack(v, None, sp)
                    back = U.unpack(bs, None, sp)
                except Exception as ex:  # noqa: BLE001
                    viol(f"pack/unpack({v:#x}) without a size raised {type(ex).__name__}: {ex}", case)
                    continue
                if bs != twos(v, (k + 7) // 8, order) or back != v:
                    viol(f"pack({v:#x}, None, {sp!r}) = {bs.hex()}, unpack of it = {back:#x}; {(k + 7) // 8} bytes {order} are {twos(v, (k + 7) // 8, order).hex()}", case)
