"""C14, round 4 follow-up: a parse that fails INSIDE the evaluation of an array-length expression (division by zero, a shift by a
negative count, an unbound name) must leave nothing behind: the next parse with the same types on the same cstruct object gives what a
brand-new cstruct object with the same definitions gives for the same bytes (value, consumed bytes, dumps)."""
from __future__ import annotations

import io

EXPRS = [  # (expression over the members a, b; member values that make the evaluation raise)
    ("1 + a / b", lambda a, b: b == 0), ("a % b + 2", lambda a, b: b == 0), ("(a + 3) / (b - 2)", lambda a, b: b == 2),
    ("2 * (a / b) + 1", lambda a, b: b == 0), ("a + 1 << (b - 3)", lambda a, b: b < 3), ("(a | 1) * 2 / b", lambda a, b: b == 0),
]


def run(env, res, viol, rnd, dc):
    n = 40 if env["tier"] == "quick" else 1200
    for it in range(n):
        expr, bad = rnd.choice(EXPRS)
        elem = rnd.choice(["uint8", "uint16", "int24", "char"])
        endian, compiled, align = rnd.choice("<>"), rnd.random() < 0.5, rnd.random() < 0.3
        text = f"struct R {{ uint8 a; uint8 b; {elem} rows[{expr}]; uint8 tail; }};\nstruct Q {{ uint8 a; uint8 b; uint16 w[{expr}]; }};"
        case = {"definition": text, "endian": endian, "compiled": compiled, "align": align, "history": []}

        def mk():
            cs = dc.cstruct(endian=endian)
            cs.load(text, compiled=compiled, align=align)
            return cs

        try:
            cs = mk()
        except Exception as e:  # noqa: BLE001
            viol(f"definition with a computed array length is rejected: {type(e).__name__}: {e}", case)
            continue
        res.feat("expression-fault-history")
        for step in range(rnd.randint(2, 6)):
            T = rnd.choice(["R", "Q"])
            a, b = rnd.randrange(0, 6), rnd.choice([0, 0, 1, 2, 2, 3, 4])
            data = bytes([a, b]) + bytes(rnd.randrange(1, 255) for _ in range(40))
            faulty = bad(a, b)
            case["history"].append(f"cs.{T}(bytes.fromhex('{data.hex()}'))" + ("   # the length expression raises" if faulty else ""))
            res.count(("expr-fault", text, endian, compiled, align, tuple(case["history"])), True)

            def parse(c):
                fh = io.BytesIO(data)
                try:
                    v = getattr(c, T)(fh)
                    return ("ok", repr(v), fh.tell(), v.dumps())
                except Exception as e:  # noqa: BLE001
                    return ("err", type(e).__name__)

            got, want = parse(cs), parse(mk())
            if got != want:
                viol(f"after {sum(1 for h in case['history'][:-1] if 'raises' in h)} parse(s) that failed inside the length expression, "
                     f"{case['history'][-1]} gives {str(got)[:160]} on the object with that history and {str(want)[:160]} on a new object", dict(case))
                break
