"""An independent reference implementation (textbook rules, plain Python) of layout, parsing and the data mask for the
generator's definition trees.  It shares no code with the library or with the Lean model; the checks use it as the
specification-side oracle: C layout rule, bit-slicing, array length semantics, which bits of the input carry data.

Values are produced in the same canonical form as `impl.canon` so that they can be compared directly.
"""
from __future__ import annotations

import struct

from . import defs
from .common import A

SC = {  # name -> (kind, size, signed, alignment)
    "int8": ("int", 1, True, 1), "uint8": ("int", 1, False, 1), "int16": ("int", 2, True, 2), "uint16": ("int", 2, False, 2),
    "int32": ("int", 4, True, 4), "uint32": ("int", 4, False, 4), "int64": ("int", 8, True, 8), "uint64": ("int", 8, False, 8),
    "int24": ("int", 3, True, 4), "uint24": ("int", 3, False, 4), "int48": ("int", 6, True, 8), "uint48": ("int", 6, False, 8),
    "int128": ("int", 16, True, 16), "uint128": ("int", 16, False, 16),
    "float16": ("flt", 2, None, 2), "float": ("flt", 4, None, 4), "double": ("flt", 8, None, 8),
    "char": ("char", 1, None, 1), "wchar": ("wchar", 2, None, 2), "void": ("void", 0, None, 1),
    "uleb128": ("leb", None, False, 1), "ileb128": ("leb", None, True, 1),
}
ALIAS = {"BYTE": "uint8", "WORD": "uint16", "DWORD": "uint32", "QWORD": "uint64", "short": "int16", "unsigned int": "uint32",
         "long long": "int64", "u1": "uint8", "u2": "uint16", "__u32": "uint32", "uint64_t": "uint64", "signed char": "int8",
         "unsigned short": "uint16", "int": "int32", "unsigned long long": "uint64", "uint32_t": "uint32", "int64_t": "int64",
         "wchar_t": "wchar", "unsigned char": "char", "long": "int32", "u4": "uint32", "u8": "uint64"}


class Short(Exception):
    """input ends before the value does"""


class Bad(Exception):
    """not a value (ill-formed UTF-16, straddling bit-field, ...)"""


def sc(name):
    return SC[ALIAS.get(name, name)]


class Cfg:
    def __init__(self, endian="<", align=False, ptr="uint64", consts=None):
        self.endian = "little" if endian == "<" else "big"
        self.align = align
        self.ptr = ptr
        self.consts = dict(consts or {})


def roundup(o, a):
    return (o + a - 1) // a * a


# ------------------------------------------------------------------------------------------------ static layout

def size_align(ty, cfg):
    """-> (size or None, alignment)"""
    k = ty[0]
    if k == "sc":
        _, size, _, al = sc(ty[1])
        return size, al
    if k == "enum":
        return size_align(("sc", defs.ENUMS[ty[1]][1]), cfg)
    if k == "ptr":
        return size_align(("sc", cfg.ptr), cfg)
    if k == "arr":
        s, a = size_align(ty[1], cfg)
        l = ty[2]
        if l[0] == "fixed" and s is not None:
            return l[1] * s, a
        return None, a
    if k == "struct":
        lay = struct_layout(ty[1], cfg)
        return lay["size"], lay["align"]
    if k == "union":
        sizes, als = [], []
        for f in ty[1]:
            s, a = size_align(f["ty"], cfg)
            sizes.append(s)
            als.append(a)
        al = max(als) if als else 1
        if any(s is None for s in sizes):
            return None, al
        size = max(sizes) if sizes else 0
        return (roundup(size, al) if cfg.align else size), al
    raise ValueError(k)


def struct_layout(fields, cfg):
    """C rule. offsets[i] is None once a dynamic member was passed; bit-fields: the offset of their unit for the first
    field of a unit, None for the others (they have no offset of their own)."""
    off = 0
    maxal = 0
    offsets = []
    unit = None  # (typename, remaining)
    for f in fields:
        size, al = size_align(f["ty"], cfg)
        maxal = max(maxal, al)
        if f["bits"]:
            base = f["ty"][1] if f["ty"][0] == "sc" else defs.ENUMS[f["ty"][1]][1]
            base = ALIAS.get(base, base)
            if unit is None or unit[0] != base or unit[1] == 0:
                if off is not None and cfg.align:
                    off = roundup(off, al)
                offsets.append(off)
                unit = [base, size * 8]
                if off is not None:
                    off += size
            else:
                offsets.append(None)
            if f["bits"] > unit[1]:
                raise Bad("straddle")
            unit[1] -= f["bits"]
            continue
        unit = None
        if off is not None and cfg.align:
            off = roundup(off, al)
        offsets.append(off)
        if off is not None:
            off = None if size is None else off + size
    total = off
    if total is not None and cfg.align and maxal:
        total = roundup(total, maxal)
    return {"size": total, "align": maxal, "offsets": offsets}


# ------------------------------------------------------------------------------------------------ parsing with mask

def take(data, pos, n):
    if pos + n > len(data):
        raise Short
    return data[pos : pos + n]


def decode_int(bs, signed, cfg):
    return int.from_bytes(bs, cfg.endian, signed=signed)


def units_of(bs, cfg):
    return [int.from_bytes(bs[i : i + 2], cfg.endian) for i in range(0, len(bs), 2)]


def check_utf16(us):
    i = 0
    while i < len(us):
        u = us[i]
        if 0xD800 <= u <= 0xDBFF:
            if i + 1 >= len(us) or not (0xDC00 <= us[i + 1] <= 0xDFFF):
                raise Bad("surrogate")
            i += 2
        elif 0xDC00 <= u <= 0xDFFF:
            raise Bad("surrogate")
        else:
            i += 1


class P:
    """one parse: data, mask of data-carrying bits (same length as data)"""

    def __init__(self, data, cfg):
        self.data, self.cfg = data, cfg
        self.mask = bytearray(len(data))

    def mark(self, pos, n, m=0xFF):
        for i in range(pos, pos + n):
            self.mask[i] |= m

    def scalar(self, name, pos):
        kind, size, signed, _ = sc(name)
        cfg = self.cfg
        if kind == "int":
            bs = take(self.data, pos, size)
            self.mark(pos, size)
            return [A("int"), decode_int(bs, signed, cfg)], pos + size
        if kind == "flt":
            bs = take(self.data, pos, size)
            self.mark(pos, size)
            return [A("flt"), int.from_bytes(bs, cfg.endian)], pos + size
        if kind == "char":
            bs = take(self.data, pos, 1)
            self.mark(pos, 1)
            return [A("bytes"), bytes(bs)], pos + 1
        if kind == "wchar":
            bs = take(self.data, pos, 2)
            us = units_of(bs, cfg)
            check_utf16(us)
            self.mark(pos, 2)
            return [A("wstr"), *us], pos + 2
        if kind == "void":
            return [A("void")], pos
        if kind == "leb":
            res, shift, p = 0, 0, pos
            while True:
                b = take(self.data, p, 1)[0]
                p += 1
                res |= (b & 0x7F) << shift
                shift += 7
                if not b & 0x80:
                    break
            if signed and b & 0x40:
                res -= 1 << shift
            self.mark(pos, p - pos)
            return [A("int"), res], p
        raise ValueError(kind)

    def is_zero(self, v):
        if v[0] == "rec":  # an all-integer structure whose members are all zero
            return all(self.is_zero(x) or x[0] == "void" or (x[0] in ("list", "bytes", "wstr") and len(x) == 1) or (x[0] == "bytes" and not x[1])
                       for x in v[1:])
        return (v[0] in ("int", "enum", "ptr") and v[1] == 0) or (v[0] == "flt" and v[1] in (0,))

    def value(self, ty, pos, ctx):
        k = ty[0]
        if k == "sc":
            return self.scalar(ty[1], pos)
        if k == "enum":
            v, p = self.scalar(defs.ENUMS[ty[1]][1], pos)
            return [A("enum"), v[1]], p
        if k == "ptr":
            v, p = self.scalar(self.cfg.ptr, pos)
            return [A("ptr"), v[1]], p
        if k == "arr":
            return self.array(ty[1], ty[2], pos, ctx)
        if k == "struct":
            return self.struct(ty[1], pos)
        if k == "union":
            return self.union(ty[1], pos)
        raise ValueError(k)

    def array(self, elem, ln, pos, ctx):
        ischar = elem == ("sc", "char") or (elem[0] == "sc" and ALIAS.get(elem[1]) == "char")
        iswchar = elem[0] == "sc" and ALIAS.get(elem[1], elem[1]) == "wchar"
        if ln[0] == "null":
            out, p = [], pos
            while True:
                start = p
                v, p = self.value(elem, p, ctx)
                if ischar and v[1] == b"\x00":
                    break
                if iswchar and v[1:] == [0]:
                    break
                if not ischar and not iswchar and self.is_zero(v):
                    break
                if p == start:
                    raise Bad("no progress")
                out.append(v)
            return self.pack_array(out, ischar, iswchar), p
        if ln[0] == "eof":
            out, p = [], pos
            s, _ = size_align(elem, self.cfg)
            while p < len(self.data):
                v, p = self.value(elem, p, ctx)
                out.append(v)
            return self.pack_array(out, ischar, iswchar), p
        n = ln[1] if ln[0] == "fixed" else max(0, eval_expr(ln[1], ctx, self.cfg.consts))
        out, p = [], pos
        if iswchar:
            bs = take(self.data, pos, 2 * n)
            us = units_of(bs, self.cfg)
            check_utf16(us)
            self.mark(pos, 2 * n)
            return [A("wstr"), *us], pos + 2 * n
        for _ in range(n):
            v, p = self.value(elem, p, ctx)
            out.append(v)
        return self.pack_array(out, ischar, iswchar), p

    def pack_array(self, out, ischar, iswchar):
        if ischar:
            return [A("bytes"), b"".join(v[1] for v in out)]
        if iswchar:
            us = [u for v in out for u in v[1:]]
            check_utf16(us)
            return [A("wstr"), *us]
        return [A("list"), *out]

    def struct(self, fields, start):
        cfg = self.cfg
        pos = start
        vals, sizes = [], {}
        ctx = {}
        lay_off = 0  # static offset tracking; None once dynamic
        unit = None  # [base, width, used, value, unitpos]
        maxal = 0
        for idx, f in enumerate(fields):
            ty = f["ty"]
            _, al = size_align(ty, cfg)
            maxal = max(maxal, al)
            name = f["name"]
            if f["bits"]:
                base = ty[1] if ty[0] == "sc" else defs.ENUMS[ty[1]][1]
                base = ALIAS.get(base, base)
                kind, usize, signed, ual = sc(base)
                if unit is None or unit[0] != base or unit[2] == unit[1]:
                    if cfg.align:
                        pos = roundup(pos, ual) if lay_off is None else start + roundup(lay_off, ual)
                    elif lay_off is not None:
                        pos = start + lay_off
                    bs = take(self.data, pos, usize)
                    unit = [base, usize * 8, 0, int.from_bytes(bs, cfg.endian), pos]
                    pos += usize
                    if lay_off is not None:
                        lay_off = pos - start
                if unit[2] + f["bits"] > unit[1]:
                    raise Bad("straddle")
                b = f["bits"]
                lo = unit[2] if cfg.endian == "little" else unit[1] - unit[2] - b
                v = (unit[3] >> lo) & ((1 << b) - 1)
                # mask: bits [lo, lo+b) of the unit, mapped to bytes in stream order
                for bit in range(lo, lo + b):
                    byte = bit // 8 if cfg.endian == "little" else (unit[1] // 8 - 1 - bit // 8)
                    self.mask[unit[4] + byte] |= 1 << (bit % 8)
                unit[2] += b
                val = [A("enum"), v] if ty[0] == "enum" else [A("int"), v]
                vals.append(val)
                if name is not None:
                    ctx[name] = val
                continue
            unit = None
            size, _ = size_align(ty, cfg)
            if lay_off is not None:
                if cfg.align:
                    lay_off = roundup(lay_off, al)
                pos = start + lay_off
            elif cfg.align:
                pos = roundup(pos, al)
            v, p = self.value(ty, pos, ctx)
            vals.append(v)
            if name is not None:
                ctx[name] = v
            if p - pos:
                sizes[idx] = p - pos
            pos = p
            if lay_off is not None:
                lay_off = None if size is None else lay_off + size
        if cfg.align and maxal:
            pos = roundup(pos, maxal)
        self.last_sizes = sizes
        return [A("rec"), *vals], pos

    def union(self, fields, start):
        size, _ = size_align(("union", fields), self.cfg)
        if size is None:
            raise Bad("dynamic union")
        avail = self.data[start : start + size]
        vals = []
        sub = P(bytes(avail), self.cfg)
        for f in fields:
            v, _ = sub.value(f["ty"], 0, {})
            vals.append(v)
        for i, m in enumerate(sub.mask):
            self.mask[start + i] |= m
        return [A("union"), bytes(avail), *vals], start + len(avail)


def parse(tree, data, pos, cfg):
    """-> (value, end, mask[pos:end]); raises Short / Bad"""
    p = P(bytes(data), cfg)
    v, end = p.value(tree, pos, {})
    mask = bytes(p.mask[pos:end]) + b"\x00" * max(0, end - len(data))
    return v, end, mask


# ------------------------------------------------------------------------------------------------ expressions (C semantics)

def eval_expr(text, ctx, consts):
    """tiny precedence-climbing evaluator for the array-length expressions the generator emits"""
    toks = tokenize(text)
    pos = 0
    PREC = {"|": 0, "^": 1, "&": 2, "<<": 3, ">>": 3, "+": 4, "-": 4, "*": 5, "/": 5, "%": 5}

    def peek():
        return toks[pos] if pos < len(toks) else None

    def nxt():
        nonlocal pos
        t = toks[pos]
        pos += 1
        return t

    def primary():
        t = nxt()
        if t == "(":
            v = expr(0)
            assert nxt() == ")"
            return v
        if t == "-":
            return -unary()
        if t == "~":
            return ~unary()
        if t[0].isdigit():
            return int(t, 0)
        if t in ctx:
            return int(ctx[t][1])
        return int(consts[t])

    def unary():
        return primary()

    def expr(minp):
        left = unary()
        while peek() in PREC and PREC[peek()] >= minp:
            op = nxt()
            right = expr(PREC[op] + 1)
            left = {"|": lambda a, b: a | b, "^": lambda a, b: a ^ b, "&": lambda a, b: a & b, "<<": lambda a, b: a << b,
                    ">>": lambda a, b: a >> b, "+": lambda a, b: a + b, "-": lambda a, b: a - b, "*": lambda a, b: a * b,
                    "/": lambda a, b: a // b, "%": lambda a, b: a % b}[op](left, right)
        return left

    return expr(0)


def tokenize(text):
    out, i = [], 0
    while i < len(text):
        c = text[i]
        if c in " \t":
            i += 1
        elif text[i : i + 2] in ("<<", ">>"):
            out.append(text[i : i + 2])
            i += 2
        elif c in "()+-*/%&|^~":
            out.append(c)
            i += 1
        else:
            j = i
            while j < len(text) and (text[j].isalnum() or text[j] == "_"):
                j += 1
            out.append(text[i:j])
            i = j
    return out
