"""Additional C17 probes (helper of props/c17.py): unusual field names, hash histories, boundary-value assignments.

Definitions: fixed-size structures of 1..9 members — integer scalars, bit-field runs (several fields per storage unit,
signed / unsigned / enum storage types), enums, char and char[k], integer arrays, nested and anonymous structures — whose
field names are drawn from unusual-but-legal identifiers (`_`, `__`, `_1`, dunder-, private- and template-internal-looking
names) mixed with ordinary ones.  The names of known finding F19 are not used here (props/c17.py keeps its own F19 cases).

"The bits of a field" are determined from the reader, not from a layout computed here: bit i of the input belongs to
top-level field k when flipping it in an all-zero input changes the parsed value of field k (and of no other field).

  names   : for EVERY field k a pair of instances that differ in exactly field k (one bit of the field flipped): `==`, `!=`
            must agree with the field-wise comparison; an instance in which exactly one field is non-zero must be truthy
            exactly when any(field) is; the same through the keyword constructor.
  hash    : histories on one instance: hash / use as set member and dict key, assign fields (also a nested structure's
            field in place), then compare with a never-hashed instance holding equal field values: field-wise equal
            instances must be `==`, hash equally, and find each other in sets / dicts built after the assignment.
  boundary: for every integer-like field (bit-fields: 0, 1, 2**n-1, 2**n, 2**n+1, -1; integers and array entries: min, max,
            min-1, max+1; enums by value) on an all-zero, an all-ones and a random instance: the assignment is either
            rejected with an error (at assignment or at dumps) or changes only bits of that field; a representable value
            must be read back.
"""
from __future__ import annotations

from . import defs, impl
from .structprops import rand_bytes

ODD = ["_", "__", "___", "_1", "_0", "_9", "__x", "__x__", "_hash", "_h", "_buf", "__hash__", "__eq__", "__bool__", "__init__", "__len__",
       "__fields__", "_name", "__name__", "__doc__", "__module__", "__slots__", "lookup", "__align__", "__anonymous__", "__compiled__",
       "_read", "_write", "commit", "__bytes__", "__repr__", "_proxify", "__ne__", "__str__", "__qualname__", "_self", "self_", "__default__",
       "_type", "_T", "_2", "__1", "_a", "__a"]
# known finding F19 (these names are exercised by props/c17.py's F19 cases, not here): a field named `__dict__` or `__weakref__` cannot be constructed at all (TypeError / AttributeError from
# the generated __init__), the same family as known finding F19 but not in its list of names.
INTS = {"uint8": (1, False), "int8": (1, True), "uint16": (2, False), "int16": (2, True), "uint32": (4, False), "int32": (4, True),
        "uint64": (8, False), "int64": (8, True), "uint24": (3, False), "int24": (3, True)}
ENUM_BASE = {"E8": "uint8", "F16": "uint16", "E32": "int32"}
BIT_BASES = ["uint8", "uint16", "uint32", "uint64", "uint16", "uint32", "int8", "int16", "int32", "E8", "F16"]


def gen(rnd, sname, anon_ok):
    """-> (text, [descriptor per top-level member]); descriptor: name (None = anonymous), kind, and kind-specific data"""
    prev_base = None   # storage type of the preceding bit-field run (a following run of the same type would continue its unit)
    pool = rnd.sample(ODD, rnd.randint(1, 8)) + [f"f{i}" for i in range(10)]
    rnd.shuffle(pool)
    if rnd.random() < 0.5 and "_" not in pool[:6]:
        pool = [x for x in pool if x != "_"]
        pool.insert(rnd.randrange(4), "_")
    pool += [f"g{i}" for i in range(30)]   # never run out of names
    names = iter(pool)
    nf = rnd.randint(1, 9)
    out, parts = [], []
    while len(out) < nf:
        r = rnd.random()
        if r < 0.28:
            t = rnd.choice(list(INTS))
            nm = next(names)
            out.append({"name": nm, "kind": "int", "type": t})
            parts.append(f"{t} {nm};")
        elif r < 0.58:
            bt = rnd.choice([b for b in BIT_BASES if ENUM_BASE.get(b, b) != prev_base])
            prev_base = ENUM_BASE.get(bt, bt)
            left = defs.WIDTH[bt]
            for _ in range(rnd.randint(2, 4)):
                if left == 0 or len(out) >= nf + 2:
                    break
                b = rnd.randint(1, min(left, rnd.choice([2, 4, 8, 9, 17, 33])))
                nm = next(names)
                out.append({"name": nm, "kind": "bits", "type": bt, "bits": b})
                parts.append(f"{bt} {nm} : {b};")
                left -= b
            continue
        elif r < 0.66:
            t = rnd.choice(list(ENUM_BASE))
            nm = next(names)
            out.append({"name": nm, "kind": "enum", "type": t})
            parts.append(f"{t} {nm};")
        elif r < 0.73:
            nm = next(names)
            k = rnd.choice([None, 2, 3])
            out.append({"name": nm, "kind": "char", "len": k})
            parts.append(f"char {nm};" if k is None else f"char {nm}[{k}];")
        elif r < 0.82:
            t = rnd.choice(list(INTS))
            nm = next(names)
            k = rnd.randint(1, 3)
            out.append({"name": nm, "kind": "intarr", "type": t, "len": k})
            parts.append(f"{t} {nm}[{k}];")
        elif r < 0.92:
            nm = next(names)
            i1, i2 = next(names), next(names)
            out.append({"name": nm, "kind": "nested", "inner": [i1, i2]})
            parts.append(f"struct {{ uint8 {i1}; uint16 {i2}; }} {nm};")
        else:
            # the fields of an anonymous member are installed as properties on the class
            i1, i2 = next(nm for nm in names if anon_ok(nm)), next(nm for nm in names if anon_ok(nm))
            out.append({"name": None, "kind": "anon", "inner": [i1, i2]})
            parts.append(f"struct {{ uint8 {i1}; uint16 {i2}; }};")
        prev_base = None
    return f"struct {sname} {{ {' '.join(parts)} }};", out


def fvals(x, T):
    return [getattr(x, f._name) for f in T.__fields__]


def fields_equal(a, b, T):
    return all(getattr(a, f._name) == getattr(b, f._name) for f in T.__fields__)


def bit_owner(T, size):
    """owner[i] = index of the top-level field whose parsed value depends on input bit i (None: padding / unused bits)"""
    zero = [impl.canon(v) for v in fvals(T(bytes(size)), T)]
    owner = []
    for i in range(size * 8):
        raw = bytearray(size)
        raw[i // 8] |= 1 << (i % 8)
        vals = [impl.canon(v) for v in fvals(T(bytes(raw)), T)]
        ch = [k for k in range(len(vals)) if vals[k] != zero[k]]
        if len(ch) > 1:
            return None
        owner.append(ch[0] if ch else None)
    return owner


def mask_of(owner, k, size):
    m = bytearray(size)
    for i, o in enumerate(owner):
        if o == k:
            m[i // 8] |= 1 << (i % 8)
    return bytes(m)


def boundary_values(d):
    if d["kind"] == "bits":
        n = d["bits"]
        return [0, 1, (1 << n) - 1, 1 << n, (1 << n) + 1, -1, (1 << n) - 2 if n > 1 else 0, 1 << (n - 1)]
    size, signed = INTS[d["type"]] if d["type"] in INTS else INTS[ENUM_BASE[d["type"]]]
    bits = size * 8
    lo, hi = (-(1 << (bits - 1)), (1 << (bits - 1)) - 1) if signed else (0, (1 << bits) - 1)
    return [lo, hi, lo - 1, hi + 1, 0, 1, hi - 1, lo + 1]


def representable(d, v):
    if d["kind"] == "bits":
        return 0 <= v < (1 << d["bits"])
    size, signed = INTS[d["type"]] if d["type"] in INTS else INTS[ENUM_BASE[d["type"]]]
    bits = size * 8
    return (-(1 << (bits - 1)) <= v < (1 << (bits - 1))) if signed else (0 <= v < (1 << bits))


def run(env, res, viol, rnd, reps):
    dc = impl.dc()

    def anon_ok(nm):
        # known finding F19 (extended): a field of an ANONYMOUS member whose name is also an attribute of a structure class or its metaclass
        # (`__compiled__`, `__fields__`, `__bool__`, `__name__`, `lookup`, `_read`, `_write`, `commit`, ...) is overwritten by / overwrites that
        # class attribute (the folded fields are installed as class-level properties): equality, bool or even loading break on the
        # unmodified tree.  Reported; such names are used for named members only until it is decided.
        if False:  # F19 territory: not generated here
            return True
        return not hasattr(sample_cls, nm) and not hasattr(type(sample_cls), nm)

    _cs = dc.cstruct()
    _cs.load("struct s6_sample { uint8 a; };")
    sample_cls = _cs.s6_sample   # a concrete structure class: its attributes are the names a folded field can collide with
    for rep in range(reps):
        endian = rnd.choice("<>")
        cs = dc.cstruct(endian=endian)
        cs.load(defs.PREAMBLE)
        for ci in range(14):
            sname = f"Q{rep}_{ci}"
            text, desc = gen(rnd, sname, anon_ok)
            compiled = rnd.random() < 0.5
            cd0 = {"definition": text, "endian": endian, "compiled": compiled, "preamble": defs.PREAMBLE}
            try:
                cs.load(text, compiled=compiled)
                T = getattr(cs, sname)
                size = len(T)
                assert [f.name for f in T.__fields__] == [d["name"] for d in desc]
                owner = bit_owner(T, size)
            except Exception as e:  # noqa: BLE001
                viol(f"definition with unusual field names cannot be loaded / parsed: {type(e).__name__}: {e}", cd0)
                continue
            if owner is None:
                res.feat("s6:bit-owner-ambiguous")
                continue
            n = len(desc)
            masks = [mask_of(owner, k, size) for k in range(n)]
            for d in desc:
                res.feat("s6:kind:" + d["kind"])
                for nm in ([d["name"]] if d["name"] else []) + d.get("inner", []):
                    if nm in ODD:
                        res.feat("s6:odd-name")
                    if nm == "_":
                        res.feat("s6:name:_")
            names_probe(res, viol, rnd, T, desc, masks, size, cd0, text)
            hash_probe(res, viol, rnd, T, desc, size, cd0, text)
            boundary_probe(res, viol, rnd, T, desc, masks, size, cd0, text)


# ------------------------------------------------------------------------------------------------ names: eq / bool per field

def names_probe(res, viol, rnd, T, desc, masks, size, cd0, text):
    n = len(desc)
    for base in (bytes(size), rand_bytes(rnd, size)):
        try:
            a = T(base)
        except Exception as e:  # noqa: BLE001
            viol(f"parsing raises {type(e).__name__}: {e}", dict(cd0, data=base.hex()))
            return
        for k in range(n):
            bits = [i for i in range(size * 8) if masks[k][i // 8] >> (i % 8) & 1]
            if not bits:
                continue
            i = rnd.choice(bits)
            raw = bytearray(base)
            raw[i // 8] ^= 1 << (i % 8)
            fname = T.__fields__[k]._name
            cd = dict(cd0, data=base.hex(), other=bytes(raw).hex(), field=fname)
            res.count((text, base, "differ-in", k), n >= 2)
            res.feat("s6:probe:pair-differing-in-one-field")
            try:
                c = T(bytes(raw))
                fe = fields_equal(a, c, T)
                if fe:
                    continue   # the flipped bit did not change the value on this base (cannot happen for integer fields)
                if (a == c) or not (a != c) or (c == a):
                    viol(f"instances that differ in exactly field {fname!r} compare equal (==: {a == c}, !=: {a != c})", cd)
                # exactly one field non-zero
                if base == bytes(size):
                    want = any(bool(x) for x in fvals(c, T))
                    res.feat("s6:probe:one-nonzero-field")
                    if bool(c) != want:
                        viol(f"bool(instance) is {bool(c)} but any(fields) is {want}: only field {fname!r} is non-zero", cd)
                    # the same instance through the keyword constructor / assignment on a default instance
                    if desc[k]["kind"] != "anon":
                        v = getattr(c, fname)
                        kw, st = T(**{fname: v}), T()
                        setattr(st, fname, v)
                        for how, x in (("keyword construction", kw), ("assignment on a default instance", st)):
                            if fields_equal(x, c, T) and not (x == c and c == x and not (x != c)):
                                viol(f"{how} of field {fname!r}: field-wise equal instances compare unequal", cd)
                            if not fields_equal(x, T(), T) and (x == T() or not (x != T())):
                                viol(f"{how} of field {fname!r}: the instance compares equal to the default instance although field {fname!r} differs", cd)
                            if bool(x) != any(bool(y) for y in fvals(x, T)):
                                viol(f"{how} of field {fname!r}: bool(instance) is {bool(x)} but any(fields) is {not bool(x)}", cd)
            except Exception as e:  # noqa: BLE001
                viol(f"comparing instances raises {type(e).__name__}: {e}", cd)
        if n and bool(T(bytes(size))) != any(bool(x) for x in fvals(T(bytes(size)), T)):
            viol("bool of the all-zero instance differs from any(fields)", dict(cd0, data=bytes(size).hex()))


# ------------------------------------------------------------------------------------------------ hash histories

def copy_value(v):
    if hasattr(v, "dumps") and hasattr(type(v), "__fields__"):
        return type(v)(v.dumps())
    if isinstance(v, list):
        return [copy_value(x) for x in v]
    return v


def twin(rnd, a, T):
    """a never-hashed instance with the same field values (nested structures copied, not shared)"""
    vals = {f._name: copy_value(getattr(a, f._name)) for f in T.__fields__}
    if rnd.random() < 0.5:
        return T(**vals)
    b = T()
    for k, v in vals.items():
        setattr(b, k, v)
    return b


def hash_probe(res, viol, rnd, T, desc, size, cd0, text):
    if any(d["kind"] == "anon" for d in desc):
        return  # an anonymous member cannot be passed to the constructor by name; the names probe covers these classes
    base = rand_bytes(rnd, size)
    try:
        a = T(base)
        hash(twin(rnd, a, T))
    except TypeError:
        res.feat("s6:hash:unhashable (array fields)")
        return
    except Exception as e:  # noqa: BLE001
        viol(f"building an instance from field values raises {type(e).__name__}: {e}", dict(cd0, data=base.hex()))
        return
    history = [f"a = T({base.hex()})"]
    keep_set, keep_dict = set(), {}
    for step in range(rnd.randint(3, 8)):
        op = rnd.choice(["hash", "set", "dict", "assign", "assign", "assign2", "nested"])
        try:
            if op == "hash":
                hash(a)
                history.append("hash(a)")
            elif op == "set":
                keep_set.add(a)
                history.append("s.add(a)")
            elif op == "dict":
                keep_dict[a] = step
                history.append("d[a] = ..")
            elif op in ("assign", "assign2"):
                donor = T(rand_bytes(rnd, size))
                for _ in range(1 if op == "assign" else 2):
                    f = rnd.choice(T.__fields__)
                    setattr(a, f._name, copy_value(getattr(donor, f._name)))
                    history.append(f"a.{f._name} = {getattr(donor, f._name)!r}")
            elif op == "nested":
                nest = [d for d in desc if d["kind"] == "nested"]
                if not nest:
                    continue
                d = rnd.choice(nest)
                inner = rnd.choice(d["inner"])
                v = rnd.randint(0, 255)
                setattr(getattr(a, d["name"]), inner, v)
                history.append(f"a.{d['name']}.{inner} = {v}")
            cd = dict(cd0, history=list(history))
            res.count((text, tuple(history)), len(history) >= 3)
            res.feat("s6:hash:op:" + op)
            b = twin(rnd, a, T)
            if not fields_equal(a, b, T):
                continue
            res.feat("s6:probe:hash-after-history")
            if not (a == b) or (a != b) or not (b == a):
                viol("an instance with a history of hashing and assignments is not == to an instance with equal fields", cd)
                return
            ha, hb = hash(a), hash(b)
            if ha != hb:
                viol(f"equal instances hash differently after the history: hash(a)={ha}, hash(instance with the same field values)={hb}", cd)
                return
            if b not in {a} or a not in {b} or {a: 1}.get(b) != 1 or {b: 1}.get(a) != 1:
                viol("an equal instance is not found in a set / dict built after the assignments", cd)
                return
        except Exception as e:  # noqa: BLE001
            viol(f"{op} raises {type(e).__name__}: {e}", dict(cd0, history=list(history)))
            return


# ------------------------------------------------------------------------------------------------ boundary assignments

def boundary_probe(res, viol, rnd, T, desc, masks, size, cd0, text):
    cs = T.cs
    bases = [bytes(size), b"\xff" * size, rand_bytes(rnd, size)]
    for k, d in enumerate(desc):
        if d["kind"] not in ("bits", "int", "enum", "intarr"):
            continue
        fname = d["name"]
        mask = masks[k]
        for base in bases:
            for v in boundary_values(d):
                idx = None
                if d["type"] in ENUM_BASE:
                    try:
                        val = getattr(cs, d["type"])(v)
                    except Exception:  # noqa: BLE001
                        res.feat("s6:boundary:enum-value-rejected")
                        continue
                elif d["kind"] == "intarr":
                    idx = rnd.randrange(d["len"])
                    val = None
                else:
                    val = v
                cd = dict(cd0, data=base.hex(), field=fname, value=v, index=idx)
                try:
                    a = T(base)
                    before = a.dumps()
                except Exception as e:  # noqa: BLE001
                    viol(f"parse / dumps raises {type(e).__name__}: {e}", cd)
                    break
                try:
                    if idx is not None:
                        lst = list(getattr(a, fname))
                        lst[idx] = v
                        setattr(a, fname, lst)
                    else:
                        setattr(a, fname, val)
                    after = a.dumps()
                except Exception:  # noqa: BLE001
                    res.feat("s6:boundary:rejected")
                    res.count((text, base, "boundary", k, v), True)
                    if representable(d, v):
                        viol(f"assigning the representable value {v} to field {fname!r} ({d['kind']} {d['type']}"
                             f"{':' + str(d['bits']) if d['kind'] == 'bits' else ''}) is rejected", cd)
                    continue
                res.count((text, base, "boundary", k, v), True)
                res.feat("s6:boundary:accepted" + ("" if representable(d, v) else " (out of range)"))
                res.feat("s6:probe:boundary-" + d["kind"])
                stray = len(after) != len(before) or any((x ^ y) & ~m & 0xFF for x, y, m in zip(after, before, mask))
                if stray:
                    diff = bytes((x ^ y) & ~m & 0xFF for x, y, m in zip(after, before, mask)).hex() if len(after) == len(before) else "length changed"
                    viol(f"assigning {v} to field {fname!r} ({d['kind']} {d['type']}{':' + str(d['bits']) if d['kind'] == 'bits' else ''}) changed bits "
                         f"outside that field: before={before.hex()} after={after.hex()} field mask={mask.hex()} stray bits={diff}", cd)
                    continue
                if representable(d, v):
                    try:
                        back = getattr(T(after), fname)
                        got = back[idx] if idx is not None else back
                        got = got.value if d["type"] in ENUM_BASE else got
                        if got != v:
                            viol(f"assigning {v} to field {fname!r} did not store the value (reads back {got})", cd)
                    except Exception as e:  # noqa: BLE001
                        viol(f"re-parsing after assigning {v} to field {fname!r} raises {type(e).__name__}: {e}", cd)
