"""C06, round 5 (v5): the class `dissect.cstruct.bitbuffer.BitBuffer` as an object, against its Lean model.

Model: lean/CstructModel/BitBuffer.lean (state `_type`, `_buffer`, `_remaining`, `endian`, the stream as bytes + position; the four
methods `read`, `write`, `flush`, `reset` and `__init__`'s normalisation of the byte order, each with the object it leaves behind
when it raises).  Theorems: lean/Proofs/C06BitBuffer.lean (a run of reads returns the slots of C06's partition theorem and loads
the unit once; a read of another storage type or on an exhausted unit loads a new unit, a straddling read is refused and changes
nothing; writes of values that fit followed by flush are read back exactly, across unit switches; reset; '@', '=' and '!').

A case is an operation sequence on ONE real `BitBuffer` over a `BytesIO`:

    ("read", type name, bits) | ("write", type name, value, bits) | ("flush",) | ("reset",)

with the real type objects of a `cstruct(endian=e)` instance (uint8/16/32/64, int8/16/32/64, uint24/int24/uint48/int48/uint128/
int128, char; uleb128 as the variable-length type the class must refuse), e in '<', '>', '!', '@', '=' (the buffer is created with
the instance's `endian`, as structure.py and compiler.py do), an initial stream content and a start position.  Three families:
  reads   runs of reads over changing storage types, widths that fit / exhaust / straddle the unit, `reset()` between runs, streams
          whose units have the top bit set, streams that end inside a unit
  writes  runs of writes (values that fit, now and then a negative / too wide one), unit switches in the middle of a unit, exhausted
          units, straddling widths, `flush()` between runs and at the end
  wild    every interleaving of the four methods (write into a unit that was read, flush after reads, reset of a pending unit...)

OBSERVATION after every call, the same tuple the model's driver command `bbops` prints:
    result (the returned value / None / the exception CLASS), `_remaining`, `_type` (as the index of the type / none),
    `stream.tell()`, and the CANONICAL content of `_buffer`;
at the end the content of the stream.  Canonical content - what a caller can still get out of the buffer through the four methods,
not the raw attribute:
  * `_type is None` (idle: after `flush()`, `reset()`, a fresh object): nothing;
  * a unit that a `read` loaded and on which only reads followed: `_buffer mod 2^_remaining` (the bits still to be delivered; both
    byte orders keep them in the low `_remaining` bits); when `_remaining` is 0 nothing is left of the unit - neither the buffer
    nor `_type` is compared (the next read loads a new unit whatever they say).  So it is immaterial whether an implementation
    shifts consumed bits out, masks them off or leaves them in place, and whether it forgets an exhausted unit at once;
  * any other unit (a `write` touched it, or its load raised): the raw integer - `flush()` writes all of it.
A difference between the real object and the model is a `corr` disagreement with the sequence as the case.

PROPERTY, evaluated on the real object alone against an independent reference (`Ref`: plain bit slicing of the unsigned unit):
  * `reads` family, up to the first call the reference does not define (end of stream): every read returns the bits of its slot -
    least significant end first in little endian, most significant end first in big endian, a new unit when the type changes / the
    unit is exhausted / after reset() - as a value in [0, 2^bits); a read that would straddle raises ValueError and changes nothing
    (the next read still gets its slot); `tell()` = start + the sizes of the units loaded;
  * `writes` family, when every value fits its width and no width straddles its unit: after the final `flush()` the bytes on the
    stream are the units the reference composes, and replaying the (type, width) sequence as reads on a FRESH BitBuffer over those
    bytes returns exactly the values written and ends at the same position;
  * a value that does not fit its width is refused with ValueError (it must not spill into the neighbouring fields).
A difference is a `property` violation.
"""
from __future__ import annotations

import io
import sys

from . import impl
from .common import A, sx

# name -> (size | None, signed, _read returns bytes)
TYPES = {
    "uint8": (1, False, False), "int8": (1, True, False), "uint16": (2, False, False), "int16": (2, True, False),
    "uint32": (4, False, False), "int32": (4, True, False), "uint64": (8, False, False), "int64": (8, True, False),
    "uint24": (3, False, False), "int24": (3, True, False), "uint48": (6, False, False), "int48": (6, True, False),
    "uint128": (16, False, False), "int128": (16, True, False), "char": (1, False, True), "uleb128": (None, False, False),
}
NAMES = list(TYPES)
FIXED = [n for n in NAMES if TYPES[n][0] is not None]
COMMON = ["uint8", "int8", "uint16", "int16", "uint32", "int32", "uint64", "int64", "char", "uint24", "int24"]
ENDIANS = ["<", ">", "!", "@", "="]
HOST = "<" if sys.byteorder == "little" else ">"
ERRMAP = {"OverflowError": "Overflow", "error": "Overflow"}


def norm(endian: str) -> str:
    return HOST if endian in "@=" else (">" if endian == "!" else endian)


# ------------------------------------------------------------------------------------------------ generation

def _stream(rnd, n):
    k = rnd.random()
    if k < 0.25:
        return bytes(rnd.choice([0xFF, 0x80, 0xFE, 0x81, 0xC0]) for _ in range(n))
    if k < 0.35:
        return bytes([rnd.choice([0x80, 0xFF])]) * n
    return bytes(rnd.randrange(256) for _ in range(n))


def _width(rnd, left, unit):
    """a width for a unit of `unit` bits with `left` bits free: mostly one that fits, now and then all that is left, rarely more"""
    k = rnd.random()
    if k < 0.12:
        return left
    if k < 0.22:
        return rnd.randint(left + 1, min(64, max(left + 1, unit + 3))) if left < 64 else left
    if k < 0.25:
        return rnd.randint(1, 64)
    return rnd.randint(1, max(1, min(left, rnd.choice([1, 3, 5, 8, 13, 64]))))


def _value(rnd, bits, fit_only):
    k = rnd.random()
    if fit_only or k < 0.86:
        return rnd.choice([(1 << bits) - 1, 1 << (bits - 1) if bits else 0, 0, rnd.randrange(1 << bits), rnd.randrange(1 << bits)])
    if k < 0.91:
        return -rnd.randint(1, 1 << bits)
    if k < 0.96:
        return (1 << bits) + rnd.randrange(3)
    return rnd.getrandbits(bits + 2)


def gen_reads(rnd):
    ops, size_needed = [], 0
    for _run in range(rnd.randint(1, 4)):
        t = rnd.choice(COMMON if rnd.random() < 0.8 else FIXED)
        unit = TYPES[t][0] * 8
        left = unit
        for _ in range(rnd.randint(1, 5)):
            if left == 0:
                left = unit
            w = _width(rnd, left, unit)
            ops.append(("read", t, w))
            if w <= left:
                left -= w
        size_needed += 3 * TYPES[t][0]
        k = rnd.random()
        if k < 0.3:
            ops.append(("reset",))
        elif k < 0.33:
            ops.append(("read", "uleb128", rnd.randint(1, 8)))
    n = rnd.choice([size_needed, size_needed, rnd.randint(0, size_needed), rnd.randint(0, 4)])
    start = rnd.choice([0, 0, rnd.randint(0, 3)])
    return ops, _stream(rnd, start + n), start


def gen_writes(rnd):
    """-> ops, stream, start, clean: clean = every value fits and no width straddles (the read-back property applies)"""
    ops = []
    clean = rnd.random() < 0.7
    for _run in range(rnd.randint(1, 4)):
        t = rnd.choice(COMMON if rnd.random() < 0.8 else FIXED)
        unit = TYPES[t][0] * 8
        left = unit
        for _ in range(rnd.randint(1, 5)):
            if left == 0:
                left = unit
            w = rnd.randint(1, min(left, rnd.choice([1, 3, 5, 8, 13, 64]))) if clean else _width(rnd, left, unit)
            ops.append(("write", t, _value(rnd, w, clean), w))
            if w <= left:
                left -= w
        k = rnd.random()
        if k < 0.3:
            ops.append(("flush",))
        elif k < 0.33 and not clean:
            ops.append(("write", "uleb128", 1, rnd.randint(1, 8)))
    ops.append(("flush",))
    start = rnd.choice([0, 0, rnd.randint(0, 3)])
    return ops, _stream(rnd, start + rnd.choice([0, 0, 2, 9, 40])), start, clean


def gen_wild(rnd):
    ops = []
    pool = rnd.sample(COMMON, rnd.randint(1, 3)) + ([rnd.choice(NAMES)] if rnd.random() < 0.3 else [])
    for _ in range(rnd.randint(2, 14)):
        k = rnd.random()
        t = rnd.choice(pool)
        unit = (TYPES[t][0] or 1) * 8
        w = rnd.choice([rnd.randint(1, unit), rnd.randint(1, min(unit, 8)), rnd.randint(1, 64), unit, 0 if rnd.random() < 0.2 else 1])
        if k < 0.42:
            ops.append(("read", t, w))
        elif k < 0.84:
            ops.append(("write", t, _value(rnd, w, False), w))
        elif k < 0.93:
            ops.append(("flush",))
        else:
            ops.append(("reset",))
    start = rnd.choice([0, 0, rnd.randint(0, 5)])
    return ops, _stream(rnd, start + rnd.choice([0, 3, 8, 20, 40])), start


# ------------------------------------------------------------------------------------------------ the real object

_CS: dict = {}   # (library module, endian) -> (cstruct instance, its type objects by name, names by id): the types carry no state

def run_real(dc, endian, data, start, ops):
    """-> (list of raw observations (result, _buffer, _remaining, type name | None, tell), final stream content)"""
    from dissect.cstruct.bitbuffer import BitBuffer

    key = (id(dc), endian)
    if key not in _CS:
        cs = dc.cstruct(endian=endian)
        types = {n: getattr(cs, n) for n in NAMES}
        _CS[key] = (cs, types, {id(v): n for n, v in types.items()})
    cs, types, back = _CS[key]
    stream = io.BytesIO(data)
    stream.seek(start)
    bb = BitBuffer(stream, cs.endian)
    obs = []
    for op in ops:
        try:
            if op[0] == "read":
                v = bb.read(types[op[1]], op[2])
                r = ("val", int(v)) if isinstance(v, int) and not isinstance(v, bool) else ("val?", repr(v))
            elif op[0] == "write":
                v = bb.write(types[op[1]], op[2], op[3])
                r = ("done",) if v is None else ("val?", repr(v))
            elif op[0] == "flush":
                v = bb.flush()
                r = ("done",) if v is None else ("val?", repr(v))
            else:
                v = bb.reset()
                r = ("done",) if v is None else ("val?", repr(v))
        except Exception as e:  # noqa: BLE001
            cls = type(e).__name__
            r = ("err", ERRMAP.get(cls, cls))
        buf, ty = getattr(bb, "_buffer", "<no _buffer>"), getattr(bb, "_type", "<no _type>")
        obs.append((r, buf if isinstance(buf, int) else repr(buf), getattr(bb, "_remaining", "<no _remaining>"),
                    None if ty is None else back.get(id(ty), "?"), stream.tell()))
    return obs, stream.getvalue()


# ------------------------------------------------------------------------------------------------ the model

def model_line(endian, data, start, ops):
    out = []
    for op in ops:
        if op[0] in ("read", "write"):
            size, signed, by = TYPES[op[1]]
            ty = [A("none") if size is None else size, int(signed), int(by), NAMES.index(op[1])]
            out.append([A(op[0])] + ty + list(op[2:]))
        else:
            out.append([A(op[0])])
    return sx([A("bbops"), endian, HOST, data, start, out])


def parse_model(s):
    """-> (observations in run_real's format, final stream content) | None"""
    if not isinstance(s, list) or not s or s[0] != "ok":
        return None
    obs = []
    for r, buf, rem, ty, pos in s[1]:
        if isinstance(r, list):
            res = ("val", int(r[1])) if r[0] == "val" else ("err", str(r[1]))
        else:
            res = ("done",)
        obs.append((res, int(buf), int(rem), None if ty == "none" else NAMES[int(ty)], int(pos)))
    content = b"" if s[2] == "-" else bytes.fromhex(str(s[2]))
    return obs, content


# ------------------------------------------------------------------------------------------------ canonical observation

def canonical(ops, obs):
    """the observation function of the module docstring.  `obs`: raw observations of one side.  Whether a unit is 'read only' is
    decided from the operations and from that side's own previous state, so the function is the same for both sides."""
    out = []
    dirty = True
    prev_rem, prev_ty = 0, None
    for op, (res, buf, rem, ty, pos) in zip(ops, obs):
        if op[0] == "read":
            if (prev_rem == 0 or prev_ty != op[1]) and TYPES[op[1]][0] is not None:
                dirty = res[0] == "err" and res[1] == "EOFError"      # a fresh unit (its load raised: the old content stays)
        elif op[0] == "write":
            dirty = True
        cty = ty
        if ty is None:
            cb = None
        elif dirty or not isinstance(buf, int) or not isinstance(rem, int):
            cb = buf
        elif rem > 0:
            cb = buf % (1 << rem)
        else:
            cb = cty = None       # a unit that was read to its last bit: nothing is left of it, the next read loads a new one
        out.append((res, cb, rem, cty, pos))
        prev_rem, prev_ty = rem, ty
    return out


def first_difference(ops, real, model):
    (robs, rdata), (mobs, mdata) = real, model
    if any(isinstance(x, str) and x.startswith("<no _") for o in robs for x in o[1:4]):
        # the class no longer keeps its state under the names _buffer / _remaining / _type (a rename of private attributes): only what
        # a caller can see is compared - the result of every call, the stream position after it, the stream content at the end
        for i, (a, b) in enumerate(zip(robs, mobs)):
            if (a[0], a[4]) != (b[0], b[4]):
                return i, f"after call {i} {ops[i]}: result / tell() differ - real {(a[0], a[4])}, model {(b[0], b[4])}"
        if len(robs) != len(mobs):
            return min(len(robs), len(mobs)), f"the model answered {len(mobs)} calls for {len(robs)}"
        if rdata != mdata:
            return len(ops), f"stream content at the end: real {rdata.hex()}, model {mdata.hex()}"
        return None
    rc, mc = canonical(ops, robs), canonical(ops, mobs)
    for i, (a, b) in enumerate(zip(rc, mc)):
        if a != b:
            names = ("result", "buffer (canonical)", "_remaining", "_type", "tell()")
            which = [n for n, x, y in zip(names, a, b) if x != y]
            return i, f"after call {i} {ops[i]}: {', '.join(which)} differ - real {a}, model {b}"
    if len(rc) != len(mc):
        return min(len(rc), len(mc)), f"the model answered {len(mc)} calls for {len(rc)}"
    if rdata != mdata:
        return len(ops), f"stream content at the end: real {rdata.hex()}, model {mdata.hex()}"
    return None


# ------------------------------------------------------------------------------------------------ the independent reference

class Ref:
    """plain bit slicing: the unit as the unsigned number its bytes spell in the byte order, fields cut from the least significant
    end (little) or the most significant end (big); writes compose units the same way"""

    def __init__(self, endian, data, start):
        self.little = norm(endian) == "<"
        self.order = "little" if self.little else "big"
        self.data, self.pos = bytearray(data), start
        self.t, self.unit, self.width, self.left = None, 0, 0, 0

    def read(self, t, bits):
        """-> ('val', v) | ('err', class) | None when the reference does not define the call"""
        size = TYPES[t][0]
        if size is None:
            return ("err", "ValueError") if self.left == 0 or self.t != t else None
        if self.left == 0 or self.t != t:
            raw = bytes(self.data[self.pos: self.pos + size])
            if len(raw) != size:
                return None
            self.pos += size
            self.t, self.width, self.left, self.unit = t, size * 8, size * 8, int.from_bytes(raw, self.order)
        if bits > self.left:
            return ("err", "ValueError")
        used = self.width - self.left
        lo = used if self.little else self.left - bits
        self.left -= bits
        return ("val", (self.unit >> lo) & ((1 << bits) - 1))

    def reset(self):
        self.t, self.left = None, 0

    # writing
    def _emit(self):
        if self.t is not None:
            raw = self.unit.to_bytes(self.width // 8, self.order)
            if self.pos > len(self.data):
                self.data += bytes(self.pos - len(self.data))
            self.data[self.pos: self.pos + len(raw)] = raw
            self.pos += len(raw)
        self.t, self.left, self.unit = None, 0, 0

    def write(self, t, v, bits):
        size = TYPES[t][0]
        if self.left == 0 or self.t != t:
            self._emit()
            self.t, self.width, self.left, self.unit = t, size * 8, size * 8, 0
        assert bits <= self.left and 0 <= v < (1 << bits)
        used = self.width - self.left
        lo = used if self.little else self.left - bits
        self.unit |= v << lo
        self.left -= bits
        if self.left == 0:
            self._emit()

    def flush(self):
        self._emit()


def check_reads(ops, endian, data, start, robs, report):
    """the reading half of the property on the observations of the real object"""
    ref = Ref(endian, data, start)
    for i, (op, (res, _buf, _rem, _ty, pos)) in enumerate(zip(ops, robs)):
        if op[0] == "reset":
            ref.reset()
            continue
        want = ref.read(op[1], op[2])
        if want is None:
            return i        # end of stream inside a unit: outside the reference
        if res != want:
            report(f"call {i} read({op[1]}, {op[2]}) gives {res}, the slot of the unit holds {want}")
            return i
        if res[0] == "val" and not 0 <= res[1] < (1 << op[2]):
            report(f"call {i} read({op[1]}, {op[2]}) gives {res[1]}, outside [0, 2^{op[2]})")
            return i
        if pos != ref.pos:
            report(f"call {i} read({op[1]}, {op[2]}): the stream stands at {pos}, the units loaded so far end at {ref.pos}")
            return i
    return len(ops)


def clean_writes(ops):
    """every value fits and no width straddles: simulated on the widths alone"""
    t0, left = None, 0
    for op in ops:
        if op[0] == "flush":
            t0, left = None, 0
            continue
        if op[0] != "write" or TYPES[op[1]][0] is None:
            return False
        _, t, v, bits = op
        if left == 0 or t0 != t:
            t0, left = t, TYPES[t][0] * 8
        if bits < 1 or bits > left or not 0 <= v < (1 << bits):
            return False
        left -= bits
    return True


def check_writes(dc, ops, endian, data, start, robs, rdata, report):
    """writing is the exact inverse of reading: on the real object, for a clean sequence"""
    for i, (res, *_rest) in enumerate(robs):
        if res != ("done",):
            report(f"call {i} {ops[i]} gives {res} although every value fits and no width straddles")
            return
    ref = Ref(endian, data, start)
    for op in ops:
        ref.flush() if op[0] == "flush" else ref.write(op[1], op[2], op[3])
    if rdata != bytes(ref.data) or robs[-1][4] != ref.pos:
        report(f"the stream holds {rdata.hex()} at {robs[-1][4]}, the units composed by bit slicing give {bytes(ref.data).hex()} at {ref.pos}")
        return
    reads = [("read", op[1], op[3]) for op in ops if op[0] == "write"]
    # a flush() between two writes of one type starts a new unit for the writer; the reader is told by a reset()
    replay, k = [], 0
    for op in ops:
        if op[0] == "write":
            replay.append(reads[k])
            k += 1
        elif replay:
            replay.append(("reset",))
    bobs, _ = run_real(dc, endian, rdata, start, replay)
    vals = [res for op, (res, *_r) in zip(replay, bobs) if op[0] == "read"]
    want = [("val", op[2]) for op in ops if op[0] == "write"]
    if vals != want:
        report(f"written {[w[1] for w in want]}, a fresh BitBuffer reads back {[v[1] if v[0] == 'val' else v for v in vals]} from {rdata.hex()}")
    elif bobs and bobs[-1][4] != robs[-1][4]:
        report(f"the writer ends at {robs[-1][4]}, reading the same fields back ends at {bobs[-1][4]}")


def check_refusals(ops, robs, report):
    """a value outside [0, 2^bits) never gets into the buffer"""
    for i, (op, (res, *_r)) in enumerate(zip(ops, robs)):
        if op[0] == "write" and not 0 <= op[2] < (1 << op[3]) and res[0] != "err":
            report(f"call {i} write({op[1]}, {op[2]}, {op[3]}) is accepted although the value does not fit {op[3]} bits")
            return


# ------------------------------------------------------------------------------------------------ entry points

def script(endian, data, start, ops):
    lines = ["import io", "from dissect.cstruct import cstruct", "from dissect.cstruct.bitbuffer import BitBuffer",
             f"cs = cstruct(endian={endian!r}); s = io.BytesIO(bytes.fromhex({data.hex()!r})); s.seek({start}); bb = BitBuffer(s, cs.endian)"]
    for op in ops:
        if op[0] == "read":
            lines.append(f"print(bb.read(cs.{op[1]}, {op[2]}), bb._buffer, bb._remaining, bb._type, s.tell())")
        elif op[0] == "write":
            lines.append(f"bb.write(cs.{op[1]}, {op[2]}, {op[3]}); print(bb._buffer, bb._remaining, bb._type, s.tell())")
        else:
            lines.append(f"bb.{op[0]}(); print(s.tell())")
    lines.append("print(s.getvalue().hex())")
    return "\n".join(lines)


def case_data(family, endian, data, start, ops):
    return {"bbops": [list(op) for op in ops], "family": family, "endian": endian, "stream": data.hex(), "start": start,
            "repro": script(endian, data, start, ops)}


def one_case(dc, eng, res, family, endian, data, start, ops, clean=False):
    real = run_real(dc, endian, data, start, ops)
    robs, rdata = real
    cd = case_data(family, endian, data, start, ops)

    def report(what):
        eng.report(f"BitBuffer ({family}, endian {endian!r}): {what}", cd, [])

    nontrivial = len({op[1] for op in ops if op[0] in ("read", "write")}) >= 2 or sum(1 for op in ops if op[0] in ("read", "write")) >= 3
    res.count(("bitbuffer", family, endian, data, start, tuple(ops)), nontrivial)
    res.feat(f"bitbuffer:{family}")
    res.feat(f"bitbuffer:endian:{endian}")
    for (r, *_r), op in zip(robs, ops):
        res.feat(f"bitbuffer:{op[0]}:{r[0] if r[0] != 'err' else r[1]}")
    if family == "reads":
        check_reads(ops, endian, data, start, robs, report)
    elif family == "writes":
        if clean_writes(ops):
            res.feat("bitbuffer:write-flush-read-back")
            check_writes(dc, ops, endian, data, start, robs, rdata, report)
    check_refusals(ops, robs, report)

    def cb(s, raw, meta):
        m = parse_model(s)
        if m is None:
            eng.disagree(f"BitBuffer ({family}): the model driver answered {raw[:200]}", cd)
            return
        d = first_difference(ops, real, m)
        res.feat("bitbuffer:model-compared", len(ops))
        if d:
            eng.disagree(f"BitBuffer ({family}, endian {endian!r}), {d[1]}", dict(cd, after_call=d[0]))

    eng.ask(model_line(endian, data, start, ops), cb, None)


def run(env, eng, res, rnd):
    dc = impl.dc()
    n = 300 if env["tier"] == "quick" else 20000
    for i in range(n):
        endian = rnd.choice(ENDIANS) if rnd.random() < 0.6 else rnd.choice("<>")
        k = rnd.random()
        if k < 0.36:
            ops, data, start = gen_reads(rnd)
            one_case(dc, eng, res, "reads", endian, data, start, ops)
        elif k < 0.72:
            ops, data, start, clean = gen_writes(rnd)
            one_case(dc, eng, res, "writes", endian, data, start, ops, clean)
        else:
            ops, data, start = gen_wild(rnd)
            one_case(dc, eng, res, "wild", endian, data, start, ops)
        if len(eng.lines) > 4000:
            eng.flush()
    eng.flush()
    res.sample({"bitbuffer ops": [list(o) for o in ops], "endian": endian, "stream": data.hex(), "start": start})


def replay_case(case) -> int:
    """re-run a recorded sequence: the property on the real object and the comparison with the model; 1 = still fails"""
    from .common import Result, load_findings, parse_sexp, run_driver

    dc = impl.dc()
    ops = [tuple(o) for o in case["bbops"]]
    data, start, endian, family = bytes.fromhex(case["stream"]), case["start"], case["endian"], case["family"]
    bad = []
    real = run_real(dc, endian, data, start, ops)
    if family == "reads":
        check_reads(ops, endian, data, start, real[0], bad.append)
    elif family == "writes" and clean_writes(ops):
        check_writes(dc, ops, endian, data, start, real[0], real[1], bad.append)
    check_refusals(ops, real[0], bad.append)
    try:
        ans = run_driver([model_line(endian, data, start, ops)])[0]
        m = parse_model(parse_sexp(ans))
        d = first_difference(ops, real, m) if m else (0, f"model driver answered {ans[:200]}")
        if d:
            bad.append(d[1])
    except Exception as e:  # noqa: BLE001
        print("model driver not available:", e)
    for b in bad:
        print("replay:", b)
    print(case.get("repro", ""))
    return 1 if bad else 0
