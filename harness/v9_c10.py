"""C10 probe (v9): CONSTANTS DEFINED THROUGH THE DEFINITION PARSER, and what sees them.

"... resolving identifiers first in the supplied field context and then in the constants."  The main probe of C10 puts the constants
into `cs.consts` through the API.  In real use a constant comes out of a loaded header: `#define NAME <text>` (or a member of an
anonymous `enum { ... };`), where <text> is an integer expression of the property's grammar - most often one literal, in any of the
spellings C has.  The constant has to BE the value the property prescribes for that text (the value the expression evaluator itself
gives to the same text), and everything that resolves the identifier afterwards has to see that value: `cs.NAME`, an Expression over
NAME, an array dimension, an enum / flag member value, a later `#define`.

Two families of PROGRAMS (definition texts), every choice from the seeded PRNG handed in by props/c10.py:

  table   every cell of  literal form {decimal, 0x, 0X, leading-zero octal (0644, 010), 0b, 0B}
                       x suffix {none, u U l L ll LL, ul uL Ul UL ull uLL Ull ULL, lu lU Lu LU llu llU LLu LLU}      (all 23 C spellings)
                       x wrapper {L, -L, - L, ~L, (L), ( L ), ((L)), (-L), -(L), ~(L), -~L, ~-L}
          with a value drawn per cell from small / boundary / random 20-bit / random 64-bit classes (octal cells: mostly >= 8, so that
          the leading zero matters); thorough tier: 4 values per cell.  The cells are packed 24..48 `#define`s to a program.
  random  3..9 definitions in a random order that respects use-after-definition: `#define`s whose body is a literal, a wrapped literal
          or a random expression tree (harness/props/c10.py: gen_tree / render, depth <= 3, random blanks and redundant parentheses) over
          literals, sizeof(type) and EARLIER constants (also members of earlier anonymous enums, also a bare alias `#define B A`);
          structures `struct T { [uint8 hdr;] <elt> a[<dim>] | a[<dim>][<dim>]; uint8 t; }` whose dimensions are NAME, NAME * 2 + 1,
          NAME & 7, (NAME & 3) + 1, (NAME >> 1) & 3, NAME % 5, (N ^ M) & 7 (literals in random C spellings), element types
          uint8..uint64 / int8..int64 / char; named enums, anonymous enums (their members become constants) and flags over a base type
          that holds the values, members given as NAME, NAME * 2 + 1, NAME + k, NAME & 0xff, literals, random trees over constants and
          EARLIER MEMBERS, or implicitly (previous + 1); `#define SZ sizeof(T)` of a structure defined above.
  Both families add USAGE EXPRESSIONS evaluated on the loaded cstruct: `NAME * 2 + 1`, `NAME`, `-NAME`, `(NAME)`, `~NAME` and random trees
  over the program's constants, each with a context None / {} / unrelated / shadowing some constants.

ENTRY POINTS / PRESENTATIONS (one per program, drawn at random): the whole text in one cs.load(); one load() per definition; the text
split over 2-3 load() calls; cs.loadfile() of a real file; the legacy parser (cs.load(text, deftype=cstruct.DEF_LEGACY), restricted, see
below); LF or CRLF line ends, with / without a final line end, blank lines; one or several blanks / tabs after `#define` and after the name;
after the body nothing, blanks, a tab, a `// comment` or a `/* comment */` (also one that itself looks like a literal); definitions on one
line or one member per line.  Load options compiled = True / False, align = True / False, either endianness.

ORACLE (the property; every expected value is computed in the harness from the generator's tree - the literal's value is the number the
spelling was made from, re-read by the independent C literal reader `c_literal` below as a self-check of the harness):
  * `#define NAME body`: cs.NAME (= cs.consts[NAME]) is an int equal to the C value of the body; Expression(ref, body).evaluate() on a
    second cstruct whose constants were set THROUGH THE API to the C values gives the same number (parser-defined = evaluator-defined);
  * every usage expression evaluates to the tree value under (context, then constants);
  * every structure has the C size for the prescribed dimensions (packed, or aligned to the element size under align=True) and parses
    a random buffer into exactly that many elements (values by int.from_bytes under the endianness), through T(buf) / T.reads(buf) /
    T.read(BytesIO) / cs.read(name, buf); a second cstruct with API-set constants and the same structure / enum texts agrees;
  * every enum / flag member (cs.E.M, or cs.M for an anonymous enum) has the value C numbering gives it;
  * every call into the library is wrapped: an exception where the property says the call succeeds is a violation, not a crash.
CORRESPONDENCE: every `#define` body (with the constants defined so far) and every usage expression also goes to the Lean model's `expr`
command; the model's value has to equal the value the REAL parser gave the constant / the real Expression returned.

Domain notes (what is excluded, and why):
  * bodies and dimensions stay in the domain in which the property prescribes a value (props/c10.py: ev - no division by zero, / and %
    only on non-negative operands, shift counts 0..256) and below 2**128 in magnitude;
  * every constant is defined ONCE per program (C macros are expanded lazily, the library evaluates a body when it meets it: the two only
    agree while nothing is redefined) and no structure member is named like a constant (F45, C07/C10: counts are evaluated at definition
    time);
  * a body never contains a newline, a comment never stands inside a body's token, enum members stay on one line each (F20), member
    names size / alignment / dynamic / cs / type are not used (F51), flag members are 0..255 (F22 is about negative flag values);
  * the LEGACY parser (DEF_LEGACY, `CStyleParser`; DESIGN.md section 4: "no property anchors it") keeps every `#define` body that
    Python's ast.literal_eval does not read as a STRING: `#define K 010` gives cs.K == '010' (and Expression(cs, 'K * 2 + 1') == 21, C: 17),
    `#define K 10u` / `(1+2)` / `A` give strings on which array dimensions silently become dynamic.  That contradicts the property as
    soon as the legacy parser counts as a way to define constants; it is reported to the maintainer of the framework, and the legacy
    presentation here is restricted to the bodies for which Python's reading and C's coincide (decimal without leading zero, 0x / 0X,
    0b / 0B, no suffix, optionally negated and / or parenthesised), 1-dimensional arrays, named enums / flags whose initialisers do not
    mention members of the same enum or sizeof(S) (the legacy parser evaluates them without the members declared so far, and
    defines every enum before any structure), no align option (the
    legacy parser has none), no trailing comments, a final line end (its regex needs one).
"""
from __future__ import annotations

import ast
import io
import re
import tempfile
from pathlib import Path

from . import common
from .common import A, Case, sx

FORMS = ["d", "x", "X", "o", "b", "B"]
C_SUFFIXES = ([""] + ["u", "U"] + ["l", "L", "ll", "LL"] + [u + l for u in "uU" for l in ("l", "L", "ll", "LL")]
              + [l + u for l in ("l", "L", "ll", "LL") for u in "uU"])
assert len(C_SUFFIXES) == 23
# wrapper template -> value of the wrapped literal
WRAPS = [("{}", lambda v: v), ("-{}", lambda v: -v), ("- {}", lambda v: -v), ("~{}", lambda v: ~v), ("({})", lambda v: v),
         ("( {} )", lambda v: v), ("(({}))", lambda v: v), ("(-{})", lambda v: -v), ("-({})", lambda v: -v), ("~({})", lambda v: ~v),
         ("-~{}", lambda v: -~v), ("~-{}", lambda v: ~-v)]
LEGACY_WRAPS = [("{}", lambda v: v), ("-{}", lambda v: -v), ("- {}", lambda v: -v), ("({})", lambda v: v), ("(({}))", lambda v: v),
                ("(-{})", lambda v: -v), ("-({})", lambda v: -v)]
SMALL = [0, 1, 2, 3, 4, 5, 7, 8, 9, 10, 12, 15, 16]
OCTALISH = [8, 9, 10, 11, 15, 16, 24, 63, 64, 72, 100, 420, 511, 512, 4095, 4096, 0o644, 0o777, 0o1000]
BOUNDARY = [127, 128, 255, 256, 32767, 32768, 65535, 65536, 2 ** 31 - 1, 2 ** 31, 2 ** 32 - 1, 2 ** 32, 2 ** 63 - 1, 2 ** 63, 2 ** 64 - 1]
# constant names: ordinary C identifiers, among them the ones that look like literal suffixes / prefixes / the sizeof keyword
POOL = ["K", "N", "SIZE", "MAX_LEN", "k1", "_pad", "cnt", "MODE", "x", "Lim2", "u", "l", "U", "L", "b1", "x1", "sizeofx", "A", "B", "n", "_y",
        "sz", "LL", "ul", "o7", "COUNT_2", "__w", "Q", "dim", "len", "R9"]
ELTS = {"uint8": (1, False), "int8": (1, True), "uint16": (2, False), "int16": (2, True), "uint32": (4, False), "int32": (4, True),
        "uint64": (8, False), "int64": (8, True), "char": (1, False)}
ENUM_BASES = {"uint8": (1, False), "int8": (1, True), "uint16": (2, False), "int16": (2, True), "uint32": (4, False), "int32": (4, True),
              "uint64": (8, False), "int64": (8, True), None: (4, False)}
PREAMBLE = "struct S { uint32 a; uint32 b; uint32 c; };"      # sizeof(S) == 12 packed and aligned alike (props/c10.py: TYPES)
IDENT = re.compile(r"[A-Za-z_][A-Za-z0-9_]*")
MODES = ["one-text", "one-text", "per-definition", "split", "loadfile", "legacy"]


def P():
    from .props import c10  # late: props/c10.py imports this module

    return c10


# ------------------------------------------------------------------------------------------------ C literals

def spell(rnd, v: int, form: str) -> str:
    if form == "d":
        return str(v)
    if form in "xX":
        h = "%x" % v
        return "0" + form + rnd.choice([h, h.upper(), "".join(rnd.choice([c, c.upper()]) for c in h)])
    if form == "o":
        return ("0" + "%o" % v) if v else rnd.choice(["0", "00"])
    return "0" + form + bin(v)[2:]


def c_literal(text: str) -> int:
    """the independent C reading of an integer literal: suffix off, base by prefix (0x / 0b / leading zero = octal / decimal)"""
    s = text.rstrip("uUlL")
    if s[:2] in ("0x", "0X"):
        return int(s[2:], 16)
    if s[:2] in ("0b", "0B"):
        return int(s[2:], 2)
    if len(s) > 1 and s[0] == "0":
        return int(s[1:], 8)
    return int(s, 10)


def pick_value(rnd, form: str) -> int:
    r = rnd.random()
    if form == "o" and r < 0.7:
        return rnd.choice(OCTALISH)
    if r < 0.3:
        return rnd.choice(SMALL)
    if r < 0.5:
        return rnd.choice(OCTALISH)
    if r < 0.7:
        return rnd.choice(BOUNDARY)
    if r < 0.85:
        return rnd.randrange(1 << 20)
    return rnd.randrange(1 << 64)


def literal(rnd, form=None, suffix=None, value=None):
    form = form or rnd.choice(FORMS)
    v = pick_value(rnd, form) if value is None else value
    text = spell(rnd, v, form) + (rnd.choice(C_SUFFIXES) if suffix is None else suffix)
    if c_literal(text) != v:
        raise common.Infra(f"v9_c10: the harness spells {v} as {text!r}, which reads back as {c_literal(text)}")
    return text, v


# ------------------------------------------------------------------------------------------------ generators

def gen_body(rnd, scope: dict, legacy: bool):
    """-> (body text, C value, class) of a `#define`"""
    c10 = P()
    if legacy:
        form = rnd.choice(["d", "d", "x", "X", "b", "B"])
        text, v = literal(rnd, form, "")
        tmpl, fn = rnd.choice(LEGACY_WRAPS)
        body, want = tmpl.format(text), fn(v)
        if ast.literal_eval(body) != want:
            raise common.Infra(f"v9_c10: legacy body {body!r}: Python reads {ast.literal_eval(body)}, C {want}")
        return body, want, "legacy-literal"
    r = rnd.random()
    if r < 0.3:
        text, v = literal(rnd)
        return text, v, "literal"
    if r < 0.45:
        text, v = literal(rnd)
        tmpl, fn = rnd.choice(WRAPS)
        return tmpl.format(text), fn(v), "wrapped-literal"
    names = list(scope)
    for _ in range(40):
        idents = rnd.sample(names, min(len(names), rnd.randint(1, 3))) if (names and rnd.random() < 0.65) else []
        t = c10.gen_tree(rnd, rnd.randint(1, 3), idents)
        if idents and not c10.idents_of(t, set()):
            continue
        try:
            v = c10.ev(t, scope)
        except c10.OutOfDomain:
            continue
        if abs(v) >= 2 ** 128 or not c10.safe_to_run(t, (scope,)):
            continue
        return c10.render(rnd, t, 0, rnd.choice([0.0, 0.1, 0.3])), v, ("expression-over-constants" if c10.idents_of(t, set()) else "expression")
    text, v = literal(rnd)
    return text, v, "literal"


def num(rnd, v):
    return ("num", v, rnd.choice(FORMS), rnd.choice(P().SUFFIXES))


def gen_dim(rnd, scope: dict):
    """-> (tree, value) of an array dimension over the constants, 0 <= value <= 9"""
    c10 = P()
    names = [n for n, v in scope.items()]
    for _ in range(60):
        n = rnd.choice(names)
        v = scope[n]
        cands = [("bin", "&", ("id", n), num(rnd, 7)),
                 ("bin", "+", ("bin", "&", ("id", n), num(rnd, 3)), num(rnd, 1)),
                 ("bin", "&", ("bin", ">>", ("id", n), num(rnd, 1)), num(rnd, 3))]
        if 0 <= v <= 9:
            cands += [("id", n)] * 4
        if 0 <= v <= 4:
            cands += [("bin", "+", ("bin", "*", ("id", n), num(rnd, 2)), num(rnd, 1))] * 2
        if v >= 0:
            cands.append(("bin", "%", ("id", n), num(rnd, 5)))
        if len(names) > 1:
            cands.append(("bin", "&", ("bin", "^", ("id", n), ("id", rnd.choice(names))), num(rnd, 7)))
        t = rnd.choice(cands)
        try:
            d = c10.ev(t, scope)
        except c10.OutOfDomain:
            continue
        if 0 <= d <= 9:
            return t, d
    return ("num", 2, "d", ""), 2


def roundup(x, a):
    return -(-x // a) * a


def gen_struct(rnd, scope, name, endian, align, legacy):
    c10 = P()
    elt = rnd.choice(list(ELTS))
    esz, signed = ELTS[elt]
    ndim = 1 if (legacy or rnd.random() < 0.75) else 2
    dims = [gen_dim(rnd, scope) for _ in range(ndim)]
    has_hdr = rnd.random() < 0.6
    dtext = "".join("[" + c10.render(rnd, t, 0, rnd.choice([0.0, 0.2])) + "]" for t, _ in dims)
    fields = (["uint8 hdr;"] if has_hdr else []) + [f"{elt} a{dtext};", "uint8 t;"]
    if rnd.random() < 0.5:
        lines = [f"struct {name} {{ " + " ".join(fields) + " };"]
    else:
        lines = [f"struct {name} {{"] + ["    " + f for f in fields] + ["};"]
    dvals = [d for _, d in dims]
    total = 1
    for d in dvals:
        total *= d
    off = 1 if has_hdr else 0
    if align:
        off = roundup(off, esz)
    a_off = off
    off += total * esz
    t_off = off
    off += 1
    size = roundup(off, esz) if align else off
    data = bytes(rnd.randrange(256) for _ in range(size + rnd.choice([0, 0, 3])))
    bo = "little" if endian == "<" else "big"
    flat = [int.from_bytes(data[a_off + i * esz:a_off + (i + 1) * esz], bo, signed=signed) for i in range(total)]
    if ndim == 2:
        want_a = [flat[i * dvals[1]:(i + 1) * dvals[1]] for i in range(dvals[0])]
    else:
        want_a = flat
    return {"type": "struct", "name": name, "lines": lines, "dims": dvals, "dim_texts": dtext, "size": size, "data": data.hex(),
            "hdr": data[0] if has_hdr else None, "a": want_a, "t": data[t_off], "call": rnd.choice(["call", "reads", "read", "cs.read"])}


def fits(v, base):
    size, signed = ENUM_BASES[base]
    return (-(1 << (8 * size - 1)) <= v < (1 << (8 * size - 1))) if signed else (0 <= v < (1 << (8 * size)))


def mentions_struct_size(t):
    if t[0] == "sizeof":
        return t[1] == "S"
    return any(mentions_struct_size(x) for x in t[2:]) if t[0] in ("un", "bin") else False


def gen_member_value(rnd, scope, local, flag, legacy=False):
    """-> (text, value) of an explicit enum member initialiser over the constants and the members declared so far"""
    c10 = P()
    env = dict(scope)
    env.update(local)
    names = list(scope)
    for _ in range(60):
        r = rnd.random()
        if r < 0.2 or not names:
            text, v = literal(rnd, value=rnd.choice(SMALL + OCTALISH[:8]) if flag else None)
        else:
            n = rnd.choice(names)
            if r < 0.35:
                t = ("id", n)
            elif r < 0.5:
                t = ("bin", "+", ("bin", "*", ("id", n), num(rnd, 2)), num(rnd, 1))
            elif r < 0.6:
                t = ("bin", "+", ("id", n), num(rnd, rnd.choice([1, 2, 8, 9, 64])))
            elif r < 0.7:
                t = ("bin", "&", ("id", n), ("num", 0xFF, rnd.choice("xXob"), ""))
            elif r < 0.8 and local:
                t = ("bin", rnd.choice(["+", "|", "<<"]), ("id", rnd.choice(list(local))), rnd.choice([("id", n), num(rnd, 1), num(rnd, 2)]))
            else:
                idents = rnd.sample(names, min(len(names), 2)) + (rnd.sample(list(local), 1) if local else [])
                t = c10.gen_tree(rnd, rnd.randint(1, 3), idents)
            if flag and rnd.random() < 0.7:
                t = ("bin", "&", t, ("num", 0xFF, rnd.choice("xXdo"), ""))
            if legacy and mentions_struct_size(t):
                continue          # the legacy parser defines every enum before any structure
            try:
                v = c10.ev(t, env)
            except c10.OutOfDomain:
                continue
            if not c10.safe_to_run(t, (env,)):
                continue
            text = c10.render(rnd, t, 0, rnd.choice([0.0, 0.2]))
        if (0 <= v <= 255) if flag else (-(2 ** 63) <= v < 2 ** 63):
            return text, v
    return "1", 1


def gen_enum(rnd, scope, idx, legacy):
    r = rnd.random()
    kind = "flag" if r < 0.25 else ("anon" if (r < 0.55 and not legacy) else "enum")
    name = None if kind == "anon" else f"{'F' if kind == 'flag' else 'E'}{idx}"
    prefix = f"AN{idx}_" if kind == "anon" else rnd.choice(["M", "V_", "m"])
    members, local, prev = [], {}, None
    for j in range(rnd.randint(2, 5)):
        mname = f"{prefix}{j}"
        if kind != "flag" and prev is not None and rnd.random() < 0.35 and prev + 1 < 2 ** 63:
            text, v = None, prev + 1
        elif kind != "flag" and prev is None and rnd.random() < 0.15:
            text, v = None, 0
        else:
            text, v = gen_member_value(rnd, scope, {} if legacy else local, kind == "flag", legacy)
        members.append((mname, text, v))
        local[mname] = v
        prev = v
    bases = [b for b in ENUM_BASES if all(fits(v, b) for _, _, v in members)]
    base = rnd.choice(bases)
    head = ("flag" if kind == "flag" else "enum") + (f" {name}" if name else "") + (f" : {base}" if base else "") + " {"
    ms = [m + (f" = {t}" if t is not None else "") for m, t, _ in members]
    if rnd.random() < 0.5:
        lines = [head + " " + ", ".join(ms) + " };"]
    else:
        lines = [head] + ["    " + m + "," for m in ms[:-1]] + ["    " + ms[-1] + rnd.choice(["", ","])] + ["};"]
    return {"type": "enum", "kind": kind, "name": name, "base": base, "lines": lines, "members": [[m, v] for m, _, v in members]}


def decorate_define(rnd, name, body, legacy):
    s1 = " " if legacy else rnd.choice([" ", " ", "  ", "\t", " \t"])
    s2 = rnd.choice([" ", " ", "  ", "\t", "   "])
    trail = "" if legacy else rnd.choice(["", "", "", " ", "\t", "  ", " // limit", " /* c */", "  // 010 0x10 8u", " /* 077 */ ", "\t// x"])
    return f"#define{s1}{name}{s2}{body}{trail}"


def gen_usage(rnd, scope, n_random):
    """usage expressions over the program's constants -> [{"text", "ctx", "want", "form"}]"""
    c10 = P()
    names = list(scope)
    out = []
    if not names:
        return out
    canon = [("NAME * 2 + 1", lambda n: ("bin", "+", ("bin", "*", ("id", n), ("num", 2, "d", "")), ("num", 1, "d", ""))),
             ("NAME", lambda n: ("id", n)), ("-NAME", lambda n: ("un", "-", ("id", n))), ("~NAME", lambda n: ("un", "~", ("id", n))),
             ("(NAME)", None)]
    picks = [("NAME * 2 + 1", rnd.choice(names)) for _ in range(2)] + [(rnd.choice(canon)[0], rnd.choice(names)) for _ in range(2)]
    for form, n in picks:
        if form == "(NAME)":
            t, text = ("id", n), f"({n})"
        else:
            t = dict(canon)[form](n)
            text = form.replace("NAME", n)
        out.append((form, t, text))
    for _ in range(n_random):
        for _ in range(20):
            t = c10.gen_tree(rnd, rnd.randint(1, 4), rnd.sample(names, min(len(names), rnd.randint(1, 3))))
            if c10.idents_of(t, set()):
                out.append(("random-tree", t, c10.render(rnd, t, 0, rnd.choice([0.0, 0.1, 0.3]))))
                break
    res = []
    for form, t, text in out:
        ids = sorted(c10.idents_of(t, set()))
        r = rnd.random()
        if r < 0.3:
            ctx = None
        elif r < 0.5:
            ctx = {}
        elif r < 0.65:
            ctx = {"zz": 9, "hdr": 1}
        else:
            ctx = {i: scope[i] + rnd.choice([1, 2, 7, -3]) for i in rnd.sample(ids, rnd.randint(1, len(ids)))}
        env = dict(scope)
        env.update(ctx or {})
        try:
            want = c10.ev(t, env)
        except c10.OutOfDomain:
            continue
        if not c10.safe_to_run(t, (env,)):
            continue
        res.append({"text": text, "ctx": ctx, "want": want, "form": form, "consts": {i: scope[i] for i in ids}})
    return res


def gen_presentation(rnd, legacy_ok: bool):
    mode = rnd.choice(MODES if legacy_ok else [m for m in MODES if m != "legacy"])
    legacy = mode == "legacy"
    return {"mode": mode, "eol": rnd.choice(["\n", "\n", "\r\n"]), "final_newline": True if legacy else rnd.random() < 0.7,
            "blank_lines": (not legacy) and rnd.random() < 0.3}


def gen_options(rnd, legacy):
    opts = {"compiled": rnd.random() < 0.5}
    if not legacy:
        if rnd.random() < 0.7:
            opts["align"] = rnd.random() < 0.5
    if rnd.random() < 0.15:
        del opts["compiled"]          # the library's default (compiled)
    return opts


def gen_random_program(rnd, tier):
    pres = gen_presentation(rnd, True)
    legacy = pres["mode"] == "legacy"
    opts = gen_options(rnd, legacy)
    endian = rnd.choice("<>")
    align = bool(opts.get("align"))
    names = rnd.sample(POOL, rnd.randint(2, 6))
    scope, items, sizes = {}, [], {}
    plan = ["define"] * rnd.randint(1, 2)
    rest = [rnd.choice(["define", "define", "struct", "enum"]) for _ in range(rnd.randint(2, 7))]
    if "struct" not in rest and "enum" not in rest:
        rest.append(rnd.choice(["struct", "enum"]))
    plan += rest
    ns = ne = 0
    for what in plan:
        if what == "define":
            if not names:
                continue
            n = names.pop()
            if sizes and not legacy and rnd.random() < 0.2:
                tn = rnd.choice(list(sizes))
                sp = rnd.choice(["", " "])
                body, v, cls = f"sizeof{sp}({sp}{tn}{sp})", sizes[tn], "sizeof-struct"
            else:
                body, v, cls = gen_body(rnd, scope, legacy)
            items.append({"type": "define", "name": n, "body": body, "want": v, "class": cls, "lines": [decorate_define(rnd, n, body, legacy)],
                          "scope": {i: scope[i] for i in set(IDENT.findall(body)) if i in scope}})
            scope[n] = v
        elif what == "struct":
            it = gen_struct(rnd, scope, f"T{ns}", endian, align, legacy)
            sizes[it["name"]] = it["size"]
            items.append(it)
            ns += 1
        else:
            it = gen_enum(rnd, scope, ne, legacy)
            if it["kind"] == "anon":
                scope.update({m: v for m, v in it["members"]})
            items.append(it)
            ne += 1
    return {"kind": "defconst", "family": "random", "endian": endian, "opts": opts, "present": pres, "items": items, "sizes": sizes,
            "exprs": gen_usage(rnd, scope, 2 if tier == "quick" else 4)}


def gen_table_programs(rnd, tier):
    cells = [(f, s, w) for f in FORMS for s in C_SUFFIXES for w in WRAPS] * (1 if tier == "quick" else 4)
    rnd.shuffle(cells)
    progs = []
    k = 0
    while cells:
        n = rnd.randint(24, 48)
        chunk, cells = cells[:n], cells[n:]
        pres = gen_presentation(rnd, False)
        opts = gen_options(rnd, False)
        endian = rnd.choice("<>")
        scope, items = {}, []
        pool_names = rnd.sample(POOL, 6)
        for form, suf, (tmpl, fn) in chunk:
            text, v = literal(rnd, form, suf)
            name = pool_names.pop() if (pool_names and rnd.random() < 0.15) else f"L{k}"
            k += 1
            body, want = tmpl.format(text), fn(v)
            items.append({"type": "define", "name": name, "body": body, "want": want, "class": f"table:{form}", "scope": {},
                          "lines": [decorate_define(rnd, name, body, False)]})
            scope[name] = want
        # one structure somewhere in the second half: its dimensions only mention the constants defined above it
        pos = rnd.randint(max(1, len(items) // 2), len(items))
        above = {i["name"]: i["want"] for i in items[:pos]}
        st = gen_struct(rnd, above, "T0", endian, bool(opts.get("align")), False)
        items.insert(pos, st)
        sizes = {"T0": st["size"]}
        items.append(gen_enum(rnd, scope, 0, False))
        sub = {n: scope[n] for n in rnd.sample(list(scope), min(6, len(scope)))}
        progs.append({"kind": "defconst", "family": "table", "endian": endian, "opts": opts, "present": pres, "items": items, "sizes": sizes,
                      "exprs": gen_usage(rnd, sub, 2)})
    return progs


# ------------------------------------------------------------------------------------------------ running a program on the library

def program_text(prog, items=None):
    eol = prog["present"]["eol"]
    lines = [PREAMBLE]
    for it in (prog["items"] if items is None else items):
        if prog["present"].get("blank_lines"):
            lines.append("")
        lines.extend(it["lines"])
    return eol.join(lines) + (eol if prog["present"]["final_newline"] else "")


def chunks_of(prog):
    """the texts handed to the loader, in order"""
    pres = prog["present"]
    eol = pres["eol"]
    mode = pres["mode"]
    if mode == "per-definition":
        out = [PREAMBLE + eol]
        for i, it in enumerate(prog["items"]):
            last = i == len(prog["items"]) - 1
            out.append(eol.join(it["lines"]) + (eol if (pres["final_newline"] or not last) else ""))
        return out
    if mode == "split":
        items = prog["items"]
        cut = sorted({max(1, len(items) // 3), max(1, 2 * len(items) // 3)})
        parts, prev = [], 0
        for c in cut + [len(items)]:
            if c > prev:
                parts.append(items[prev:c])
                prev = c
        out = []
        for j, part in enumerate(parts):
            lines = ([PREAMBLE] if j == 0 else []) + [l for it in part for l in it["lines"]]
            out.append(eol.join(lines) + (eol if (pres["final_newline"] or j < len(parts) - 1) else ""))
        return out
    return [program_text(prog)]


def repro_of(prog):
    mode = prog["present"]["mode"]
    opts = ", ".join(f"{k}={v!r}" for k, v in prog["opts"].items())
    head = f"from dissect.cstruct import cstruct; from dissect.cstruct.expression import Expression; cs = cstruct(endian={prog['endian']!r}); "
    if mode == "loadfile":
        return head + f"open('/tmp/defs.h', 'w', newline='').write({chunks_of(prog)[0]!r}); cs.loadfile('/tmp/defs.h'{', ' + opts if opts else ''})"
    extra = ("deftype=cstruct.DEF_LEGACY, " if mode == "legacy" else "") + opts
    return head + "; ".join(f"cs.load({c!r}{', ' + extra.rstrip(', ') if extra else ''})" for c in chunks_of(prog))


def load_program(dc, prog, tmpdir):
    cs = dc.cstruct(endian=prog["endian"])
    mode = prog["present"]["mode"]
    opts = dict(prog["opts"])
    chunks = chunks_of(prog)
    if mode == "loadfile":
        p = Path(tmpdir) / "defs.h"
        with open(p, "w", newline="") as fh:
            fh.write(chunks[0])
        cs.loadfile(str(p), **opts)
    elif mode == "legacy":
        for c in chunks:
            cs.load(c, deftype=dc.cstruct.DEF_LEGACY, **opts)
    else:
        for c in chunks:
            cs.load(c, **opts)
    return cs


def load_reference(dc, prog):
    """a second cstruct: the constants set THROUGH THE API to their C values, then only the structure / enum texts loaded"""
    ref = dc.cstruct(endian=prog["endian"])
    consts = {}
    for it in prog["items"]:
        if it["type"] == "define":
            consts[it["name"]] = it["want"]
    ref.consts.update(consts)
    text = "\n".join([PREAMBLE] + [l for it in prog["items"] if it["type"] != "define" for l in it["lines"]]) + "\n"
    ref.load(text, **prog["opts"])
    return ref


def norm_array(x):
    if isinstance(x, (bytes, bytearray)):
        return list(x)
    if isinstance(x, (list, tuple)) or (hasattr(x, "__iter__") and not isinstance(x, (str, int))):
        return [norm_array(e) for e in x]
    return int(x)


def check_struct(cs, it, label):
    """-> failure text | None"""
    name = it["name"]
    decl = " ".join(it["lines"])
    try:
        T = getattr(cs, name)
        size = T.size
    except Exception as ex:  # noqa: BLE001
        return f"{label}: {decl}: the structure or its size is not available ({type(ex).__name__}: {str(ex)[:120]}); the dimensions are {it['dims']}"
    if size != it["size"]:
        return f"{label}: {decl}: size is {size!r}, the dimensions {it['dims']} prescribe {it['size']}"
    data = bytes.fromhex(it["data"])
    try:
        call = it["call"]
        if call == "call":
            v = T(data)
        elif call == "reads":
            v = T.reads(data)
        elif call == "read":
            v = T.read(io.BytesIO(data))
        else:
            v = cs.read(name, io.BytesIO(data))
        got_a = norm_array(v.a)
        got_t = int(v.t)
        got_h = int(v.hdr) if it["hdr"] is not None else None
    except Exception as ex:  # noqa: BLE001
        return f"{label}: {decl}: parsing {len(data)} bytes ({it['call']}) raises {type(ex).__name__}: {str(ex)[:120]}"
    if (got_a, got_t, got_h) != (it["a"], it["t"], it["hdr"]):
        return (f"{label}: {decl}: {it['data']} parses to hdr={got_h} a={got_a} t={got_t}; the dimensions {it['dims']} prescribe "
                f"hdr={it['hdr']} a={it['a']} t={it['t']}")
    return None


def check_enum(cs, it, label):
    decl = " ".join(it["lines"])
    for m, want in it["members"]:
        try:
            if it["kind"] == "anon":
                got = getattr(cs, m)
            else:
                got = getattr(getattr(cs, it["name"]), m)
            if not isinstance(got, int):
                return f"{label}: {decl}: member {m} is {got!r} ({type(got).__name__}), C numbering gives {want}"
            got = int(got)
        except Exception as ex:  # noqa: BLE001
            return f"{label}: {decl}: member {m} is not available ({type(ex).__name__}: {str(ex)[:120]}), C numbering gives {want}"
        if got != want:
            return f"{label}: {decl}: member {m} is {got}, C numbering gives {want}"
    return None


def check_program(dc, prog, tmpdir, obs=None):
    """-> list of failure texts (empty: the property held); obs collects what the model is compared with"""
    from dissect.cstruct.expression import Expression  # the tree common.import_repo() put first

    fails = []
    pres = prog["present"]
    how = f"[{pres['mode']}, eol {pres['eol']!r}, {prog['opts']}, endian {prog['endian']}]"
    try:
        cs = load_program(dc, prog, tmpdir)
    except Exception as ex:  # noqa: BLE001
        return [f"{how} loading the definitions raises {type(ex).__name__}: {str(ex)[:200]} (every definition is well-formed)"]
    try:
        ref = load_reference(dc, prog)
    except Exception as ex:  # noqa: BLE001
        ref = None
        fails.append(f"{how} with the constants set through cs.consts, loading the structure / enum definitions raises {type(ex).__name__}: {str(ex)[:200]}")
    for it in prog["items"]:
        if it["type"] == "define":
            name, body, want = it["name"], it["body"], it["want"]
            line = it["lines"][0]
            got = None
            try:
                got = getattr(cs, name)
                via = cs.consts[name]
            except Exception as ex:  # noqa: BLE001
                fails.append(f"{how} {line!r}: cs.{name} / cs.consts[{name!r}] raises {type(ex).__name__}: {str(ex)[:120]}; C prescribes {want}")
                continue
            if obs is not None:
                obs[("define", name)] = got
            if isinstance(got, bool) or not isinstance(got, int) or got != want or via != want:
                fails.append(f"{how} {line!r}: cs.{name} is {got!r}, C prescribes {want} for the body {body!r}")
                continue
            if ref is not None and not body.startswith("sizeof"):
                saved = ref.consts
                try:
                    ref.consts = dict(it["scope"])
                    e = int(Expression(ref, body).evaluate())
                except Exception as ex:  # noqa: BLE001
                    e = f"{type(ex).__name__}: {str(ex)[:100]}"
                finally:
                    ref.consts = saved
                if e != want:
                    fails.append(f"{how} the expression evaluator gives {e!r} to the text {body!r} (constants {it['scope']}), C prescribes {want} "
                                 f"(and `{line}` defined {got!r})")
        elif it["type"] == "struct":
            bad = check_struct(cs, it, how + " constants from #define")
            if bad is None and ref is not None:
                bad = check_struct(ref, it, how + " constants set through cs.consts")
            if bad:
                fails.append(bad)
        else:
            bad = check_enum(cs, it, how + " constants from #define")
            if bad is None and ref is not None:
                bad = check_enum(ref, it, how + " constants set through cs.consts")
            if bad:
                fails.append(bad)
    for k, ex_ in enumerate(prog["exprs"]):
        ctx = ex_["ctx"]
        try:
            got = int(Expression(cs, ex_["text"]).evaluate(None if ctx is None else dict(ctx)))
        except Exception as ex:  # noqa: BLE001
            got = f"{type(ex).__name__}: {str(ex)[:100]}"
        if obs is not None:
            obs[("expr", k)] = got
        if got != ex_["want"]:
            fails.append(f"{how} Expression(cs, {ex_['text']!r}).evaluate({ctx!r}) gives {got!r} after the constants were defined by the loaded "
                         f"text; their C values {ex_['consts']} prescribe {ex_['want']}")
    return fails


# ------------------------------------------------------------------------------------------------ model lines

def model_line(text, ctx, consts, sizes):
    c10 = P()
    szs = [[A(k), v] for k, v in c10.TYPES.items()] + [[A(k), v] for k, v in sizes.items()]
    c = [[A(k), v] for k, v in (ctx or {}).items()]
    return sx([A("expr"), text, c, [[A(k), v] for k, v in consts.items()], szs, c])


# ------------------------------------------------------------------------------------------------ entry points

def run(env, res, rnd):
    c10 = P()
    dc = common.import_repo()
    tier = env["tier"]
    progs = gen_table_programs(rnd, tier)
    progs += [gen_random_program(rnd, tier) for _ in range(220 if tier == "quick" else 5000)]
    lines, metas, found = [], [], []
    with tempfile.TemporaryDirectory(prefix="v9c10-") as tmpdir:
        for prog in progs:
            obs = {}
            fails = check_program(dc, prog, tmpdir, obs)
            fam = prog["family"]
            res.feat(f"kind:defconst-{fam}")
            res.feat(f"defconst:entry={prog['present']['mode']}")
            res.feat("defconst:eol=" + ("CRLF" if prog["present"]["eol"] == "\r\n" else "LF") + ("" if prog["present"]["final_newline"] else ",no-final-eol"))
            res.feat("defconst:options=" + (",".join(f"{k}={v}" for k, v in sorted(prog["opts"].items())) or "defaults"))
            for it in prog["items"]:
                if it["type"] == "define":
                    res.count(("defconst", it["lines"][0], prog["present"]["mode"]), True)
                    res.feat(f"defconst:define-body={it['class']}")
                    if it["want"] < 0:
                        res.feat("defconst:negative-constant")
                elif it["type"] == "struct":
                    res.count(("defconst-struct", tuple(it["lines"]), it["data"]), True)
                    res.feat(f"defconst:array-dimensions={len(it['dims'])}")
                    if 0 in it["dims"]:
                        res.feat("defconst:array-dimension-0")
                else:
                    res.count(("defconst-enum", tuple(it["lines"])), True)
                    res.feat(f"defconst:enum-kind={it['kind']}")
            for ex_ in prog["exprs"]:
                res.count(("defconst-expr", ex_["text"], repr(ex_["ctx"]), repr(ex_["consts"])), True)
                res.feat(f"defconst:usage={ex_['form']}")
                res.feat("defconst:usage-context=" + ("None" if ex_["ctx"] is None else "empty" if not ex_["ctx"] else
                                                      "shadowing" if any(i in ex_["consts"] for i in ex_["ctx"]) else "unrelated"))
            if fails:
                data = dict(prog)
                data["failures"] = fails[:6]
                data["repro"] = repro_of(prog)
                found.append(Case("property", "constants defined through the parser: " + fails[0], data))
                continue
            if fam == "random":
                res.sample({"definitions": program_text(prog), "entry": prog["present"]["mode"], "options": prog["opts"],
                            "constants": {i["name"]: i["want"] for i in prog["items"] if i["type"] == "define"}}, 11)
            if env["driver_ok"]:
                for it in prog["items"]:
                    if it["type"] == "define":
                        lines.append(model_line(it["body"], {}, it["scope"], prog["sizes"]))
                        metas.append((prog, f"`{it['lines'][0]}`", obs.get(("define", it["name"]))))
                for k, ex_ in enumerate(prog["exprs"]):
                    lines.append(model_line(ex_["text"], ex_["ctx"], ex_["consts"], prog["sizes"]))
                    metas.append((prog, f"Expression(cs, {ex_['text']!r}).evaluate({ex_['ctx']!r}) with constants {ex_['consts']}", obs.get(("expr", k))))
    res.violations.extend(sorted(found, key=lambda c: len(c.what)))     # the shortest failing input first
    if lines:
        res.feat("defconst:texts-sent-to-the-model", len(lines))
        for (prog, what, real), ans in zip(metas, common.run_driver(lines)):
            m1, m2, _ = c10.parse_driver(ans)
            if m1 != ("ok", real) or m2 != ("ok", real):
                data = dict(prog)
                data["repro"] = repro_of(prog)
                res.disagreements.append(Case("corr", f"constants defined through the parser: the model's evaluator gives {c10.show(m1)} / {c10.show(m2)} "
                                              f"for {what}; the implementation gives {real!r}", data))


def replay(body) -> int:
    """re-run the recorded program on the current tree: 1 if the property still fails on it"""
    dc = common.import_repo()
    prog = body["case"]
    with tempfile.TemporaryDirectory(prefix="v9c10-") as tmpdir:
        fails = check_program(dc, prog, tmpdir)
    print("replay: definitions", repr(program_text(prog))[:600])
    for f in fails[:6]:
        print("replay: still fails:", f[:400])
    if not fails:
        print("replay: the recorded program passes every check on the current tree |", (body.get("what") or "")[:300])
    return 1 if fails else 0
