"""C09, round 9 (v9): REAL FILE OBJECTS - the "file-like input" axis of the property walked over every kind of binary file object.

Every other C09 probe hands the library an io.BytesIO (or a ten-line wrapper around one) when it says "stream".  io.BytesIO is the most
forgiving stream there is: read() takes any negative size as "everything", seek() goes anywhere, tell() is free.  What users parse from
is `open(path, "rb")`.  The two families of this module run the property's predicates with the stream being each of

  disk     open(path, 'rb')  [io.BufferedReader]          open(path, 'rb', buffering=k)  (k = 2 .. 4096: reads straddle the buffer)
           open(path, 'r+b') [io.BufferedRandom]          open(path, 'a+b')
           open(path, 'rb', buffering=0) [io.FileIO]      os.fdopen(os.open(path, O_RDONLY), 'rb')
           io.BufferedReader(io.FileIO(path), k)          io.BufferedRandom(io.FileIO(path, 'r+'), k)
           mmap.mmap(fileno, 0, access=ACCESS_READ)       gzip.open(path + '.gz', 'rb')
  temp     tempfile.TemporaryFile()                       tempfile.NamedTemporaryFile()  [a delegating wrapper, not an io class]
           tempfile.SpooledTemporaryFile()  in memory and rolled over to disk
  memory   io.BufferedReader(io.BytesIO(..), k)           io.BufferedRandom(io.BytesIO(..), k)
           io.BufferedReader(<raw stream that hands out at most c bytes per call>)
           mmap.mmap(-1, n)                               gzip.GzipFile / bz2.BZ2File / lzma.LZMAFile (fileobj=BytesIO), a zipfile member
  control  io.BytesIO, the minimal file-like object of props/c09.py

brought to the start position p in different ways (`POSITIONINGS`: a fresh stream / seek(p) / read(p) from the start / seek to the end
and back / read beyond p and seek back / a relative seek / - writable kinds - rewriting the bytes before p, which leaves a dirty write
buffer), under the stream call forms T(s), T.read(s), cs.read(name, s).  Temporary files live under one tempfile.mkdtemp() directory
per run, which is removed at the end (also when the run is cut short).

`run_files`   EVERY TYPE FAMILY of the other probes as the subject (`subjects`):
                gen     random definition trees of defs.Gen (bit-fields, unions, pointers, nested / anonymous aggregates, fixed / 2-d /
                        expression-sized / null-terminated / to-end-of-stream arrays, LEB128) on an accepted random input
                union   top-level unions of s3_c09.union_tree (fixed-size and dynamically sized)
                long    runs valid by construction (s3_c09.long_case; 0 .. 300 elements, null-terminated / expression-sized / EOF; as a
                        member, two per structure, nested, and the unnamed types cs.<base>[None] / cs.<base>[n])
                tail    aligned / packed records ending in a dynamically sized member (u2_c09.tail_case), three different records
                kind    scalars, enums, char, fixed / 2-d / null-terminated arrays, typedefs (of typedefs), small structures and unions
                        (u2_c09.kind_case), as the named type and as the unnamed cs.<base>[d]
              x {<, >} x {packed, aligned} x {interpreted, compiled}.
`run_toend`   TO-END-OF-STREAM ARRAYS (`toend_case`), the one construct whose reader asks the stream for "the rest": ET d[EOF] with ET =
              char, wchar, (u)int8 .. int128, uint24, float, double, enums, flags, LEB128, structures, fixed inner arrays
              (d[EOF][2]), rows of null-terminated strings (d[EOF][]) holding 0 .. 40 elements (sometimes 300 .. 9000 bytes, beyond the
              8 KiB default buffer of open()); shapes
                last      <0..2 static heads> ET d[EOF];
                counted   heads; CT n; ET2 a[n]; ET d[EOF];              behind an expression-sized array
                string    heads; ET2 s[]; ET d[EOF];                     behind a null-terminated array
                inner     heads; struct { heads; ET d[EOF]; } r;         in a nested structure
                two       heads; ET a[EOF]; ET2 b[EOF];                  the second one is empty
                typedef   typedef ET T[EOF];  /  struct E {..}; typedef E T[EOF];
                unnamed   cs.<base>[Expression(cs, "EOF")], cs.T[...] - the array type built through the API
              x {<, >} x {packed, aligned} x {interpreted, compiled}; every record valid by construction.

Oracle (the property as stated).  The expected value and encoded size are those of the bytes from p onward on their own: the
independent reference parser (refimpl) where the input is valid by construction (long, tail, kind, toend), and the library's own
parse of the plain `bytes` for the random-input subjects (gen, union).  For every stream kind x positioning x call form:
  (1) the call succeeds and gives that value;
  (2) the stream is left at p + encoded size - tell() says so AND the next raw read(4) returns the bytes that are there;
  (3) the bytes before p are noise, as are the bytes after the extent (types without a to-end-of-stream array), different per case;
  (4) records back to back on ONE real stream (call forms mixed) and the array type T[k]: every record's value and end position;
  (5) memoryview(mmap)[p:] under T(x) / T.read(x) / T.reads(x) / cs.read(name, x), and T.reads(mmap): bytes-like views of a file;
  (6) interpreted structure subjects are also sent to the Lean model on the same bytes (`read` at p).
Any exception is a violation (the harness keeps going); a stream kind the PLATFORM cannot provide (no mmap, no bz2 ...) is skipped and
shows up in the feature histogram as "files-kind-unavailable:...".

Excluded, on purpose (documented limits of the stream objects, not of the library; `Kind.past_end`):
  mmap, gzip / bz2 / lzma files and zip members cannot be positioned beyond their last byte (mmap.seek raises ValueError("seek out of
  range"), the decompressing readers stop at the end, so tell() reports the length).  The reader aligns the stream after an ALIGNED
  structure with a relative seek, which for a record whose last member runs to the end of the input (x[EOF] in an aligned
  structure) points beyond the last byte: io.BytesIO and real files report p + rounded size, these kinds cannot.  So for these kinds
  only, cases with p + encoded size > len(input) are left out.  (unmodified library: cs.load("struct T { uint32 a; char d[EOF]; };",
  align=True); m = mmap.mmap(-1, 7); m.write(b"\\x01\\x00\\x00\\x00abc"); m.seek(0); cs.T(m) -> ValueError: seek out of range, where the
  same 7 bytes as bytes / BytesIO / open(path, "rb") parse and leave the stream at 8.)
  mmap objects cannot be empty: the mmap kinds are skipped for 0-byte inputs.  gzip files cannot seek relative to the end: the
  "seek to the end and back" positioning is not used on them.
"""
from __future__ import annotations

import io
import os
import random
import shutil
import tempfile

from . import defs, impl, refimpl, s3_c09, u2_c09, v8_c09
from .common import A
from .structprops import CONFIGS_ALL, has_eof, load, rand_bytes

S = s3_c09.S
F = s3_c09.F


def _c09():
    from .props import c09  # late: props/c09.py imports this module
    return c09


def _noise(rnd, n):
    return bytes(rnd.randrange(256) for _ in range(n))


# ------------------------------------------------------------------------------------------------ stream kinds

class ShortRaw(io.RawIOBase):
    """a raw binary stream over a buffer that hands out at most `chunk` bytes per call (what pipes and sockets do); a BufferedReader
    on top of it has to assemble every read(n) from several raw reads"""

    def __init__(self, data, chunk):
        super().__init__()
        self._d, self._p, self._k = bytes(data), 0, chunk

    def readable(self):
        return True

    def seekable(self):
        return True

    def readinto(self, b):
        n = max(0, min(len(b), self._k, len(self._d) - self._p))
        b[:n] = self._d[self._p:self._p + n]
        self._p += n
        return n

    def seek(self, off, whence=0):
        base = {0: 0, 1: self._p, 2: len(self._d)}[whence]
        if base + off < 0:
            raise OSError("negative seek position")
        self._p = base + off
        return self._p

    def tell(self):
        return self._p


class Src:
    """one input: the bytes, and (written on first use) the file that holds them"""

    def __init__(self, tmp, data, seq):
        self.tmp, self.data, self.seq = tmp, data, seq
        self._path = self._gz = None

    def path(self):
        if self._path is None:
            self._path = os.path.join(self.tmp, f"in{self.seq}.bin")
            with open(self._path, "wb") as f:
                f.write(self.data)
        return self._path

    def gzpath(self):
        if self._gz is None:
            import gzip

            self._gz = os.path.join(self.tmp, f"in{self.seq}.bin.gz")
            with gzip.open(self._gz, "wb", compresslevel=1) as f:
                f.write(self.data)
        return self._gz

    def cleanup(self):
        for p in (self._path, self._gz):
            if p is not None:
                try:
                    os.unlink(p)
                except OSError:
                    pass
        self._path = self._gz = None


class Kind:
    def __init__(self, name, make, *, weight=2, nonempty=False, past_end=True, writable=False, seek_end=True, thorough_only=False):
        self.name, self.make, self.weight = name, make, weight
        self.nonempty, self.past_end, self.writable, self.seek_end, self.thorough_only = nonempty, past_end, writable, seek_end, thorough_only


BUFSIZES = [2, 3, 7, 16, 64, 512, 4096]


def _k(rnd):
    return rnd.choice(BUFSIZES)


def _mk_open_rb(src, rnd):
    f = open(src.path(), "rb")
    return f, [f], "open(path, 'rb')"


def _mk_open_rb_k(src, rnd):
    k = _k(rnd)
    f = open(src.path(), "rb", buffering=k)
    return f, [f], f"open(path, 'rb', buffering={k})"


def _mk_open_rpb(src, rnd):
    f = open(src.path(), "r+b")
    return f, [f], "open(path, 'r+b')"


def _mk_open_apb(src, rnd):
    f = open(src.path(), "a+b")
    return f, [f], "open(path, 'a+b')"


def _mk_open_raw(src, rnd):
    f = open(src.path(), "rb", buffering=0)
    return f, [f], "open(path, 'rb', buffering=0)"


def _mk_fdopen(src, rnd):
    f = os.fdopen(os.open(src.path(), os.O_RDONLY), "rb")
    return f, [f], "os.fdopen(os.open(path, os.O_RDONLY), 'rb')"


def _mk_bufreader_fileio(src, rnd):
    k = _k(rnd)
    raw = io.FileIO(src.path(), "r")
    f = io.BufferedReader(raw, buffer_size=k)
    return f, [f, raw], f"io.BufferedReader(io.FileIO(path), buffer_size={k})"


def _mk_bufrandom_fileio(src, rnd):
    k = _k(rnd)
    raw = io.FileIO(src.path(), "r+")
    f = io.BufferedRandom(raw, buffer_size=k)
    return f, [f, raw], f"io.BufferedRandom(io.FileIO(path, 'r+'), buffer_size={k})"


def _mk_mmap_file(src, rnd):
    import mmap

    fh = open(src.path(), "rb")
    try:
        m = mmap.mmap(fh.fileno(), 0, access=mmap.ACCESS_READ)
    except Exception:
        fh.close()
        raise
    return m, [m, fh], "mmap.mmap(open(path, 'rb').fileno(), 0, access=mmap.ACCESS_READ)"


def _mk_mmap_anon(src, rnd):
    import mmap

    m = mmap.mmap(-1, len(src.data))
    m.write(src.data)
    m.seek(0)
    return m, [m], "m = mmap.mmap(-1, len(data)); m.write(data); m.seek(0)"


def _mk_gzip_path(src, rnd):
    import gzip

    f = gzip.open(src.gzpath(), "rb")
    return f, [f], "gzip.open(path + '.gz', 'rb')"


def _mk_gzip_mem(src, rnd):
    import gzip

    raw = io.BytesIO(gzip.compress(src.data, compresslevel=1))
    f = gzip.GzipFile(fileobj=raw, mode="rb")
    return f, [f, raw], "gzip.GzipFile(fileobj=io.BytesIO(gzip.compress(data)))"


def _mk_bz2(src, rnd):
    import bz2

    raw = io.BytesIO(bz2.compress(src.data, 1))
    f = bz2.BZ2File(raw, "rb")
    return f, [f, raw], "bz2.BZ2File(io.BytesIO(bz2.compress(data)))"


def _mk_lzma(src, rnd):
    import lzma

    raw = io.BytesIO(lzma.compress(src.data, preset=0))
    f = lzma.LZMAFile(raw, "rb")
    return f, [f, raw], "lzma.LZMAFile(io.BytesIO(lzma.compress(data)))"


def _mk_zip(src, rnd):
    import zipfile

    raw = io.BytesIO()
    with zipfile.ZipFile(raw, "w", rnd.choice([zipfile.ZIP_STORED, zipfile.ZIP_DEFLATED])) as z:
        z.writestr("member.bin", src.data)
    z = zipfile.ZipFile(raw, "r")
    f = z.open("member.bin")
    return f, [f, z, raw], "zipfile.ZipFile(<archive>).open('member.bin')"


def _mk_tempfile(src, rnd):
    f = tempfile.TemporaryFile(dir=src.tmp)
    f.write(src.data)
    return f, [f], "f = tempfile.TemporaryFile(); f.write(data)"


def _mk_named_tempfile(src, rnd):
    f = tempfile.NamedTemporaryFile(dir=src.tmp)
    f.write(src.data)
    return f, [f], "f = tempfile.NamedTemporaryFile(); f.write(data)"


def _mk_spooled_mem(src, rnd):
    f = tempfile.SpooledTemporaryFile(max_size=len(src.data) + 1024, dir=src.tmp)
    f.write(src.data)
    return f, [f], "f = tempfile.SpooledTemporaryFile(max_size=len(data) + 1024); f.write(data)"


def _mk_spooled_disk(src, rnd):
    f = tempfile.SpooledTemporaryFile(max_size=1, dir=src.tmp)
    f.write(src.data)
    f.rollover()
    return f, [f], "f = tempfile.SpooledTemporaryFile(max_size=1); f.write(data); f.rollover()"


def _mk_bufreader_bytesio(src, rnd):
    k = _k(rnd)
    raw = io.BytesIO(src.data)
    f = io.BufferedReader(raw, buffer_size=k)
    return f, [f, raw], f"io.BufferedReader(io.BytesIO(data), buffer_size={k})"


def _mk_bufrandom_bytesio(src, rnd):
    k = _k(rnd)
    raw = io.BytesIO(src.data)
    f = io.BufferedRandom(raw, buffer_size=k)
    return f, [f, raw], f"io.BufferedRandom(io.BytesIO(data), buffer_size={k})"


def _mk_bufreader_short(src, rnd):
    c, k = rnd.choice([1, 2, 3, 5]), _k(rnd)
    raw = ShortRaw(src.data, c)
    f = io.BufferedReader(raw, buffer_size=k)
    return f, [f, raw], f"io.BufferedReader(<raw stream over data handing out at most {c} bytes per call>, buffer_size={k})"


def _mk_bytesio(src, rnd):
    f = io.BytesIO(src.data)
    return f, [f], "io.BytesIO(data)"


def _mk_minifile(src, rnd):
    return _c09().MiniFile(src.data, 0), [], "MiniFile(data)  # harness/props/c09.py: read/seek/tell over a BytesIO"


KINDS = [
    Kind("open(path,'rb')", _mk_open_rb, weight=5),
    Kind("open(path,'rb',buffering=k)", _mk_open_rb_k, weight=3),
    Kind("open(path,'r+b')", _mk_open_rpb, weight=3, writable=True),
    Kind("open(path,'a+b')", _mk_open_apb, weight=1),
    Kind("open(path,'rb',buffering=0)", _mk_open_raw, weight=3),
    Kind("os.fdopen(fd,'rb')", _mk_fdopen, weight=1),
    Kind("io.BufferedReader(io.FileIO)", _mk_bufreader_fileio, weight=2),
    Kind("io.BufferedRandom(io.FileIO)", _mk_bufrandom_fileio, weight=2, writable=True),
    Kind("mmap(file)", _mk_mmap_file, weight=3, nonempty=True, past_end=False),
    Kind("mmap(anonymous)", _mk_mmap_anon, weight=2, nonempty=True, past_end=False),
    Kind("gzip.open(path)", _mk_gzip_path, weight=1, past_end=False, seek_end=False),
    Kind("gzip.GzipFile(BytesIO)", _mk_gzip_mem, weight=1, past_end=False, seek_end=False),
    Kind("bz2.BZ2File(BytesIO)", _mk_bz2, weight=1, past_end=False),
    Kind("lzma.LZMAFile(BytesIO)", _mk_lzma, weight=1, past_end=False, thorough_only=True),
    Kind("zipfile member", _mk_zip, weight=1, past_end=False),
    Kind("tempfile.TemporaryFile", _mk_tempfile, weight=3, writable=True),
    Kind("tempfile.NamedTemporaryFile", _mk_named_tempfile, weight=2, writable=True),
    Kind("tempfile.SpooledTemporaryFile(memory)", _mk_spooled_mem, weight=1, writable=True),
    Kind("tempfile.SpooledTemporaryFile(disk)", _mk_spooled_disk, weight=1, writable=True),
    Kind("io.BufferedReader(io.BytesIO)", _mk_bufreader_bytesio, weight=3),
    Kind("io.BufferedRandom(io.BytesIO)", _mk_bufrandom_bytesio, weight=2, writable=True),
    Kind("io.BufferedReader(short-read raw)", _mk_bufreader_short, weight=2),
    Kind("io.BytesIO", _mk_bytesio, weight=1, writable=True),
    Kind("minimal file-like", _mk_minifile, weight=1),
]


class Deck:
    """deals the stream kinds in shuffled rounds (each kind `weight` times per round), so that every kind meets every subject family"""

    def __init__(self, rnd, tier):
        self.rnd = rnd
        self.cards = [k for k in KINDS for _ in range(k.weight) if tier != "quick" or not k.thorough_only]
        self.pile = []

    def deal(self, n):
        out = []
        while len(out) < n:
            if not self.pile:
                self.pile = list(self.cards)
                self.rnd.shuffle(self.pile)
            k = self.pile.pop()
            if k not in out:
                out.append(k)
        return out


POSITIONINGS = ["seek(p)", "seek(p)", "read(p) from the start", "seek(0, 2); seek(p)", "read beyond p; seek(p)", "seek(0); seek(p, 1)", "rewrite data[:p]"]


def position(s, kind, p, data, mode):
    """bring the fresh stream to p; -> the way it was done (for the report)"""
    if p == 0 and mode == "seek(p)":
        if s.tell() != 0:  # 'a+b', temporary files that have just been written
            s.seek(0)
            return "seek(0)"
        return "fresh stream"
    if mode == "read(p) from the start":
        s.seek(0)
        left = p
        while left:
            b = s.read(left)
            if not b:
                break
            left -= len(b)
    elif mode == "seek(0, 2); seek(p)" and kind.seek_end:
        s.seek(0, 2)
        s.seek(p)
    elif mode == "read beyond p; seek(p)":
        s.seek(0)
        s.read(min(len(data), p + 5))
        s.seek(p)
    elif mode == "seek(0); seek(p, 1)":
        s.seek(0)
        s.seek(p, 1)
    elif mode == "rewrite data[:p]" and kind.writable and p:
        s.seek(0)
        s.write(data[:p])  # the same bytes again: the stream is at p with a dirty write buffer
    else:
        mode = "seek(p)"
        s.seek(p)
    return mode


def close_all(closers):
    for c in closers:
        try:
            c.close()
        except Exception:  # noqa: BLE001 - e.g. an mmap with a live export; the garbage collector gets it
            pass


STREAM_CALLS = {
    "T(s)": lambda T, cs, s: T(s),
    "T.read(s)": lambda T, cs, s: T.read(s),
    "cs.read(name, s)": lambda T, cs, s: cs.read("T", s),
}


# ------------------------------------------------------------------------------------------------ subjects

class Subject:
    """one (type, accepted input): recs = [(bytes, reference value, encoded size)] - the first one is THE input, all of them are
    used for the back-to-back reads (one record: the same record three times); keep: the type owns the rest of the input (x[EOF])"""

    def __init__(self, family, label, L, T, tree, recs, *, named=True, keep=False, note=None, sigs=(), model=False, oracle="reference parser"):
        self.family, self.label, self.L, self.T, self.tree, self.recs = family, label, L, T, tree, recs
        self.named, self.keep, self.note, self.sigs, self.model, self.oracle = named, keep, note, list(sigs), model, oracle


def _manual_L(tree, text, endian, align, compiled):
    L = object.__new__(impl.Loaded)
    L.tree, L.endian, L.align, L.compiled, L.pointer = tree, endian, align, compiled, "uint64"
    L.text = text
    L.cs = impl.dc().cstruct(endian=endian, pointer="uint64")
    L.cs.load(text, compiled=compiled, align=align)
    L.T = L.cs.T
    return L


def _ref(tree, body, cfg):
    try:
        v, end, _ = refimpl.parse(tree, body, 0, cfg)
        return ("ok", v, end)
    except refimpl.Short:
        return ("err", "EOFError")
    except refimpl.Bad:
        return ("err", "Bad")
    except (OverflowError, KeyError, ValueError):
        return ("err", "ref")


def _sigs(eng, L):
    # F9F10 / F44 are about DUMPING unions: they cannot excuse a difference between two ways of reading
    return [x for x in eng.sigs(L) if x not in ("F9F10", "F44")]


def subj_gen(eng, res, rnd, union=False):
    c09 = _c09()
    if union:
        tree, kind = s3_c09.union_tree(rnd)
    else:
        tree, kind = defs.Gen(rnd, max_depth=rnd.choice([1, 2, 2])).struct(), "struct"
    endian, align, compiled = rnd.choice(CONFIGS_ALL)
    L, _err = load(tree, endian=endian, align=align, compiled=compiled, pointer=rnd.choice(["uint64", "uint32", "uint16"]))
    if L is None:
        return None
    T = L.T
    size = T.size if T.size is not None else (24 if union else 48)
    for _try in range(4):
        cand = rand_bytes(rnd, size + rnd.choice([0, 8, 24]))
        w = c09.parse_plain(T, cand)
        if w[0] == "ok":
            break
    else:
        return None
    keep = has_eof(tree)
    consumed = w[2]
    body = cand if keep else cand[:consumed].ljust(consumed, b"\x00")
    if not keep:
        w = c09.parse_plain(T, body)  # the extent may end in padding beyond the random input
        if w[0] != "ok" or w[2] != consumed:
            return None
    for k, v in defs.features(tree).items():
        res.feat(k, v)
    return Subject("union" if union else "gen", f"{kind}", L, T, tree, [(body, w[1], consumed)], keep=keep, sigs=_sigs(eng, L),
                   model=(not union and not compiled), oracle="the library's own parse of the plain bytes")


LONG_LENGTHS = [0, 1, 2, 5, 17, 63, 64, 65, 100, 300]


def subj_long(eng, res, rnd):
    case = s3_c09.long_case(rnd, lengths=LONG_LENGTHS)
    tree = case["tree"]
    endian, align, compiled = rnd.choice(CONFIGS_ALL)
    if not case["standalone"]:
        align = False  # long_case constructs the packed layout of its structures
    dummy = ("struct", [F("x", S("uint8"))])
    cfg = refimpl.Cfg(endian, align, "uint64", impl.CONSTS)
    recs = []
    for _j in range(1 if case["form"] == "eof" else 3):
        body = case["make"](endian, align)
        if body is None:
            return None
        r = _ref(tree, body, cfg)
        if r[0] != "ok" or r[2] != len(body):
            res.feat("files: constructed input not accepted by the reference parser (long)")
            return None
        recs.append((body, r[1], r[2]))
    if case["standalone"]:
        L, _err = load(dummy, endian=endian, align=align, compiled=compiled)
        if L is None:
            return None
        en, dim = case["standalone"]
        L.tree = tree
        T, note, named = getattr(L.cs, en)[dim], f"T = cs.{en}[{dim}]", False
    else:
        L, _err = load(tree, endian=endian, align=align, compiled=compiled)
        if L is None:
            return None
        T, note, named = L.T, None, True
    return Subject("long", case["label"].rsplit(":", 1)[0], L, T, tree, recs, named=named, keep=(case["form"] == "eof"), note=note,
                   sigs=_sigs(eng, L), model=(named and not compiled))


def subj_tail(eng, res, rnd):
    case = u2_c09.tail_case(rnd)
    tree = case["tree"]
    endian, align, compiled = rnd.choice(CONFIGS_ALL)
    L, _err = load(tree, endian=endian, align=align, compiled=compiled)
    if L is None:
        return None
    cfg = refimpl.Cfg(endian, align, "uint64", impl.CONSTS)
    recs = []
    for _j in range(3):
        out = bytearray()
        u2_c09.emit(tree, out, rnd, endian, cfg)
        r = _ref(tree, bytes(out), cfg)
        if r[0] != "ok" or r[2] != len(out):
            res.feat("files: constructed input not accepted by the reference parser (tail)")
            return None
        recs.append((bytes(out), r[1], r[2]))
    return Subject("tail", case["label"], L, L.T, tree, recs, sigs=_sigs(eng, L), model=not compiled)


def subj_kind(eng, res, rnd):
    case = u2_c09.kind_case(rnd)
    tree = case["tree"]
    endian = rnd.choice("<>")
    align = rnd.random() < 0.3 and tree[0] in ("struct", "union")
    compiled = rnd.random() < 0.5
    try:
        L = _manual_L(tree, defs.PREAMBLE + case["text"], endian, align, compiled)
    except Exception as e:  # noqa: BLE001
        res.feat(f"files: definition rejected:{case['kind']}:{type(e).__name__}")
        return None
    cfg = refimpl.Cfg(endian, align, "uint64", impl.CONSTS)
    size = refimpl.size_align(tree, cfg)[0]
    if L.T.size != size:
        return None
    recs = []
    for _j in range(3):
        enc = case["dyn_enc"](endian) if case["dyn_enc"] else u2_c09._static_bytes(rnd, size)
        r = _ref(tree, enc, cfg)
        if r[0] != "ok" or r[2] != len(enc):
            return None
        recs.append((enc, r[1], r[2]))
    T, note, named = L.T, None, True
    if case["direct"] and rnd.random() < 0.4:
        base, dims = case["direct"]
        T = getattr(L.cs, base)
        for d in dims:
            T = T[d]
        note, named = "T = cs." + base + "".join(f"[{d}]" for d in dims), False
    sigs = _sigs(eng, L) if tree[0] in ("struct", "union") else []
    return Subject("kind", case["label"].rsplit(":", 1)[0].split(":")[0] + ":" + case["label"].rsplit(":", 1)[1], L, T, tree, recs, named=named, note=note, sigs=sigs)


# ------------------------------------------------------------------------------------------------ to-end-of-stream arrays

TOEND_POOL = {
    **v8_c09.ELEM_POOL,
    "int8": S("int8"), "double": S("double"), "F16": ("enum", "F16"), "uint64": S("uint64"),
    "char[]": ("arr", S("char"), ("null",)),
}
TOEND_NAMES = ["char", "char", "char", "char", "char", "wchar", "wchar", "uint8", "uint8", "int8", "int16", "uint16", "uint24", "uint32", "int64", "uint64",
               "int128", "float", "double", "E8", "E32", "F16", "uleb128", "ileb128", "pair", "u8u16", "u32u8", "u16c3", "char[2]", "uint16[2]", "char[]"]
TOEND_BULK = ["char", "char", "uint8", "wchar", "uint16", "uint32", "E8"]  # elements used for the inputs beyond the default buffer size
TOEND_SHAPES = ["last", "last", "last", "last", "counted", "string", "inner", "two", "typedef", "typedef", "unnamed", "unnamed"]
UNNAMED_BASES = ["char", "char", "char", "wchar", "uint8", "int16", "uint16", "uint24", "uint32", "int64", "float", "E8", "E32", "uleb128", "ileb128", "T"]


def _count(rnd, big):
    if big:
        return rnd.choice([300, 1000, 4100, 8200, 9000])
    return rnd.choice([0, 0, 1, 1, 2, 3, 5, 8, 13, 33, rnd.randint(0, 40)])


def _eof_field(rnd, name, en, big=False):
    f = F(name, ("arr", TOEND_POOL[en], ("eof",)))
    n = _count(rnd, big)
    f["count"] = lambda r, n=n: n if big else _count(r, False)
    return f


def toend_case(rnd: random.Random, big=False):
    """-> dict(label, shape, tree, text | None, unnamed = base name | None)"""
    k = [0]

    def nm(p="h"):
        k[0] += 1
        return f"{p}{k[0]}"

    shape = rnd.choice(TOEND_SHAPES)
    en = rnd.choice(TOEND_BULK if big else TOEND_NAMES)
    heads = [F(nm(), rnd.choice(u2_c09.HEAD_POOL)()) for _ in range(rnd.choice([0, 0, 1, 1, 2]))]
    if shape == "typedef":
        et = TOEND_POOL[en]
        tree = ("arr", et, ("eof",))
        if et[0] == "struct":
            text = defs.render_struct("E", et) + "typedef E T[EOF];\n"
        else:
            text = "typedef " + defs.render_field(F("T", tree), None) + "\n"
        return {"label": f"typedef:{en}", "shape": shape, "tree": tree, "text": text, "unnamed": None, "count": _count(rnd, big)}
    if shape == "unnamed":
        base = rnd.choice(TOEND_BULK if big else UNNAMED_BASES)
        inner = ("struct", [F("x", S("uint8")), F("y", S("uint16"))])
        et = inner if base == "T" else TOEND_POOL[base]
        return {"label": f"unnamed:{base}", "shape": shape, "tree": ("arr", et, ("eof",)), "text": defs.render_struct("T", inner), "unnamed": base,
                "count": _count(rnd, big)}
    if shape == "last":
        fs = heads + [_eof_field(rnd, "d", en, big)]
        lab = en
    elif shape == "counted":
        n = F("n", S(rnd.choice(["uint8", "uint16", "uint32"])))
        n["gen"] = u2_c09._count_gen(12)
        e2, t2 = u2_c09._elem(rnd)
        fs = heads + [n, F("a", ("arr", t2, ("expr", rnd.choice(["n", "n", "n & 7", "n + 1", "K2 + n"])))), _eof_field(rnd, "d", en, big)]
        lab = f"{e2}+{en}"
    elif shape == "string":
        e2, t2 = u2_c09._elem(rnd, allow_struct=False)
        s = F("s", ("arr", t2, ("null",)))
        s["count"] = u2_c09._count_gen(12)
        fs = heads + [s, _eof_field(rnd, "d", en, big)]
        lab = f"{e2}[]+{en}"
    elif shape == "inner":
        inner = ("struct", [*([F("tag", S(rnd.choice(["uint8", "uint16", "uint64"])))] if rnd.random() < 0.5 else []), _eof_field(rnd, "d", en, big)])
        fs = heads + [F("r", inner)]
        lab = en
    else:  # two
        e2 = rnd.choice(TOEND_NAMES)
        b = F("b", ("arr", TOEND_POOL[e2], ("eof",)))
        b["count"] = lambda r: 0
        fs = heads + [_eof_field(rnd, "a", en, big), b]
        lab = f"{en}+{e2}"
    return {"label": f"{shape}:{lab}", "shape": shape, "tree": ("struct", fs), "text": None, "unnamed": None, "count": None}


def _open_ended(ty):
    if ty[0] != "struct" or not ty[1]:
        return False
    last = ty[1][-1]["ty"]
    return (last[0] == "arr" and last[2][0] == "eof") or _open_ended(last)


def emit(ty, out: bytearray, rnd, endian, cfg, f=None, ctx=None):
    """v8_c09.emit plus to-end-of-stream arrays (f["count"] elements; the caller makes them the last thing of the record) and rows of
    null-terminated strings"""
    k = ty[0]
    if k == "arr" and ty[2][0] == "eof":
        for _ in range(f["count"](rnd)):
            emit(ty[1], out, rnd, endian, cfg)
        return None
    if k == "arr" and ty[2][0] == "null":
        return u2_c09.emit(ty, out, rnd, endian, cfg, f if (f is not None and "count" in f) else {"count": lambda r: r.choice([0, 1, 2, 5])}, ctx)
    if k == "struct":
        maxal, mine = 1, {}
        for g in ty[1]:
            _, al = refimpl.size_align(g["ty"], cfg)
            maxal = max(maxal, al)
            if cfg.align:
                u2_c09._pad_to(out, u2_c09.roundup(len(out), al), rnd)
            v = emit(g["ty"], out, rnd, endian, cfg, g, mine)
            if isinstance(v, int) and g["name"] is not None:
                mine[g["name"]] = ["int", v]
        # a structure that ends in a to-end-of-stream array gets no tail padding: the array would own it, and inputs whose last element
        # ends OFF an alignment boundary (the reader's tail alignment then points beyond the last byte) are part of the family
        if cfg.align and not _open_ended(ty):
            u2_c09._pad_to(out, u2_c09.roundup(len(out), maxal), rnd)
        return None
    return v8_c09.emit(ty, out, rnd, endian, cfg, f, ctx)


def _eof_expression(cs):
    import importlib

    Expression = importlib.import_module("dissect.cstruct.expression").Expression
    try:
        return Expression(cs, "EOF")
    except TypeError:
        return Expression("EOF")


def subj_toend(eng, res, rnd, big=False):
    case = toend_case(rnd, big)
    tree = case["tree"]
    endian, align, compiled = rnd.choice(CONFIGS_ALL)
    cfg = refimpl.Cfg(endian, align, "uint64", impl.CONSTS)
    note, named = None, True
    if case["text"] is not None:
        try:
            L = _manual_L(tree, defs.PREAMBLE + case["text"], endian, align, compiled)
        except Exception as e:  # noqa: BLE001
            eng.report(f"definition rejected: {type(e).__name__}: {e}", {"definition": case["text"]}, [])
            return None
        T = L.T
        if case["unnamed"]:
            try:
                T = getattr(L.cs, case["unnamed"])[_eof_expression(L.cs)]
            except Exception as e:  # noqa: BLE001
                # a library without this way of building the type has nothing to read with it
                res.feat(f"toend: cs.<base>[Expression(cs, 'EOF')] is refused: {type(e).__name__}")
                return None
            note, named = f"T = cs.{case['unnamed']}[Expression(cs, 'EOF')]", False
        fld = {"count": lambda r, n=case["count"]: n}
    else:
        L, err = load(tree, endian=endian, align=align, compiled=compiled)
        if L is None:
            eng.report(f"definition rejected: {type(err).__name__}: {err}", {"definition": defs.render_struct("T", tree)}, [])
            return None
        T, fld = L.T, None
    out = bytearray()
    try:
        emit(tree, out, rnd, endian, cfg, fld)
    except (OverflowError, KeyError, ValueError):
        return None
    body = bytes(out)
    r = _ref(tree, body, cfg)
    if r[0] != "ok" or r[2] < len(body):
        res.feat("toend: constructed record not accepted by the reference parser")
        return None
    res.feat(f"toend-shape:{case['shape']}:{'aligned' if align else 'packed'}")
    res.feat("toend-elem:" + case["label"].split(":", 1)[1].split("+")[-1])
    res.feat("toend-length:" + ("0" if not body else "<64" if len(body) < 64 else "64..511" if len(body) < 512 else "512..8191" if len(body) < 8192 else ">=8192"))
    if compiled and tree[0] == "struct":
        res.feat("toend: compiled reader " + ("active" if getattr(T, "__compiled__", False) else "fell back to the interpreter"))
    return Subject("toend", case["label"], L, T, tree, [(body, r[1], r[2])], named=named, keep=True, note=note,
                   sigs=_sigs(eng, L) if tree[0] == "struct" else [], model=(tree[0] == "struct" and not compiled and len(body) < 400))


# ------------------------------------------------------------------------------------------------ the probe

def _sizes(obj):
    try:
        return sorted((k, n) for k, n in obj._sizes.items() if n)
    except Exception:  # noqa: BLE001
        return None


class Runner:
    def __init__(self, env, eng, res, rnd, tmp):
        self.env, self.eng, self.res, self.rnd, self.tmp = env, eng, res, rnd, tmp
        self.quick = env["tier"] == "quick"
        self.deck = Deck(rnd, env["tier"])
        self.seq = 0

    def src(self, data):
        self.seq += 1
        return Src(self.tmp, data, self.seq)

    def open(self, kind, src, p, mode=None):
        """-> (stream, closers, description, positioning) | None (the platform cannot provide this kind of stream)"""
        rnd = self.rnd
        try:
            s, closers, desc = kind.make(src, rnd)
        except (ImportError, OSError, ValueError, AttributeError) as e:  # the library is not involved in making the stream
            self.res.feat(f"files-kind-unavailable:{kind.name}:{type(e).__name__}")
            return None
        try:
            how = position(s, kind, p, src.data, mode or rnd.choice(POSITIONINGS))
            at = s.tell()
        except Exception as e:  # noqa: BLE001 - the stream object itself cannot do this: nothing the library is involved in
            close_all(closers)
            self.res.feat(f"files-kind-unavailable:{kind.name}:positioning:{type(e).__name__}")
            return None
        if at != p:
            close_all(closers)
            self.res.feat(f"files-kind-unavailable:{kind.name}:positioning left the stream elsewhere")
            return None
        return s, closers, desc, how

    def usable(self, kind, data, end):
        if kind.nonempty and not data:
            return False
        # documented exclusion (module docstring): these kinds cannot be positioned beyond their last byte
        if not kind.past_end and end > len(data):
            self.res.feat("files: skipped, the extent ends beyond the input and this stream kind cannot be positioned there")
            return False
        return True

    def subject(self, sj: Subject):
        eng, res, rnd, quick = self.eng, self.res, self.rnd, self.quick
        c09 = _c09()
        eq = c09.eq
        L, T = sj.L, sj.T
        extra = {"type": sj.note} if sj.note else {}
        body, ref, consumed = sj.recs[0]
        Aln = max(1, getattr(T, "alignment", None) or 1) if L.align else 1
        how = f"{'aligned' if L.align else 'packed'}, {'compiled' if L.compiled else 'interpreted'}"
        what = f"{sj.family}:{sj.label}" + (f" as {sj.note}" if sj.note else "") + f" ({how})"
        res.feat(f"files-subject:{sj.family}")
        res.feat(f"files-top:{sj.tree[0]}")
        calls = [c for c in STREAM_CALLS if sj.named or not c.startswith("cs.read")]
        offsets = [0, Aln * rnd.choice([1, 1, 2, 3, 5, 16, rnd.randint(1, 40)])] + ([] if quick else [Aln * rnd.randint(1, 300)])
        reported = False
        modelled = False
        # (1)-(3) one record at start offsets p, stream kinds x positionings x call forms
        for p in offsets:
            tail = b"" if sj.keep else _noise(rnd, rnd.choice([0, 1, 4, 9, 33]))
            data = _noise(rnd, p) + body + tail
            end = p + consumed
            src = self.src(data)
            try:
                for kind in self.deck.deal(3 if quick else 6):
                    if not self.usable(kind, data, end):
                        continue
                    form = rnd.choice(calls)
                    o = self.open(kind, src, p)
                    if o is None:
                        continue
                    s, closers, desc, posd = o
                    obj = None
                    try:
                        obj = STREAM_CALLS[form](T, L.cs, s)
                        got = ("ok", impl.canon(obj), s.tell())
                    except Exception as e:  # noqa: BLE001
                        got = ("err", impl.err_class(e), str(e)[:100])
                    nxt = None
                    if got[0] == "ok":
                        try:
                            nxt = s.read(4)
                        except Exception as e:  # noqa: BLE001
                            nxt = repr(e)
                    close_all(closers)
                    res.count((L.text, sj.note, L.endian, L.align, L.compiled, data, p, desc, posd, form, "files"), True)
                    res.feat("files-kind:" + kind.name)
                    res.feat("files-positioned:" + posd)
                    res.feat("files-form:" + form)
                    res.feat("files-offset:" + ("0" if p == 0 else ">0"))
                    bad = None
                    if got[0] != "ok":
                        bad = f"raises {got[1]}: {got[2]}"
                    elif not eq(got[1], ref):
                        bad = f"gives {str(got[1])[:200]}"
                    elif got[2] != end:
                        bad = f"gives the right value but leaves the stream at {got[2]}"
                    elif nxt != data[end:end + 4]:
                        bad = f"reports position {got[2]}, but the next read(4) on the stream returns {nxt!r} where the input has {data[end:end + 4]!r}"
                    if bad and not reported:
                        reported = True  # one report per subject: the other kinds / offsets usually fail alike
                        eng.report(f"{what}: {form} with s = {desc}, positioned at {p} of {len(data)} bytes by {posd}, {bad}; the bytes from {p} onward on their own "
                                   f"parse to {str(ref)[:200]} with encoded size {consumed} ({sj.oracle}), i.e. the stream belongs at {end}",
                                   eng.case_data(L, data=data, pos=p, form=form, stream=desc, positioned=posd, **extra), sj.sigs)
                    # (6) the Lean model on the same bytes
                    if not bad and sj.model and not modelled and p and "F23" not in sj.sigs and len(data) < 400:
                        sz = _sizes(obj)
                        if sz is not None:
                            eng.model_read(L, data, p, ("ok", got[1], got[2], sz), f"real-file family: read at offset {p}", sj.sigs)
                            res.feat("files: case also sent to the Lean model")
                        modelled = True
                # (5) bytes-like views of a mapped file
                if data and rnd.random() < (0.25 if quick else 0.5) and not reported:
                    reported = self.mapped_views(sj, what, src, data, p, ref, extra) or reported
            finally:
                src.cleanup()
        # (4) records back to back on one real stream, and the array type T[k]
        if not sj.keep and not reported:
            self.back_to_back(sj, what, Aln, extra)

    def mapped_views(self, sj, what, src, data, p, ref, extra):
        eng, res, rnd = self.eng, self.res, self.rnd
        eq = _c09().eq
        L, T = sj.L, sj.T
        try:
            import mmap

            m = (mmap.mmap(-1, len(data)) if rnd.random() < 0.5 else None)
            fh = None
            if m is None:
                fh = open(src.path(), "rb")
                m = mmap.mmap(fh.fileno(), 0, access=mmap.ACCESS_READ)
            else:
                m.write(data)
                m.seek(0)
        except Exception as e:  # noqa: BLE001
            res.feat(f"files-kind-unavailable:memoryview over mmap:{type(e).__name__}")
            return False
        forms = {
            "T(memoryview(mmap)[p:])": lambda v: T(v), "T.read(memoryview(mmap)[p:])": lambda v: T.read(v), "T.reads(memoryview(mmap)[p:])": lambda v: T.reads(v),
        }
        if sj.named:
            forms["cs.read(name, memoryview(mmap)[p:])"] = lambda v: L.cs.read("T", v)
        failed = False
        view = memoryview(m)
        sub = view[p:]
        try:
            picks = rnd.sample(sorted(forms), 2) + (["T.reads(mmap)"] if p == 0 else [])
            for form in picks:
                try:
                    got = ("ok", impl.canon(T.reads(m) if form == "T.reads(mmap)" else forms[form](sub)))
                except Exception as e:  # noqa: BLE001
                    got = ("err", impl.err_class(e), str(e)[:100])
                res.count((L.text, sj.note, L.endian, L.align, L.compiled, data, p, form, "files-view"), True)
                res.feat("files-form:" + form)
                if (got[0] != "ok" or not eq(got[1], ref)) and not failed:
                    failed = True
                    eng.report(f"{what}: {form} over a mapping of {len(data)} bytes, p = {p}, gives {str(got[1:])[:200]}; the same bytes as `bytes` parse to "
                               f"{str(ref)[:200]} ({sj.oracle})", eng.case_data(L, data=data, pos=p, form=form, **extra), sj.sigs)
        finally:
            try:
                sub.release()
                view.release()
            except Exception:  # noqa: BLE001
                pass
            close_all([m] + ([fh] if fh is not None else []))
        return failed

    def back_to_back(self, sj, what, Aln, extra):
        eng, res, rnd, quick = self.eng, self.res, self.rnd, self.quick
        eq = _c09().eq
        L, T = sj.L, sj.T
        recs = sj.recs if len(sj.recs) == 3 else [sj.recs[0]] * 3
        if any(r[2] % Aln for r in recs[:2]):
            return  # (cannot happen: an aligned record's encoded size is a multiple of its alignment)
        p = Aln * rnd.choice([0, 1, 2, 5])
        data = _noise(rnd, p) + b"".join(r[0] for r in recs) + _noise(rnd, rnd.choice([0, 3, 8]))
        want, at = [], p
        for r in recs:
            at += r[2]
            want.append((r[1], at))
        calls = [c for c in STREAM_CALLS if sj.named or not c.startswith("cs.read")]
        src = self.src(data)
        try:
            for kind in self.deck.deal(2 if quick else 4):
                if not self.usable(kind, data, at):
                    continue
                o = self.open(kind, src, p)
                if o is None:
                    continue
                s, closers, desc, posd = o
                seq = [rnd.choice(calls) for _j in range(3)]
                got = []
                try:
                    for form in seq:
                        obj = STREAM_CALLS[form](T, L.cs, s)
                        got.append((impl.canon(obj), s.tell()))
                    ok = all(eq(g[0], w[0], False) and g[1] == w[1] for g, w in zip(got, want))
                except Exception as e:  # noqa: BLE001
                    ok = False
                    got.append((repr(e)[:120], None))
                close_all(closers)
                res.count((L.text, sj.note, L.endian, L.align, L.compiled, data, p, desc, posd, tuple(seq), "files-seq"), True)
                res.feat("files-kind:" + kind.name)
                res.feat("files: three records back to back on one stream")
                if not ok:
                    eng.report(f"{what}: reads {seq} back to back on s = {desc}, positioned at {p} by {posd}, leave the stream at {[g[1] for g in got]} (expected "
                               f"{[w[1] for w in want]}) with values {str([g[0] for g in got])[:240]}; each record's bytes on their own give {str([r[1] for r in recs])[:240]}",
                               eng.case_data(L, data=data, pos=p, forms=seq, stream=desc, positioned=posd, record_lengths=[len(r[0]) for r in recs], **extra), sj.sigs)
                    return
            # the array type T[k] over k records
            kk = rnd.choice([2, 3])
            kind = self.deck.deal(1)[0]
            want_end = p + sum(r[2] for r in recs[:kk])
            if not self.usable(kind, data, want_end):
                return
            try:
                AT = T[kk]
            except Exception as e:  # noqa: BLE001
                res.feat(f"files: T[k] cannot be built for this type: {type(e).__name__}")
                return
            o = self.open(kind, src, p)
            if o is None:
                return
            s, closers, desc, posd = o
            form = rnd.choice(["T[k](s)", "T[k].read(s)"])
            try:
                v = AT(s) if form == "T[k](s)" else AT.read(s)
                got = ("ok", impl.canon(v), s.tell())
            except Exception as e:  # noqa: BLE001
                got = ("err", impl.err_class(e), str(e)[:100])
            close_all(closers)
            res.count((L.text, sj.note, L.endian, L.align, L.compiled, data, p, desc, posd, kk, form, "files-array"), True)
            res.feat("files: array type T[k] over k records on one stream")
            exp = self.array_value(sj, [r[1] for r in recs[:kk]])
            if got[0] != "ok" or (exp is not None and not eq(got[1], exp, False)) or got[2] != want_end:
                eng.report(f"{what}: {form} with k = {kk} on s = {desc}, positioned at {p} by {posd}, gives {str(got[1:])[:200]} and leaves the stream at "
                           f"{got[2] if got[0] == 'ok' else None}; the records on their own give {str([r[1] for r in recs[:kk]])[:200]}, ending at {want_end}",
                           eng.case_data(L, data=data, pos=p, stream=desc, positioned=posd, **{**extra, "type": (sj.note or "T = cs.T") + f"; T[{kk}]"}), sj.sigs)
        finally:
            src.cleanup()

    @staticmethod
    def array_value(sj, vals):
        """the canonical value of T[k] from the k element values: char / wchar elements are joined, everything else is a list"""
        t = sj.tree
        if t[0] == "sc" and refimpl.sc(t[1])[0] == "char":
            return [A("bytes"), b"".join(v[1] for v in vals)]
        if t[0] == "sc" and refimpl.sc(t[1])[0] == "wchar":
            return [A("wstr"), *[u for v in vals for u in v[1:]]]
        return [A("list"), *vals]


def _with_tmp(fn):
    tmp = tempfile.mkdtemp(prefix="verif-c09-")
    try:
        return fn(tmp)
    finally:
        shutil.rmtree(tmp, ignore_errors=True)


def _guarded(eng, res, doing, fn, sj=None):
    """the harness keeps going on a library that no longer behaves: on the unchanged tree nothing in here raises (every call into the library
    whose failure the property speaks about is wrapped where it is made), so an exception that escapes is reported with what was going on"""
    try:
        return fn()
    except Exception as e:  # noqa: BLE001
        import traceback

        data = {"traceback": traceback.format_exc()[-1500:]}
        if sj is not None:
            data = {**eng.case_data(sj.L, **({"type": sj.note} if sj.note else {})), **data}
        eng.report(f"real-file family: {doing} raised {type(e).__name__}: {str(e)[:160]} - a call into the library that always succeeds on the unchanged "
                   "tree (loading a well-formed definition, building an array type, reading a type attribute) failed", data, [])
        return None


def run_files(env, eng, res, rnd):
    """every type family x real file objects"""
    quick = env["tier"] == "quick"
    makers = [("gen", lambda: subj_gen(eng, res, rnd)), ("gen", lambda: subj_gen(eng, res, rnd)), ("union", lambda: subj_gen(eng, res, rnd, union=True)),
              ("long", lambda: subj_long(eng, res, rnd)), ("tail", lambda: subj_tail(eng, res, rnd)), ("kind", lambda: subj_kind(eng, res, rnd)),
              ("kind", lambda: subj_kind(eng, res, rnd))]

    def go(tmp):
        run = Runner(env, eng, res, rnd, tmp)
        for i in range(420 if quick else 9000):
            name, mk = makers[i % len(makers)]
            sj = _guarded(eng, res, f"building a {name} subject", mk)
            if sj is None:
                res.feat(f"files: no subject this round ({name})")
                continue
            _guarded(eng, res, f"probing {sj.family}:{sj.label}", lambda: run.subject(sj), sj)
            if len(eng.lines) > 3000:
                eng.flush()
        eng.flush()
    _with_tmp(go)


def run_toend(env, eng, res, rnd):
    """to-end-of-stream arrays x real file objects"""
    quick = env["tier"] == "quick"

    def go(tmp):
        run = Runner(env, eng, res, rnd, tmp)
        for i in range(420 if quick else 6000):
            sj = _guarded(eng, res, "building a to-end-of-stream subject", lambda: subj_toend(eng, res, rnd, big=(i % (30 if quick else 15) == 7)))
            if sj is None:
                continue
            _guarded(eng, res, f"probing {sj.family}:{sj.label}", lambda: run.subject(sj), sj)
            if len(eng.lines) > 3000:
                eng.flush()
        eng.flush()
    _with_tmp(go)
