"""Option independence between load() calls on ONE cstruct object (helper of props/c14.py).

"Loading definitions ... on one cstruct object never affects types of another" and "parsing is a pure function of type and bytes: the
result does not depend on what was parsed, dumped, constructed or failed before" - here applied to the *options* of load(): what
`cs.load(D, align=a, compiled=c)` creates is determined by D and (a, c), never by the unrelated definitions the same object loaded
before and the options those loads were given.

A session is one cstruct object (random endianness and pointer type) that performs 2-4 loads.  Every load brings a self-contained
definition text of its own (all names carry a per-load prefix, nothing refers to another load) and its own options: from one load to
the next `align` and / or `compiled` are flipped (a few sessions keep them, as a control), the keyword is left out when it has its
default value in half of the cases, and now and then a load goes through the legacy parser (deftype=DEF_LEGACY, `compiled` only).  So a
definition is met after 0-3 earlier loads with the opposite / the same / mixed options, aligned-first as well as unaligned-first.

Definitions:
  pad    : 1-3 structures built for padding-sensitive layouts: small members directly before large ones (uint8 / char / uint16 before
           uint32 / uint64 / double / uint128 / pointers), fixed arrays, arrays sized by a #define of the same load, nested named structures
           and arrays of them, inline and anonymous structures / unions, bit-field runs, enums of 1-8 bytes, typedef'd scalars, a count member
           followed by an expression-sized array, null-terminated and to-end-of-stream tails.
  gen    : a tree of the general definition generator (harness/defs.py: all scalar types and aliases, floats, wchar, LEB128, enums /
           flags, pointers, unions, anonymous members, bit-fields, dynamic arrays) with its enum preamble; all global names prefixed.
  legacy : a flat structure of scalars and fixed arrays in the subset the legacy parser reads.

After every load the new definition AND every definition loaded earlier on that object are observed:
  * the load's outcome (accepted / which exception),
  * per structure: name, size, alignment, dynamic, __align__, __compiled__, and recursively for every field its name, offset, bits,
    alignment and type layout (arrays / pointers through `.type`),
  * len(T),
  * parses of 3 fixed byte strings (two long ones, one truncated): value (members by name), stream position afterwards, dumps() of the
    parsed value,
  * default construction: value and dumps().
The oracle for each observation is the same observation on a brand-new cstruct object (same endianness / pointer) that performed ONLY
that one load with the same options.  Any difference - including a load / parse / dump that raises on one side only - is a violation.

The only thing that is normalised: the *name* of an anonymous structure is `__anonymous_<N>__` with N a running number of the cstruct
object (cstruct._next_anonymous), so it necessarily counts the anonymous structures of earlier loads; anonymous names are renumbered by
first appearance inside one observation.  Nothing else is excluded.

Every reported case carries two standalone scripts (`history_script`: all loads of the session up to the observation, `fresh_script`: the
one load on a new object) that print the observation; `--replay` re-executes both and compares their output.
"""
from __future__ import annotations

import re

from . import defs, impl

# The observation, as source text: the harness executes it, and the replay scripts embed it (so that they are standalone).
OBS_SRC = r'''
import io as _io, re as _re
from enum import Enum as _Enum


def _lay(T, depth=0):
    g = lambda n: getattr(T, n, "<missing>")
    out = [g("__name__"), g("size"), g("alignment"), g("dynamic"), getattr(T, "__align__", None), getattr(T, "__compiled__", None)]
    if depth > 7:
        return out
    inner = getattr(T, "type", None)
    if isinstance(inner, type):
        ne = getattr(T, "num_entries", None)
        ne = ne if isinstance(ne, (int, type(None))) else ("expression", str(getattr(ne, "expression", type(ne).__name__)))
        out.append(("of", ne, getattr(T, "null_terminated", None), _lay(inner, depth + 1)))
    fs = getattr(T, "__fields__", None)
    if isinstance(fs, list):
        out.append([(f._name, f.offset, f.bits, f.alignment, _lay(f.type, depth + 1)) for f in fs])
    return out


def _val(v, depth=0):
    if type(v).__name__ == "UnionProxy":
        v = object.__getattribute__(v, "__target__")
    fs = getattr(type(v), "__fields__", None)
    if isinstance(fs, list):
        if depth > 7:
            return (type(v).__name__, "...")
        return (type(v).__name__, [(f._name, _val(getattr(v, f._name, "<missing>"), depth + 1)) for f in fs])
    if isinstance(v, _Enum):
        return ("enum", type(v).__name__, int(v.value))
    if isinstance(v, bool):
        return int(v)
    if isinstance(v, int):
        return int(v) if type(v) is int else ("int", type(v).__name__, int(v))
    if isinstance(v, (bytes, bytearray)):
        return bytes(v).hex()
    if isinstance(v, str):
        return ("str", v)
    if isinstance(v, float):
        return ("flt", repr(float(v)))
    if isinstance(v, (list, tuple)):
        return [_val(x, depth + 1) for x in v]
    return ("other", type(v).__name__)


def _try(f):
    try:
        return ("ok", f())
    except Exception as e:
        return ("error", type(e).__name__)


def _norm(text):
    seen = {}
    return _re.sub(r"__anonymous_\d+__", lambda m: seen.setdefault(m.group(0), "__anonymous_#%d__" % len(seen)), text)


def observe(cs, names, probes):
    """-> [(label, text)]: what the structures `names` of `cs` look like and do"""
    out = []
    for n in names:
        r = _try(lambda: getattr(cs, n))
        if r[0] != "ok":
            out.append(("resolving " + n, repr(r)))
            continue
        T = r[1]
        out.append(("layout of " + n + " (name, size, alignment, dynamic, __align__, __compiled__, fields: name, offset, bits, alignment, type)",
                    _norm(repr(_try(lambda: _lay(T))))))
        out.append(("len(" + n + ")", repr(_try(lambda: len(T)))))
        for i, d in enumerate(probes):
            def parse():
                s = _io.BytesIO(d)
                v = T(s)
                return (_val(v), "stream position", s.tell(), "dumps", _try(lambda: v.dumps().hex()))
            out.append(("%s(bytes.fromhex(%r)) (value, stream position, dumps)" % (n, d.hex()), _norm(repr(_try(parse)))))
        def default():
            v = T()
            return (_val(v), "dumps", _try(lambda: v.dumps().hex()))
        out.append((n + "() (value, dumps)", _norm(repr(_try(default)))))
    return out
'''
_ns: dict = {}
exec(compile(OBS_SRC, "<v4_c14 observation>", "exec"), _ns)  # noqa: S102 - our own source text above
observe = _ns["observe"]

# --------------------------------------------------------------------------------------------------------------------
# definitions
# --------------------------------------------------------------------------------------------------------------------
SMALL = ["uint8", "int8", "char", "uint8", "uint16", "int16", "uint24", "BYTE"]
LARGE = ["uint32", "int32", "uint64", "int64", "uint64", "double", "float", "uint128", "uint48", "DWORD", "QWORD", "wchar", "uint16"]
ENUM_BASES = ["uint8", "uint16", "uint32", "uint64", "int32"]
BITS = {"uint8": 8, "uint16": 16, "uint32": 32, "uint64": 64, "int16": 16}


def gen_pad(rnd, p):
    """-> (text, [structure names]); every global name starts with the prefix `p`"""
    parts, small, large = [], list(SMALL), list(LARGE)
    if rnd.random() < 0.4:
        parts.append(f"#define {p}K {rnd.randint(1, 4)}")
    have_k = bool(parts)
    if rnd.random() < 0.4:
        parts.append(f"typedef {rnd.choice(['uint32', 'uint64', 'uint16'])} {p}word;")
        large.append(f"{p}word")
    if rnd.random() < 0.4:
        kind = rnd.choice(["enum", "enum", "flag"])
        parts.append(f"{kind} {p}E : {rnd.choice(ENUM_BASES)} {{ {p}A = 1, {p}B, {p}C = 4 }};")
        large.append(f"{p}E")
    counter = [0]

    def nm():
        counter[0] += 1
        return f"m{counter[0]}"

    def dim():
        r = rnd.random()
        if r < 0.55:
            return ""
        if r < 0.9 or not have_k:
            return f"[{rnd.randint(1, 4)}]" + (f"[{rnd.randint(1, 2)}]" if rnd.random() < 0.15 else "")
        return f"[{p}K]"

    def members(depth, nested, top):
        out = []
        ints = []
        n = rnd.randint(2, 6)
        while len(out) < n:
            r = rnd.random()
            if r < 0.35:
                # the padding-sensitive pair: something small, then something with a larger alignment
                a = nm()
                t = rnd.choice(small)
                d = dim() if rnd.random() < 0.3 else ""
                out.append(f"{t} {a}{d};")
                if not d and t in ("uint8", "BYTE", "uint16"):
                    ints.append(a)
                out.append(f"{rnd.choice(large)} {'*' if rnd.random() < 0.08 else ''}{nm()}{dim()};")
            elif r < 0.5:
                out.append(f"{rnd.choice(small + large)} {nm()}{dim()};")
            elif r < 0.62 and nested:
                out.append(f"{rnd.choice(nested)} {nm()}{dim()};")
            elif r < 0.72 and depth > 0:
                kind = rnd.choice(["struct", "struct", "union"])
                body = " ".join(members(depth - 1, nested, False)) if kind == "struct" else \
                    " ".join(f"{rnd.choice(small + large)} {nm()}{dim()};" for _ in range(rnd.randint(2, 3)))
                out.append(f"{kind} {{ {body} }}" + (f" {nm()}{dim()};" if rnd.random() < 0.75 else ";"))
            elif r < 0.84:
                # (a run directly after a run on the same storage type would continue that unit: another type then)
                prev = out[-1].split()[0] if out and " : " in out[-1] else None
                t = rnd.choice([b for b in BITS if b != prev])
                left = BITS[t]
                for _ in range(rnd.randint(1, 3)):
                    if left <= 0:
                        break
                    w = rnd.randint(1, min(left, rnd.choice([3, 7, 12, 20])))
                    out.append(f"{t} {nm()} : {w};")
                    left -= w
            elif r < 0.93 and ints:
                ref = rnd.choice(ints)
                out.append(f"{rnd.choice(['uint8', 'uint16', 'uint32', 'char', 'uint64'] + nested)} {nm()}[{rnd.choice(['{r} & 3', '({r} & 1) + 1', '{r} % 3']).format(r=ref)}];")
            else:
                a = nm()
                out.append(f"uint8 {a};")
                ints.append(a)
        if top and rnd.random() < 0.15:
            out.append(f"{rnd.choice(['char', 'uint16', 'wchar', 'uint32'])} {nm()}[];")
            if rnd.random() < 0.5:
                out.append(f"{rnd.choice(large)} {nm()};")
        elif top and rnd.random() < 0.08:
            out.append(f"{rnd.choice(['uint8', 'uint16', 'uint32'])} {nm()}[EOF];")
        return out

    names = []
    nstruct = rnd.randint(1, 3)
    for i in range(nstruct):
        name = f"{p}S{i}"
        kind = "union" if (0 < i < nstruct - 1 and rnd.random() < 0.3) else "struct"
        if kind == "union":
            body = " ".join(f"{rnd.choice(small + large)} {nm()}{dim()};" for _ in range(rnd.randint(2, 4)))
        else:
            body = " ".join(members(1, list(names), i == nstruct - 1))
        parts.append(f"{kind} {name} {{ {body} }};")
        names.append(name)
    return "\n".join(parts), names


_GLOBALS = re.compile(r"\b(E8|F16|E32|E24|K2|K0)\b")


def gen_tree(rnd, p):
    g = defs.Gen(rnd, max_depth=2, max_fields=5)
    text = defs.PREAMBLE + "#define K2 2\n#define K0 0\n" + defs.render_struct("T", g.struct())
    text = _GLOBALS.sub(lambda m: p + m.group(1), text).replace("struct T {", f"struct {p}T {{", 1).replace("union T {", f"union {p}T {{", 1)
    return text, [f"{p}T"]


def gen_legacy(rnd, p):
    ms = []
    for i in range(rnd.randint(2, 5)):
        t = rnd.choice(["uint8", "uint16", "uint32", "uint64", "int16", "char", "int32"])
        ms.append(f"    {t} m{i}{rnd.choice(['', '', '[2]', '[3]'])};")
    return f"struct {p}L {{\n" + "\n".join(ms) + "\n};\n", [f"{p}L"]


# --------------------------------------------------------------------------------------------------------------------
# sessions
# --------------------------------------------------------------------------------------------------------------------

def kwargs_py(kw):
    return "".join(f", {k}={'cstruct.DEF_LEGACY' if k == 'deftype' else v!r}" for k, v in kw)


def do_load(dc, cs, text, kw):
    d = dict(kw)
    if "deftype" in d:
        d["deftype"] = dc.cstruct.DEF_LEGACY
    try:
        cs.load(text, **d)
        return ("ok",)
    except Exception as e:  # noqa: BLE001
        return ("error", type(e).__name__, str(e)[:120])


def script(endian, pointer, loads, target, names, probes):
    """standalone script: the loads `loads` (only the outcome of the load number `target` is printed), then the observation"""
    lines = ["from dissect.cstruct import cstruct", OBS_SRC, f"cs = cstruct(endian={endian!r}, pointer={pointer!r})"]
    for i, (text, kw) in loads:
        call = f"cs.load({text!r}{kwargs_py(kw)})"
        if i == target:
            lines.append(f"try:\n    {call}\n    print('load: accepted')\nexcept Exception as e:\n    print('load: error', type(e).__name__)")
        else:
            lines.append(f"try:\n    {call}\nexcept Exception:\n    pass")
    lines.append(f"for label, text in observe(cs, {names!r}, {probes!r}):\n    print(label, '->', text)")
    return "\n".join(lines)


def option_session(env, res, viol, rnd, dc):
    endian = rnd.choice("<>")
    pointer = rnd.choice(["uint64", "uint64", "uint32", "uint16"])
    cs = dc.cstruct(endian=endian, pointer=pointer)
    nloads = rnd.choice([2, 2, 3, 3, 4])
    align, compiled = rnd.random() < 0.5, rnd.random() < 0.5
    probes = [bytes(rnd.randrange(256) for _ in range(160)), bytes(rnd.choice([0, 1, 2, 3, 0x41, 0xFF]) for _ in range(160)),
              bytes(rnd.randrange(256) for _ in range(rnd.randint(0, 12)))]
    loads = []       # (text, names, kw, (align, compiled, legacy), load outcome on a new object, observation on a new object)
    for i in range(nloads):
        if i:
            if rnd.random() < 0.9:
                fa, fc = rnd.random() < 0.7, rnd.random() < 0.4
                if not (fa or fc):
                    fa = True
                align, compiled = align ^ fa, compiled ^ fc
            else:
                res.feat("v4:opt:control-same-options")
        p = f"{'abcd'[i]}{rnd.randint(0, 9)}_"
        r = rnd.random()
        legacy = r < 0.08
        if legacy:
            kind, (text, names) = "legacy", gen_legacy(rnd, p)
            kw = [("deftype", 2)] + ([("compiled", compiled)] if (not compiled or rnd.random() < 0.5) else [])
        else:
            kind, (text, names) = ("pad", gen_pad(rnd, p)) if r < 0.8 else ("gen", gen_tree(rnd, p))
            kw = []
            if compiled is False or rnd.random() < 0.5:
                kw.append(("compiled", compiled))
            if align is True or rnd.random() < 0.5:
                kw.append(("align", align))
            rnd.shuffle(kw)
        kw = tuple(kw)
        # the oracle: a new object that performs only this load
        ocs = dc.cstruct(endian=endian, pointer=pointer)
        want_load = do_load(dc, ocs, text, kw)
        want_obs = observe(ocs, names, probes) if want_load[0] == "ok" else []
        got_load = do_load(dc, cs, text, kw)
        loads.append((text, names, kw, (align and not legacy, compiled, legacy), want_load, want_obs))
        res.feat(f"v4:opt:load:{kind}:align={align and not legacy}:compiled={compiled}")
        res.feat(f"v4:opt:load-number-{i}")
        if want_load[0] != "ok":
            res.feat(f"v4:opt:{kind}:definition-rejected-by-a-new-object")
            if kind != "gen":
                # these generators only produce definitions the library accepts: the call must succeed
                viol(f"cs.load() of a plain definition raises {want_load[1]} on a new cstruct object: {want_load[2]}",
                     {"family": "v4:options", "definition": text, "options": dict(kw), "fresh_script": script(endian, pointer, [(i, (text, kw))], i, names, probes),
                      "history_script": "print('not applicable')"})
                return
        history = [(j, (l[0], l[2])) for j, l in enumerate(loads)]
        earlier = "; ".join(f"load {j}: {'legacy parser, ' if l[3][2] else ''}align={l[3][0]}, compiled={l[3][1]}" for j, l in enumerate(loads[:-1])) or "none"
        # observe the new definition and re-observe every earlier one
        for j in range(i, -1, -1):
            text_j, names_j, kw_j, o_j, want_load_j, want_obs_j = loads[j]
            first_sight = j == i
            got = [("outcome of the load", repr(got_load[:2]))] if first_sight else []
            want = [("outcome of the load", repr(want_load_j[:2]))] if first_sight else []
            if want_load_j[0] == "ok" and (got_load[0] == "ok" or not first_sight):
                got += observe(cs, names_j, probes)
                want += want_obs_j
            res.count(("v4:opt", endian, pointer, tuple((l[0], l[2]) for l in loads), j), i >= 1)
            res.feat("v4:opt:observation:" + ("first-sight" if first_sight else "earlier-definition-after-a-later-load"))
            if first_sight and i >= 1:
                prev = loads[i - 1][3]
                res.feat("v4:opt:previous-load:" + ("/".join(k for k, d in (("align-differs", prev[0] != o_j[0]), ("compiled-differs", prev[1] != o_j[1])) if d) or "same-options"))
                if any(l[3][0] != o_j[0] for l in loads[:i]):
                    res.feat(f"v4:opt:{'aligned' if o_j[0] else 'unaligned'}-after-{'unaligned' if o_j[0] else 'aligned'}")
            if got == want:
                continue
            diff = next(((a, b) for a, b in zip(got, want) if a != b), (got[-1] if len(got) > len(want) else ("(missing)", ""), ("(missing)", "")))
            label = diff[0][0] if diff[0][0] != "(missing)" else diff[1][0]
            when = f"after {i} earlier load(s) on the same cstruct object ({earlier})" if first_sight else \
                f"after {i - j} later load(s) on the same cstruct object (all loads: {earlier}; load {i}: align={loads[i][3][0]}, compiled={loads[i][3][1]})"
            viol(f"load() options are not independent between loads: definition loaded with ({kwargs_py(kw_j)[2:] or 'default options'}) {when}: "
                 f"{label} = {str(diff[0][1])[:300]}; a new cstruct object that performs only this load gives {str(diff[1][1])[:300]}",
                 {"family": "v4:options", "endian": endian, "pointer": pointer, "definition": text_j, "options": dict(kw_j), "structures": names_j,
                  "loads_on_the_object": [{"definition": l[0], "options": dict(l[2])} for l in loads],
                  "first_difference": {"what": label, "after_history": str(diff[0][1])[:2000], "new_object": str(diff[1][1])[:2000]},
                  "history_script": script(endian, pointer, history, j, names_j, probes),
                  "fresh_script": script(endian, pointer, [(j, (text_j, kw_j))], j, names_j, probes)})
            return
        if got_load[0] != "ok":
            return
    res.feat("v4:opt:session-completed")
    # (evidence only) how often the align option matters for the generated definitions: the same text, other align value, new object
    text, names, kw, o, wl, wo = loads[-1]
    if not o[2] and wl[0] == "ok":
        ocs = dc.cstruct(endian=endian, pointer=pointer)
        kw2 = tuple((k, v) for k, v in kw if k != "align") + (("align", not o[0]),)
        if do_load(dc, ocs, text, kw2)[0] == "ok":
            other = [(a, b) for a, b in observe(ocs, names, probes) if not a.startswith("layout")]      # len, parses, stream positions, dumps
            mine = [(a, b) for a, b in wo if not a.startswith("layout")]
            res.feat("v4:opt:align-option-" + ("changes-layout-or-results" if other != mine else "makes-no-difference"))


def run(env, res, viol, rnd, n):
    dc = impl.dc()
    for _ in range(n):
        try:
            option_session(env, res, viol, rnd, dc)
        except Exception as e:  # noqa: BLE001 - the library must not trip the harness: constructing an object / observing never raises here
            viol(f"an option-independence session raised {type(e).__name__}: {str(e)[:200]} outside load() (constructing a cstruct object)",
                 {"family": "v4:options", "history_script": "print('not applicable')", "fresh_script": "print('not applicable')"})


def replay(case) -> int:
    """re-run the two recorded scripts on the current tree: 1 = the observation still depends on the earlier loads"""
    import contextlib
    import io
    impl.dc()
    outs = []
    for key in ("history_script", "fresh_script"):
        buf = io.StringIO()
        with contextlib.redirect_stdout(buf):
            try:
                exec(compile(case[key], key, "exec"), {})  # noqa: S102 - scripts written by this module
            except Exception as e:  # noqa: BLE001
                print("error", type(e).__name__)
        outs.append(buf.getvalue())
    a, b = outs[0].split("\n"), outs[1].split("\n")
    d = next((i for i, (x, y) in enumerate(zip(a, b)) if x != y), None)
    if outs[0] != outs[1]:
        if d is not None:
            print("after the earlier loads :", a[d][:600])
            print("on a new object         :", b[d][:600])
        print("still fails: what load() creates depends on the earlier loads of the object")
        return 1
    print("the case passes on this tree")
    return 0
