"""Generator and oracle of one probe family of C07 (array length semantics): *a dump is an observation - dumps that fail (or
succeed) must not change the array value*.

The property: "x[n] holds exactly n elements; x[expr] holds max(0, expr) elements; x[] stops at and consumes the first zero
element and DUMPING RE-APPENDS IT; x[EOF] takes every remaining whole element."  The terminator of x[] belongs to the byte
representation, not to the value: an x[] value of k elements has k elements before a dump, after a dump, and after a dump that
raised part-way; a second dump of the same value (after the user repaired the element that did not fit) writes the k elements
and ONE terminator, none in-band, and those bytes parse back to the k elements with every following field in its place.  The
same holds for the other three length forms (the number of elements of the value is what the user put there) and wherever the
array sits.  So this family runs MULTI-STEP SEQUENCES WITH A FAULT IN THE MIDDLE on one and the same array value:

    build a value  ->  [make one element unwritable]  ->  dump (raises) x 1..3, through varying call forms  ->  look at the value
    ->  repair the element in place  ->  dump again (1-2 call forms)  ->  compare the bytes  ->  parse them back

What varies (all driven by the seeded PRNG):
  * element kind (37): packed integers 8..64 bit, odd-sized integers (24/48/128 bit), aliases (WORD/DWORD/QWORD), float/double,
    enums and flags over 8/16/24/32 bit (members or plain integers as elements), uleb128/ileb128, char, wchar, structures
    (all-integer, wide, with a nested structure, with a LEB128 member, with an enum member, with a fixed row member);
  * the length form of every dimension: fixed (0..4), expression over the count field n and constants (n, n - 1, n & 7, n >> 1),
    null-terminated, EOF; one dimension or two (a[2][], a[n][], a[2][3], a[n][2], a[EOF][2]: rows null-terminated or fixed);
  * the container / entry point: the bare array type (spelled by the API `cs.uint16[None]`, `cs.uint16[None][2]`, by a typedef
    `typedef uint16 arr_t[];`, or taken from the structure `cs.T.fields['a'].type`), the structure `T { n; a[..]; tail; }`, T as
    a member of `O { h; T t; z; }`, T as the element of `O { T ts[2]; z; }`;
  * byte order, packed/aligned, interpreted/compiled;
  * the value class of the array the user holds: a plain list, a tuple (never modified by anybody: control), the library's Array
    (`AT([...])`), the library's own parsed value (`T(data).a`); the fault present at construction or put in place later;
  * the fault: an element out of the range of its type (one above / below, far off, negative for unsigned, negative for uleb128,
    1e300 for float), an element of the wrong type ("x", None, 2.5, b"ab", [1], object()), a bad member of a structure element
    (also of its nested structure / its row), a row of the wrong length in a 2-dimensional array (ArraySizeError), a STREAM
    WHOSE k-th write() RAISES OSError (disk full) under a well-formed value, or no fault at all (control: a successful dump does
    not change the value either); at any index (first, middle, last; any row);
  * the call form of every dump: TYPE.dumps(v), v.dumps(), TYPE.write(stream, v), v.write(stream) with io.BytesIO, a real file
    or the failing stream; on the array itself, on T, on O (every value that encloses the array).

Oracle (the property, on observable behaviour):
  1. after every dump call - raised or not - the user's array value is THE SAME OBJECT with the same length and the same
     elements (compared against a structural snapshot taken before the call: container class, length, element classes and
     values, recursively through rows and structure members), likewise the whole enclosing value (n, tail, siblings);
  2. after repairing the element in place, every dump call succeeds and returns exactly the bytes of the value: computed
     independently in the harness for packed layouts (element encodings by element size and byte order, C order, one zero element
     after every null-terminated array and nowhere else) and, for all layouts, equal to the dump of a freshly constructed equal
     value that never went through a failing call;
  3. those bytes parse back (followed by one more byte, to see the consumed length) to the repaired value: same number of
     elements, same elements, same tail field, consumed exactly the dump;
  4. the final top-level dump of T is also put to the Lean model (write), as correspondence.
A fault that the library accepts without raising (a wrong-type member the writer replaces by a default) is no concern of this
property: the call is then only held to (1).  Which exception class a failing dump raises is not prescribed here either.

Excluded, with the reason:
  * null-terminated arrays of floats (F75), of rows / of structures with array or char members (F58: they cannot be read back),
    void elements (F64/F84), pointers and unions (other properties);
  * parsing back an aligned structure that ends in x[EOF] (F30: the tail padding is read as elements) - the dump itself and
    the unchanged value are still checked;
  * parsing back the BARE array type of an expression length (there is no structure whose fields the expression could read);
  * char / wchar elements take only the stream fault and the control (bytes / str values have no element that does not fit).
"""
from __future__ import annotations

import io
import random
import struct as _struct
import tempfile

from . import impl, t2_arrays

S = lambda n: ("sc", n)  # noqa: E731


def F(name, ty):
    return {"name": name, "ty": ty, "bits": None}


INTS = {"uint8": (1, 0), "int8": (1, 1), "uint16": (2, 0), "int16": (2, 1), "uint32": (4, 0), "int32": (4, 1), "uint64": (8, 0), "int64": (8, 1),
        "uint24": (3, 0), "int24": (3, 1), "uint48": (6, 0), "int48": (6, 1), "uint128": (16, 0), "int128": (16, 1),
        "WORD": (2, 0), "DWORD": (4, 0), "QWORD": (8, 0)}
ENUM_BASE = {"E8": "uint8", "F16": "uint16", "E32": "int32", "E24": "uint24"}
ENUM_VALS = {"E8": [1, 2, 7, 3, 200], "F16": [1, 2, 0x100, 3, 0x103, 0x8000], "E32": [-1, 5, 7, -70000], "E24": [1, 0x10000, 0x10001, 77]}
FLOATS = {"float": "f", "double": "d"}
STRUCTS = {
    "struct": ("struct", [F("x", S("uint8")), F("y", S("uint16"))]),
    "wide": ("struct", [F("p", S("int32")), F("q", S("uint64")), F("r", S("uint24"))]),
    "nested": ("struct", [F("k", S("uint8")), F("p", ("struct", [F("x", S("uint8")), F("y", S("int16"))]))]),
    "lebstruct": ("struct", [F("k", S("uint8")), F("v", S("uleb128"))]),
    "enumstruct": ("struct", [F("e", ("enum", "E8")), F("y", S("uint16"))]),
    "rowstruct": ("struct", [F("k", S("uint8")), F("r", ("arr", S("uint16"), ("fixed", 2)))]),
}
KINDS = (list(INTS) + ["uint8", "uint16", "uint16", "uint32", "int16", "uint24", "int128"] + list(FLOATS) + list(ENUM_BASE) * 2
         + ["uleb128", "ileb128"] * 3 + ["char", "wchar"] + list(STRUCTS) * 2)
# within the quantifier of null-terminated arrays (integer, char, wchar, enum, LEB128, all-integer structures) and readable back
NULL_OK = set(INTS) | set(ENUM_BASE) | {"uleb128", "ileb128", "char", "wchar", "struct", "wide", "nested", "lebstruct", "enumstruct"}
API_OK = (set(INTS) | set(FLOATS) | set(ENUM_BASE) | {"uleb128", "ileb128", "char", "wchar"})
EXPRS = [("n", lambda l, r: l), ("n - 1", lambda l, r: l + 1), ("n & 7", lambda l, r: l + 8 * r.randrange(3)), ("n >> 1", lambda l, r: 2 * l + r.randrange(2)),
         ("n", lambda l, r: l), ("K2 * n - n", lambda l, r: l)]


class Raw:
    """a value given by its source text (elements that do not fit: "x", None, object(), 70000 ...)"""

    def __init__(self, text):
        self.text = text

    def __repr__(self):
        return self.text


class FailingStream:
    """a binary stream whose k-th write() raises OSError (a full disk); everything else is io.BytesIO"""

    def __init__(self, k):
        self._b, self._k, self.calls = io.BytesIO(), k, 0

    def write(self, data):
        self.calls += 1
        if self.calls >= self._k:
            raise OSError(28, "No space left on device")
        return self._b.write(data)

    def tell(self):
        return self._b.tell()

    def seek(self, *a):
        return self._b.seek(*a)

    def read(self, *a):
        return self._b.read(*a)

    def getvalue(self):
        return self._b.getvalue()


FAILING_SRC = ("import io\nclass FailingStream:\n    def __init__(self, k): self._b, self._k, self.calls = io.BytesIO(), k, 0\n"
               "    def write(self, data):\n        self.calls += 1\n        if self.calls >= self._k: raise OSError(28, 'No space left on device')\n"
               "        return self._b.write(data)\n    def tell(self): return self._b.tell()\n    def seek(self, *a): return self._b.seek(*a)\n"
               "    def read(self, *a): return self._b.read(*a)\n")


# ------------------------------------------------------------------------------------------------ trees

def elem_tree(en):
    if en in ENUM_BASE:
        return ("enum", en)
    if en in STRUCTS:
        return STRUCTS[en]
    return S(en)


def is_text(t):
    return t[0] == "arr" and t[1] in (S("char"), S("wchar"))


def draw_plan(rnd: random.Random):
    en = rnd.choice(KINDS)
    elem = elem_tree(en)
    shapes = [["fixed"], ["expr"], ["null"], ["null"], ["null"], ["eof"], ["fixed", "null"], ["expr", "null"], ["fixed", "fixed"], ["expr", "fixed"], ["eof", "fixed"]]
    while True:
        forms = rnd.choice(shapes)
        if "null" not in forms or en in NULL_OK:
            break
    container = rnd.choice(["T", "T", "T", "bare", "bare", "member", "array"])
    if forms[0] == "eof" and container in ("member", "array"):
        container = "T"
    dims = []
    expr = None
    for f in forms:
        if f == "fixed":
            # (rows of zero elements below a[EOF] have no bytes: "every remaining whole element" counts nothing there)
            dims.append(("fixed", rnd.choice([1, 2, 2, 3, 3, 4] if forms[0] == "eof" else [0, 1, 2, 2, 3, 3, 4])))
        elif f == "expr":
            expr = rnd.choice(EXPRS)
            dims.append(("expr", expr[0]))
        else:
            dims.append((f,))
    arr = elem
    for d in reversed(dims):
        arr = ("arr", arr, d)
    fields = [F("n", S("uint8")), F("a", arr)] + ([] if forms[0] == "eof" else [F("tail", S("uint8"))])
    tree = ("struct", fields)
    spelling = "field"
    if container == "bare" and all(f in ("fixed", "null") for f in forms):
        spelling = rnd.choice(["field", "typedef", "api" if en in API_OK else "typedef"])
    return {"en": en, "elem": elem, "forms": forms, "dims": dims, "arr": arr, "tree": tree, "container": container, "spelling": spelling,
            "expr": expr, "endian": rnd.choice("<>"), "align": rnd.random() < 0.3, "compiled": rnd.random() < 0.5,
            "enum_member": rnd.random() < 0.5}


def top_tree(plan):
    c = plan["container"]
    if c == "member":
        return ("struct", [F("h", S("uint8")), F("t", plan["tree"]), F("z", S("uint16"))])
    if c == "array":
        return ("struct", [F("ts", ("arr", plan["tree"], ("fixed", 2))), F("z", S("uint8"))])
    if c == "bare":
        return plan["arr"]
    return plan["tree"]


# ------------------------------------------------------------------------------------------------ values (specs: int / float / bytes / str / list / dict)

def gen_scalar(rnd, t, nonzero):
    if t[0] == "enum":
        vals = [v for v in ENUM_VALS[t[1]]]
        return rnd.choice(vals)
    n = t[1]
    if n in INTS:
        size, signed = INTS[n]
        lo, hi = (-(1 << (8 * size - 1)), (1 << (8 * size - 1)) - 1) if signed else (0, (1 << (8 * size)) - 1)
        while True:
            v = rnd.choice([lo, hi, hi - 1, lo + 1, 1, 2, 3, 0x41, rnd.randint(lo, hi), rnd.randint(lo, hi), 1 << (8 * (size - 1)), 0x0100 if size > 1 else 5, 0])
            if lo <= v <= hi and (v != 0 or not nonzero):
                return v
    if n == "uleb128":
        return rnd.choice([1, 2, 0x7F, 0x80, 300, 1 << 14, (1 << 35) + 5, (1 << 70) + 1, rnd.randint(1, 1 << 40)])
    if n == "ileb128":
        return rnd.choice([1, -1, 63, 64, -64, -65, 300, -300, (1 << 40) + 3, -(1 << 70), rnd.randint(-(1 << 30), -1), rnd.randint(1, 1 << 30)])
    if n in FLOATS:
        return rnd.choice([1.5, -2.0, 0.25, 1024.0, -0.5, 3.0, 65536.0])
    raise ValueError(n)


def gen(rnd, t, nonzero=False):
    k = t[0]
    if k in ("sc", "enum"):
        return gen_scalar(rnd, t, nonzero)
    if k == "struct":
        out = {}
        for i, f in enumerate(t[1]):
            out[f["name"]] = gen(rnd, f["ty"], nonzero and i == 0)
        return out
    # arrays
    el, form = t[1], t[2]
    if form[0] == "fixed":
        n = form[1]
    else:
        n = rnd.choice([0, 1, 2, 3, 3, 4, 5, 7])
    if el == S("char"):
        return bytes(rnd.choice(b"abcXYZ\x01\x7f\xff\x80") for _ in range(n))
    if el == S("wchar"):
        return "".join(rnd.choice("abXYé世Ā￮") for _ in range(n))
    return [gen(rnd, el, form[0] == "null") for _ in range(n)]


def zero(t):
    k = t[0]
    if k == "enum" or (k == "sc" and t[1] not in FLOATS):
        return 0
    if k == "sc":
        return 0.0
    if k == "struct":
        return {f["name"]: zero(f["ty"]) for f in t[1]}
    n = t[2][1] if t[2][0] == "fixed" else 0
    if t[1] == S("char"):
        return bytes(n)
    if t[1] == S("wchar"):
        return "\0" * n
    return [zero(t[1]) for _ in range(n)]


def leb_u(v):
    out = bytearray()
    while True:
        b = v & 0x7F
        v >>= 7
        if v:
            out.append(b | 0x80)
        else:
            out.append(b)
            return bytes(out)


def leb_i(v):
    out = bytearray()
    while True:
        b = v & 0x7F
        v >>= 7
        if (v == 0 and not b & 0x40) or (v == -1 and b & 0x40):
            out.append(b)
            return bytes(out)
        out.append(b | 0x80)


def enc(t, v, endian):
    """the bytes of a value in a packed layout: element by element, C order, one zero element behind a null-terminated array"""
    k = t[0]
    bo = "little" if endian == "<" else "big"
    if k == "enum":
        return enc(S(ENUM_BASE[t[1]]), v, endian)
    if k == "sc":
        n = t[1]
        if n in INTS:
            return int(v).to_bytes(INTS[n][0], bo, signed=bool(INTS[n][1]))
        if n == "uleb128":
            return leb_u(v)
        if n == "ileb128":
            return leb_i(v)
        return _struct.pack(endian + FLOATS[n], v)
    if k == "struct":
        return b"".join(enc(f["ty"], v[f["name"]], endian) for f in t[1])
    el, form = t[1], t[2]
    if el == S("char"):
        return bytes(v) + (b"\0" if form[0] == "null" else b"")
    if el == S("wchar"):
        return (v + ("\0" if form[0] == "null" else "")).encode("utf-16-le" if endian == "<" else "utf-16-be")
    return b"".join(enc(el, e, endian) for e in v) + (enc(el, zero(el), endian) if form[0] == "null" else b"")


def unspec(t, o):
    """a library value -> spec (ints, floats, bytes, str, lists, dicts) along the tree; anything unexpected -> a marker that equals nothing"""
    try:
        k = t[0]
        if k == "enum":
            return int(o.value) if hasattr(o, "value") else int(o)
        if k == "sc":
            return float(o) if t[1] in FLOATS else int(o)
        if k == "struct":
            return {f["name"]: unspec(f["ty"], getattr(o, f["name"])) for f in t[1]}
        if t[1] == S("char"):
            return bytes(o)
        if t[1] == S("wchar"):
            return str(o)
        if not isinstance(o, (list, tuple)):
            return ("not-a-list", repr(o)[:80])
        return [unspec(t[1], e) for e in o]
    except Exception as e:  # noqa: BLE001
        return ("unreadable", type(e).__name__, repr(o)[:80])


def src(t, v, tx, plan, member=False):
    """source text that constructs the value v of the tree t; tx = source text of its library type.  Enum ELEMENTS are members or
    plain integers (the array writer takes both); an enum MEMBER OF A STRUCTURE is always given as a member (the structure writer
    wants one - no matter of this property)"""
    if isinstance(v, Raw):
        return v.text
    k = t[0]
    if k == "enum":
        return f"{tx}({v!r})" if (plan["enum_member"] or member) else repr(v)
    if k == "sc":
        return repr(v)
    if k == "struct":
        return tx + "(" + ", ".join(f"{f['name']}={src(f['ty'], v[f['name']], tx + '.fields[' + repr(f['name']) + '].type', plan, True)}" for f in t[1]) + ")"
    if is_text(t):
        return repr(v)
    return "[" + ", ".join(src(t[1], e, tx + ".type", plan) for e in v) + "]"


def snap(v, m, depth=0):
    """structural snapshot of a user value: container class, length, elements (recursively through rows and structure members)"""
    if depth > 8:
        return ("deep",)
    if isinstance(v, (list, tuple)):
        return (type(v).__name__, len(v), [snap(e, m, depth + 1) for e in v])
    if isinstance(v, m.Structure):
        return ("rec", type(v).__name__, [(f._name, snap(getattr(v, f._name, None), m, depth + 1)) for f in type(v).__fields__])
    return (type(v).__name__, repr(v)[:120])


def show(v):
    try:
        return repr(v)[:260]
    except Exception as e:  # noqa: BLE001
        return f"<unprintable: {type(e).__name__}>"


# ------------------------------------------------------------------------------------------------ faults

def leaf_sites(t, v, path=()):
    """(path, tree) of every scalar / enum leaf and every fixed row below an array value (paths of list indices and field names)"""
    out = []
    k = t[0]
    if k in ("sc", "enum"):
        return [(path, t)]
    if k == "struct":
        for f in t[1]:
            out += leaf_sites(f["ty"], v[f["name"]], path + (f["name"],))
        return out
    if is_text(t):
        return []
    if t[2][0] == "fixed" and path:
        out.append((path, t))  # a row that can get the wrong number of elements
    for i, e in enumerate(v):
        out += leaf_sites(t[1], e, path + (i,))
    return out


def bad_value(rnd, t, v):
    """-> (Raw, label) an unwritable replacement of the leaf / row v of tree t"""
    wrong = rnd.choice(['"x"', "None", "2.5", "b'ab'", "[1]", "object()"])
    if t[0] == "arr":  # a fixed row of the wrong length
        if is_text(t) or rnd.random() < 0.2:
            return None
        new = list(v) + [v[0] if v else zero(t[1])] if (rnd.random() < 0.5 or not v) else list(v)[:-1]
        return new, "row-length"
    base = S(ENUM_BASE[t[1]]) if t[0] == "enum" else t
    n = base[1]
    if n in INTS:
        size, signed = INTS[n]
        lo, hi = (-(1 << (8 * size - 1)), (1 << (8 * size - 1)) - 1) if signed else (0, (1 << (8 * size)) - 1)
        if rnd.random() < 0.75:
            return Raw(repr(rnd.choice([hi + 1, lo - 1, hi + 1, lo - 1, hi + 45, (hi + 1) * 256 + 3, -(hi + 1) * 3, lo - 200]))), "range"
        if t[0] == "enum" and wrong in ("2.5",):
            wrong = '"x"'
        return Raw(wrong), "type"
    if n == "uleb128" and rnd.random() < 0.7:
        return Raw(repr(-rnd.choice([1, 2, 127, 128, 1 << 20]))), "range"
    if n == "float" and rnd.random() < 0.5:
        return Raw("1e300"), "range"
    if n in FLOATS:
        wrong = rnd.choice(['"x"', "None", "b'ab'", "[1]", "object()"])
    return Raw(wrong), "type"


def get_path(root, path):
    for p in path:
        root = getattr(root, p) if isinstance(p, str) else root[p]
    return root


def path_src(base, path):
    return base + "".join(f".{p}" if isinstance(p, str) else f"[{p}]" for p in path)


def set_spec(spec, path, new):
    """a copy of the nested spec with the node at path replaced"""
    if not path:
        return new
    p = path[0]
    if isinstance(spec, dict):
        out = dict(spec)
        out[p] = set_spec(spec[p], path[1:], new)
        return out
    out = list(spec)
    out[p] = set_spec(spec[p], path[1:], new)
    return out


# ------------------------------------------------------------------------------------------------ calls

FORMS = ["TYPE.dumps(v)", "v.dumps()", "TYPE.write(s, v)", "v.write(s)"]


def do_call(ns, lines, form, tx, vx, stream, k=0):
    """-> ('ok', bytes) | ('err', class, message); appends the equivalent source lines"""
    v = ns[vx]
    T = ns[tx]
    if form == "v.dumps()" and not hasattr(v, "dumps"):
        form = "TYPE.dumps(v)"
    if form == "v.write(s)" and not hasattr(v, "write"):
        form = "TYPE.write(s, v)"
    f = None
    try:
        with t2_arrays.time_limit(5.0):
            if form == "TYPE.dumps(v)":
                lines.append(f"{tx}.dumps({vx})")
                return ("ok", T.dumps(v))
            if form == "v.dumps()":
                lines.append(f"{vx}.dumps()")
                return ("ok", v.dumps())
            if stream == "failing":
                lines.append(f"s = FailingStream({k})  # its write() no. {k} raises OSError")
                s = FailingStream(k)
            elif stream == "file":
                lines.append("s = tempfile.TemporaryFile()")
                s = f = tempfile.TemporaryFile()
            else:
                lines.append("s = io.BytesIO()")
                s = io.BytesIO()
            if form == "TYPE.write(s, v)":
                lines.append(f"{tx}.write(s, {vx})")
                T.write(s, v)
            else:
                lines.append(f"{vx}.write(s)")
                v.write(s)
            if stream == "file":
                s.seek(0)
                return ("ok", s.read())
            return ("ok", s.getvalue())
    except Exception as e:  # noqa: BLE001
        return ("err", type(e).__name__, str(e)[:120])
    finally:
        if f is not None:
            try:
                f.close()
            except Exception:  # noqa: BLE001
                pass


def ex(ns, lines, line):
    """run one source line of the scenario; -> None | error text"""
    lines.append(line)
    try:
        with t2_arrays.time_limit(5.0):
            exec(line, ns)  # noqa: S102 - generated from the plan
        return None
    except Exception as e:  # noqa: BLE001
        return f"{type(e).__name__}: {str(e)[:160]}"


# ------------------------------------------------------------------------------------------------ the family

def run(env, eng, res, rnd):
    tier = env["tier"]
    for _ in range(700 if tier == "quick" else 15000):
        plan = draw_plan(rnd)
        try:
            L = impl.Loaded(plan["tree"], endian=plan["endian"], align=plan["align"], compiled=plan["compiled"])
        except Exception as e:  # noqa: BLE001
            res.feat("purity-rejected:" + plan["en"] + ":" + "/".join(plan["forms"]))
            eng.report(f"array definition rejected: {type(e).__name__}: {e}"[:300], {"tree": repr(plan["tree"]), "endian": plan["endian"],
                                                                                       "align": plan["align"], "compiled": plan["compiled"]}, [])
            continue
        for _i in range(2 if tier == "quick" else 3):
            try:
                one(env, eng, res, rnd, L, plan)
            except t2_arrays.Hang as e:
                eng.report(f"a dump / parse of the scenario does not return: {e}", eng.case_data(L, plan=repr({k: plan[k] for k in ('en', 'forms', 'container')})), [])
        if len(eng.lines) > 4000:
            eng.flush()
    eng.flush()


def one(env, eng, res, rnd, L, plan):
    m = impl.dc()
    cs = L.cs
    en, forms, container, tree, arr = plan["en"], plan["forms"], plan["container"], plan["tree"], plan["arr"]
    endian, align, compiled = plan["endian"], plan["align"], plan["compiled"]
    lines = [f"from dissect.cstruct import cstruct; import io, tempfile; cs = cstruct(endian={endian!r}, pointer='uint64')",
             f"cs.load({L.text!r}, compiled={compiled}, align={align})"]
    ns = {"cs": cs, "io": io, "tempfile": tempfile, "FailingStream": FailingStream}
    label = "/".join(forms)

    def cd(**kw):
        d = {"definition": L.text, "endian": endian, "align": align, "compiled": compiled, "element": en, "forms": label, "container": container,
             "spelling": plan["spelling"]}
        d.update(kw)
        pre = FAILING_SRC if any("FailingStream" in l for l in lines) else ""
        d["repro"] = pre + "\n".join(lines)
        return d

    sigs = []

    def setup(line):
        err = ex(ns, lines, line)
        if err:
            eng.report(f"setting up the array scenario fails at `{line[:120]}`: {err}", cd(), sigs)
        return err

    # ---- types
    if setup("T = cs.T"):
        return
    if plan["spelling"] == "api":
        tx = "cs." + en
        for d in reversed(plan["dims"]):
            tx += "[None]" if d[0] == "null" else f"[{d[1]}]"
        if setup(f"AT = {tx}"):
            return
    elif plan["spelling"] == "typedef":
        dims = "".join("[]" if d[0] == "null" else f"[{d[1]}]" for d in plan["dims"])
        if "arr_t" not in cs.typedefs:
            cname = en
            if en in STRUCTS:
                if setup("ET = T.fields['a'].type" + ".type" * len(forms)):
                    return
                if setup("cs.add_type('elem_t', ET)"):
                    return
                cname = "elem_t"
            if setup(f"cs.load('typedef {cname} arr_t{dims};', compiled={compiled}, align={align})"):
                return
        if setup("AT = cs.arr_t"):
            return
    else:
        if setup("AT = T.fields['a'].type"):
            return
    if container == "member" and "O" not in cs.typedefs:
        if setup(f"cs.load('struct O {{ uint8 h; T t; uint16 z; }};', compiled={compiled}, align={align})"):
            return
    if container == "array" and "O" not in cs.typedefs:
        if setup(f"cs.load('struct O {{ T ts[2]; uint8 z; }};', compiled={compiled}, align={align})"):
            return
    if container in ("member", "array") and setup("O = cs.O"):
        return

    # ---- the well-formed value (spec) and its bytes
    a_good = gen(rnd, arr)
    ttree = top_tree(plan)

    def t_spec(a):
        l = len(a)
        n = plan["expr"][1](l, rnd) & 0xFF if plan["expr"] else rnd.choice([0, 1, 5, 0x80, 0xFF])
        d = {"n": n, "a": a}
        if forms[0] != "eof":
            d["tail"] = rnd.choice([9, 0, 0x5A, 0xFF])
        return d

    tg = t_spec(a_good) if container != "bare" else None
    if container == "member":
        top_good = {"h": rnd.randrange(256), "t": tg, "z": rnd.randrange(65536)}
    elif container == "array":
        top_good = {"ts": [t_spec(gen(rnd, arr)), tg], "z": rnd.randrange(256)}
    elif container == "bare":
        top_good = a_good
    else:
        top_good = tg
    TOPX = {"T": "T", "member": "O", "array": "O", "bare": "AT"}[container]
    # targets: (type expr, value expr, tree, spec-getter) of every value that encloses the user's array
    targets = [("AT", "val", arr, lambda top: a_of(top))]
    if container != "bare":
        targets.append(("T", "v", tree, lambda top: t_of(top)))
    if container in ("member", "array"):
        targets.append(("O", "o", ttree, lambda top: top))

    def t_of(top):
        return top["t"] if container == "member" else (top["ts"][1] if container == "array" else top)

    def a_of(top):
        return top if container == "bare" else t_of(top)["a"]

    def with_a(top, a):
        if container == "bare":
            return a
        if container == "member":
            return dict(top, t=dict(top["t"], a=a))
        if container == "array":
            return dict(top, ts=[top["ts"][0], dict(top["ts"][1], a=a)])
        return dict(top, a=a)

    # a fresh, never-failed value gives the reference bytes of every target; the packed layout is also computed independently
    if container == "member":
        fresh_src = f"O(h={top_good['h']}, t={src(tree, tg, 'T', plan)}, z={top_good['z']})"
    elif container == "array":
        fresh_src = f"O(ts=[{src(tree, top_good['ts'][0], 'T', plan)}, {src(tree, tg, 'T', plan)}], z={top_good['z']})"
    else:
        fresh_src = src(ttree, top_good, TOPX, plan) if container != "bare" else src(arr, a_good, "AT", plan)
    if setup(f"fresh = {fresh_src}"):
        return
    fresh = ns["fresh"]
    fresh_objs = {"AT": get_fresh_a(fresh, container), "T": get_fresh_t(fresh, container), "O": fresh}
    expected = {}
    for tx, _vx, tt, getter in targets:
        ns["_f"] = fresh_objs[tx]
        r = do_call(ns, [], "TYPE.dumps(v)", tx, "_f", "bytesio")
        if r[0] != "ok":
            eng.report(f"a well-formed array value cannot be dumped ({tx}.dumps): {r[1]}: {r[2]}", cd(value=fresh_src), sigs)
            return
        expected[tx] = r[1]
        if not align:
            want = enc(tt, getter(top_good), endian)
            if want != r[1]:
                eng.report(f"{tx}.dumps of a well-formed value gives {r[1].hex()}; element by element (one terminator behind a null-terminated array) "
                           f"the bytes are {want.hex()}", cd(value=fresh_src), sigs)
                return
    res.feat("purity-form:" + label)
    res.feat("purity-elem:" + en)
    res.feat("purity-container:" + container + ":" + plan["spelling"])
    res.feat(f"purity-config:{endian},{'aligned' if align else 'packed'},{'compiled' if compiled else 'interpreted'}")

    # ---- the fault
    textual = en in ("char", "wchar")
    sites = [] if textual else leaf_sites(arr, a_good)
    fk = rnd.choice(["element"] * 6 + ["stream", "stream", "none"])
    bad = None
    if fk == "element":
        if not sites:
            fk = rnd.choice(["stream", "none"])
        else:
            path, st = rnd.choice(sites)
            if rnd.random() < 0.25 and len(path) > 1 and isinstance(path[-1], str):
                # the whole structure element replaced by something that is no structure
                k = max(i for i, p in enumerate(path) if not isinstance(p, str))
                path, st = path[: k + 1], None
                bad = (Raw(rnd.choice(['"x"', "None", "2.5", "object()"])), "type-struct")
            else:
                bad = bad_value(rnd, st, get_spec(a_good, path))
            if bad is None:
                fk = "stream"
    vclass = rnd.choice(["list", "list", "array", "array", "parsed", "parsed", "tuple"])
    if textual and vclass in ("list", "tuple", "array"):
        vclass = rnd.choice(["plain", "parsed"])
    if vclass == "parsed" and ((container == "bare" and forms[0] == "expr") or (forms[0] == "eof" and align)):
        # no structure to evaluate the expression over / F30: the dump of an aligned structure ending in x[EOF] does not parse back
        vclass = "plain" if textual else "array"
    inplace = vclass == "parsed" or (vclass != "tuple" and rnd.random() < 0.5)
    if fk == "element":
        a_bad = set_spec(a_good, path, bad[0])
        if vclass == "tuple" and len(path) > 1 and not isinstance(path[-1], str) and len(forms) > 1:
            vclass = "list"  # (the faulty row sits inside the tuple as a list; keep it simple)
    else:
        a_bad = a_good
    a_first = a_good if (inplace or fk != "element") else a_bad
    res.feat("purity-fault:" + (fk if fk != "element" else bad[1]))
    res.feat("purity-value:" + vclass + ("+inplace" if inplace and fk == "element" else ""))
    res.count(("purity", L.text, endian, align, compiled, container, plan["spelling"], repr(a_bad), vclass, inplace, fk), fk != "none")

    # ---- build the user's value
    if vclass == "parsed":
        raw = expected[TOPX]
        if setup(f"top = {TOPX}(bytes.fromhex({raw.hex()!r}))"):
            return
        got = unspec(ttree, ns["top"])
        if got != top_good:
            eng.report(f"the dump of a well-formed value parses back to {show(got)}, the value is {show(top_good)}", cd(value=fresh_src),
                       sigs + (["F30"] if forms[0] == "eof" and align else []))
            return
        nav = {"T": "val = top.a; v = top", "member": "o = top; v = top.t; val = v.a", "array": "o = top; v = top.ts[1]; val = v.a", "bare": "val = top"}[container]
        if setup(nav):
            return
    else:
        asrc = src(arr, a_first, "AT", plan)
        if vclass == "tuple":
            asrc = "tuple(" + asrc + ")"
        elif vclass == "array":
            asrc = "AT(" + asrc + ")"
        if setup(f"val = {asrc}"):
            return
        if container != "bare":
            others = ", ".join(f"{k}={tg[k]!r}" for k in tg if k != "a")
            if setup(f"v = T(a=val, {others})"):
                return
            if container == "member":
                if setup(f"o = O(h={top_good['h']}, t=v, z={top_good['z']})"):
                    return
            elif container == "array":
                if setup(f"o = O(ts=[{src(tree, top_good['ts'][0], 'T', plan)}, v], z={top_good['z']})"):
                    return
            if not isinstance(ns["val"], (bytes, str)) and getattr(ns["v"], "a", None) is not ns["val"]:
                # the structure took a copy of the list: then the member is the value the user looks at
                res.feat("purity-member-is-a-copy")
                if setup("val = v.a"):
                    return
    if fk == "element" and inplace:
        et = elem_type_src(path, arr)
        bsrc = bad[0].text if isinstance(bad[0], Raw) else src(get_tree(arr, path), bad[0], et, plan)
        tgt = path_src("val", path)
        line = f"{tgt} = {bsrc}"
        if setup(line):
            return
    topx = {"T": "v", "member": "o", "array": "o", "bare": "val"}[container]
    val = ns["val"]
    before_val = snap(val, m)
    before_top = snap(ns[topx], m)
    shown_before = show(val)

    def unchanged(what, r):
        now_val, now_top = snap(ns["val"], m), snap(ns[topx], m)
        if ns["val"] is not val or (container != "bare" and not isinstance(val, (bytes, str)) and getattr(ns["v"], "a", None) is not val):
            eng.report(f"after {what} the structure's array member is another object than the value it was given", cd(), sigs)
            return False
        if now_val != before_val:
            outcome = f"raised {r[1]}" if r[0] == "err" else "returned"
            eng.report(f"{what} {outcome} and changed the array value: it held {shown_before} ({before_val[1] if len(before_val) > 2 else '-'} elements) before the call, "
                       f"now {show(ns['val'])} ({len(ns['val']) if hasattr(ns['val'], '__len__') else '-'} elements) - a dump must not add, drop or alter elements",
                       cd(fault=fk if fk != "element" else f"{bad[1]} at {path_src('a', path)}: {bad[0]!r}"), sigs)
            return False
        if now_top != before_top:
            eng.report(f"{what} changed the enclosing value: before {str(before_top)[:200]}, now {str(now_top)[:200]}", cd(), sigs)
            return False
        return True

    # ---- the failing (or control) dumps
    rounds = rnd.choice([1, 1, 2, 3])
    for _r in range(rounds):
        tx, vx, _tt, _g = rnd.choice(targets)
        if fk == "stream":
            form, stream, k = rnd.choice(FORMS[2:]), "failing", rnd.choice([1, 1, 2, 2, 3, 4])
        else:
            form, stream, k = rnd.choice(FORMS), rnd.choice(["bytesio", "bytesio", "file"]), 0
        r = do_call(ns, lines, form, tx, vx, stream, k)
        what = f"{lines[-1]}" + (f" (on a stream whose write no. {k} raises OSError)" if stream == "failing" else "")
        res.feat("purity-call:" + form + (":" + stream if form in FORMS[2:] else ""))
        res.feat("purity-outcome:" + (fk if fk != "element" else bad[1]) + ":" + ("raised" if r[0] == "err" else "returned"))
        if not unchanged(what, r):
            return
        if r[0] == "ok" and fk != "element" and r[1] != expected[tx]:
            eng.report(f"{what} gives {r[1].hex()}; the bytes of the value are {expected[tx].hex()}", cd(), sigs)
            return
        if r[0] == "err" and fk == "none":
            eng.report(f"{what} of a well-formed value raises {r[1]}: {r[2]}", cd(), sigs)
            return
        if r[0] == "err" and fk == "stream" and r[1] != "OSError":
            eng.report(f"{what}: the stream's OSError comes out as {r[1]}: {r[2]}", cd(), sigs)
            return

    # ---- repair in place, dump again: exactly the bytes of the value, which parse back to it
    if fk == "element":
        if isinstance(val, tuple) or isinstance(val, (bytes, str)):
            return  # nothing to repair in place
        good_node = get_spec(a_good, path)
        gsrc = src(get_tree(arr, path), good_node, elem_type_src(path, arr), plan, isinstance(path[-1], str))
        if setup(f"{path_src('val', path)} = {gsrc}"):
            return
        back = unspec(arr, ns["val"])
        if back != a_good:
            eng.report(f"after the failed dump and the repair of {path_src('a', path)} the array value is {show(ns['val'])}; its elements were "
                       f"{show(a_good)}", cd(), sigs)
            return
        val_now = snap(ns["val"], m)
    last_top = None
    for _r in range(rnd.choice([1, 2])):
        tx, vx, _tt, _g = rnd.choice(targets + targets[-1:])
        form, stream = rnd.choice(FORMS), rnd.choice(["bytesio", "file"])
        r = do_call(ns, lines, form, tx, vx, stream)
        what = lines[-1]
        res.feat("purity-redump:" + form)
        if r[0] != "ok":
            eng.report(f"{what} of the repaired value raises {r[1]}: {r[2]}", cd(), sigs)
            return
        if r[1] != expected[tx]:
            eng.report(f"after a failed dump and the repair of the element, {what} gives {r[1].hex()}; the bytes of the value (its elements"
                       f"{', one terminator' if 'null' in forms else ''}) are {expected[tx].hex()}", cd(), sigs)
            return
        if fk == "element" and snap(ns["val"], m) != val_now:
            eng.report(f"{what} changed the array value: now {show(ns['val'])}", cd(), sigs)
            return
        if tx == TOPX:
            last_top = r[1]
    if last_top is None:
        return
    # parse back
    if container == "bare" and forms[0] == "expr":
        return
    if forms[0] == "eof" and align:
        res.feat("purity-reparse-skipped:F30")
    else:
        extra = b"" if forms[0] == "eof" else b"\x5a"
        ns["_data"] = last_top + extra
        err = None
        try:
            with t2_arrays.time_limit(5.0):
                s = io.BytesIO(ns["_data"])
                pv = ns[TOPX](s)
                used = s.tell()
        except Exception as e:  # noqa: BLE001
            err = f"{type(e).__name__}: {str(e)[:100]}"
        lines.append(f"{TOPX}(bytes.fromhex({(last_top + extra).hex()!r}))")
        res.feat("purity-reparse")
        if err:
            eng.report(f"the dump of the repaired value does not parse: {err}", cd(), sigs)
            return
        got = unspec(ttree, pv)
        if got != top_good or used != len(last_top):
            eng.report(f"the dump of the repaired value parses back to {show(got)} consuming {used} of {len(last_top)} bytes; the value is {show(top_good)}",
                       cd(), sigs)
            return
        if container == "T":  # (the canonical form is taken from the re-parsed value, which was just found equal to the user's)
            eng.model_write(L, impl.canon(pv), ("ok", last_top), "array dumps (after a failed dump)", eng.sigs(L))


def get_fresh_t(fresh, container):
    if container == "member":
        return fresh.t
    if container == "array":
        return fresh.ts[1]
    return fresh


def get_fresh_a(fresh, container):
    if container == "bare":
        return fresh
    return get_fresh_t(fresh, container).a


def get_spec(spec, path):
    for p in path:
        spec = spec[p]
    return spec


def get_tree(t, path):
    for p in path:
        if isinstance(p, str):
            t = next(f["ty"] for f in t[1] if f["name"] == p)
        else:
            t = t[1]
    return t


def elem_type_src(path, arr):
    """source text of the library type of the node at path below the array type AT"""
    tx = "AT"
    for p in path:
        tx += f".fields[{p!r}].type" if isinstance(p, str) else ".type"
    return tx
