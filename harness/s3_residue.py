"""Residue probes for C08: "a failed parse leaves no residue: later parses with the same types behave as if it had
not happened".

One seekable stream holds two records of the same structure followed by a target area; the first record is parsed, then
a list of operations that (mostly) fail is carried out on the same stream / the same types, then the second record is
parsed from where the first parse left the stream and the pointers of the second record are dereferenced.  The outcome
must be what it is when the failing operations are left out.

Failing operations:
  deref          dereference a pointer of the first record whose target cannot be read (cut off by the end of the stream,
                 beyond the end, an unterminated char* string, a null pointer)
  deref-fault    dereference with a stream fault (OSError / premature end) injected at the 1st..3rd read of the target
  parse-at-end   a parse of the structure started so close to the end of the stream that it fails; the caller then seeks
                 back to where it was (the caller's duty, not the library's)
  parse-fault    a parse at the current position with an injected stream fault, caller seeks back
  parse-bytes    a parse of a truncated bytes object (no stream involved: residue in the types)

(u1) `cut_targets`: the property's first clause at a dereference - a pointer target that is cut off by the end of the stream (found
by parsing the target from the stream extended by filler bytes) must make the dereference raise or return the value of the
complete target; the targets include dynamic structures whose count member is called EOF / a Python keyword.
"""
from __future__ import annotations

import io
import random

from . import defs, impl

S = lambda n: ("sc", n)  # noqa: E731


def F(name, ty, bits=None):
    return {"name": name, "ty": ty, "bits": bits}


class Armable(io.BytesIO):
    """BytesIO with a fault that can be armed: the n-th read() after arm() raises OSError (mode 'raise') or delivers at most
    `keep` bytes and then nothing (mode 'short') until disarm()"""

    def __init__(self, data):
        super().__init__(data)
        self.countdown = None
        self.mode, self.keep, self.dead, self.fired = None, 0, False, False

    def arm(self, n, mode, keep=0):
        self.countdown, self.mode, self.keep, self.dead, self.fired = n, mode, keep, False, False

    def disarm(self):
        self.countdown, self.dead = None, False

    def read(self, n=-1):
        if self.dead:
            return b""
        if self.countdown is not None:
            self.countdown -= 1
            if self.countdown == 0:
                self.countdown = None
                self.fired = True
                if self.mode == "raise":
                    raise OSError("injected fault")
                self.dead = True
                return super().read(n)[: self.keep]
        return super().read(n)


TARGETS = [
    S("uint8"), S("uint16"), S("uint32"), S("int64"), S("uint24"), S("char"), S("char"), S("wchar"), ("enum", "E8"), ("enum", "E32"), S("double"),
    ("ptr", S("uint16")), ("ptr", S("char")),
    ("struct", [F("x", S("uint8")), F("y", S("uint16"))]),
    ("struct", [F("len", S("uint16")), F("data", ("arr", S("char"), ("expr", "len & 7")))]),
    ("struct", [F("k", S("uint8")), F("s", ("arr", S("char"), ("null",))), F("v", S("uint32"))]),
    ("struct", [F("a", S("uint32")), F("b", ("arr", S("uint16"), ("fixed", 3)))]),
    S("uleb128"),
    # (u1) dynamic targets whose count member has an unusual-but-legal name: `EOF` as a member makes d[EOF] an array of definite length
    ("struct", [F("EOF", S("uint8")), F("data", ("arr", S("char"), ("expr", "EOF")))]),
    ("struct", [F("EOF", S("uint16")), F("d", ("arr", S("uint16"), ("expr", "EOF & 3"))), F("e", ("arr", S("uint8"), ("expr", "EOF")))]),
    ("struct", [F("if", S("uint8")), F("s", ("arr", S("wchar"), ("expr", "if & 3")))]),
]


def ptr_tree(rnd: random.Random):
    """a record type with pointers to scalars, strings, fixed and dynamic structures, pointers; as members, in arrays and in
    nested structures; optionally with a dynamically sized member so that the record length depends on the input"""
    n = [0]

    def nm():
        n[0] += 1
        return f"f{n[0]}"

    def pfield():
        t = ("ptr", rnd.choice(TARGETS))
        if rnd.random() < 0.2:
            t = ("arr", t, ("fixed", rnd.randint(1, 2)))
        return F(nm(), t)

    fs = [F("id", S("uint8"))]
    for _ in range(rnd.randint(1, 3)):
        r = rnd.random()
        if r < 0.6:
            fs.append(pfield())
        elif r < 0.75:
            fs.append(F(nm(), ("struct", [F(nm(), S(rnd.choice(["uint8", "uint16"]))), pfield()])))
        elif r < 0.85:
            fs.append(F(nm(), ("arr", S("char"), ("null",))))
        elif r < 0.92:
            fs.append(F(nm(), ("arr", S("uint8"), ("expr", "id & 3"))))
        else:
            fs.append(F(nm(), S(rnd.choice(["uint16", "uint32", "int8", "wchar"]))))
    if not any(_has_ptr(f["ty"]) for f in fs):
        fs.append(pfield())
    return ("struct", fs)


def _has_ptr(ty):
    if ty[0] == "ptr":
        return True
    if ty[0] == "arr":
        return _has_ptr(ty[1])
    if ty[0] == "struct":
        return any(_has_ptr(f["ty"]) for f in ty[1])
    return False


def tree_has_ptr_outside_union(tree):
    return _has_ptr(tree)


# ------------------------------------------------------------------------------------------------ pointers of a parsed value

def pointers(v, path=""):
    """[(path, Pointer)] of a parsed value, not descending into unions (their members live on the union's private buffer)"""
    m = impl.dc()
    out = []
    if isinstance(v, m.Pointer):
        out.append((path, v))
    elif isinstance(v, m.Union) or type(v).__name__ == "UnionProxy":
        pass
    elif isinstance(v, m.Structure):
        for f in v.__class__.__fields__:
            out += pointers(getattr(v, f._name), f"{path}.{f._name}")
    elif isinstance(v, list):
        for i, x in enumerate(v):
            out += pointers(x, f"{path}[{i}]")
    return out


def patch(v, choose):
    """replace every pointer of a parsed value (outside unions) by choose(); returns the patched value"""
    m = impl.dc()
    if isinstance(v, m.Pointer):
        return choose()
    if isinstance(v, m.Union) or type(v).__name__ == "UnionProxy":
        return v
    if isinstance(v, m.Structure):
        for f in v.__class__.__fields__:
            old = getattr(v, f._name)
            new = patch(old, choose)
            if new is not old:
                setattr(v, f._name, new)
        return v
    if isinstance(v, list):
        new = [patch(x, choose) for x in v]
        if any(a is not b for a, b in zip(new, v)):
            return new
    return v


def deref_outcome(p, depth=2):
    """dereference (and, for pointers to pointers, once more) -> canonical outcome"""
    m = impl.dc()
    try:
        v = p.dereference()
    except Exception as e:  # noqa: BLE001
        return ("err", type(e).__name__)
    if isinstance(v, m.Pointer) and depth > 1:
        return ("ptr", int(v), deref_outcome(v, depth - 1))
    return ("ok", impl.canon(v))


def failed(outcome):
    return outcome[0] == "err" or (outcome[0] == "ptr" and failed(outcome[2]))


def cut_targets(T, stream: bytes, filler: bytes):
    """(u1) the first clause of the property at a dereference: for every pointer of the records in `stream` whose target starts
    inside the stream, the target is also parsed from the stream EXTENDED by `filler` (the complete input of which the real
    stream is a shortened one).  Targets that reach beyond the end of the real stream are returned as
    (path, address, outcome of dereferencing on the real stream, canonical value on the extended stream, its end): the
    dereference must raise, or return that very value (when only tail padding is cut off)."""
    m = impl.dc()
    s = io.BytesIO(stream)
    recs = []
    try:
        recs.append(T(s))
        recs.append(T.read(s))
    except Exception:  # noqa: BLE001
        pass
    out = []
    for ri, rec in enumerate(recs):
        for path, p in pointers(rec, f"rec{ri + 1}"):
            addr, tt = int(p), p.type
            if not 0 < addr < len(stream) or issubclass(tt, m.Void):
                continue
            ext = io.BytesIO(stream + filler)
            ext.seek(addr)
            try:
                v = tt._read_0(ext, None) if issubclass(tt, m.Char) else tt._read(ext, None)
            except Exception:  # noqa: BLE001
                continue
            if ext.tell() <= len(stream):
                continue
            out.append((path, addr, deref_outcome(p, depth=1), impl.canon(v), ext.tell()))
    return out


# ------------------------------------------------------------------------------------------------ the stream

def build_stream(rnd, T, size_hint, ptr_max):
    """-> (stream bytes, len(rec1), len(rec2)) or None. Two accepted records whose pointers point into / near / beyond a
    target area at the end of the stream"""
    recs = []
    for _ in range(2):
        obj = None
        for _try in range(4):
            cand = bytes(rnd.choice([1, 2, 3, 0x41, 0x7F, 0x80, 0xFF, 0, 0, rnd.randrange(256)]) for _ in range(size_hint + rnd.choice([0, 8, 24])))
            try:
                obj = T(cand)
                break
            except Exception:  # noqa: BLE001
                obj = None
        if obj is None:
            return None
        recs.append(obj)
    try:
        lens = [len(o.dumps()) for o in recs]
    except Exception:  # noqa: BLE001
        return None
    gap = rnd.choice([0, 1, 5])
    base = lens[0] + lens[1] + gap
    zero_at = rnd.randint(4, 12)
    area = bytes(rnd.choice([1, 2, 0x41, 0x61, 0x7F, 0x80, 0xFF]) for _ in range(zero_at)) + b"\x00" + \
        bytes(rnd.choice([1, 2, 0x41, 0x61, 0x7F, 0x80, 0xFF]) for _ in range(rnd.randint(3, 14)))
    total = base + len(area)
    if total + 200 > ptr_max:
        return None

    def choose():
        r = rnd.random()
        if r < 0.35:
            return base + rnd.randrange(0, zero_at + 1)  # readable (a string from here is terminated)
        if r < 0.7:
            return total - rnd.choice([0, 1, 1, 2, 3, 5])  # cut off by the end of the stream / unterminated string
        if r < 0.8:
            return total + rnd.randrange(1, 100)
        if r < 0.88:
            return 0
        return rnd.randrange(1, total)  # anywhere, also inside the records

    out = []
    for o in recs:
        try:
            o = patch(o, choose)
            out.append(o.dumps())
        except Exception:  # noqa: BLE001
            return None
    if [len(b) for b in out] != lens:
        return None
    return out[0] + out[1] + bytes(rnd.randrange(256) for _ in range(gap)) + area, lens[0], lens[1]


def make_ops(rnd, nptr, total, rec_len):
    """a short list of operations to carry out between the two parses"""
    ops = []
    for _ in range(rnd.randint(1, 3)):
        r = rnd.random()
        if r < 0.45 and nptr:
            ops.append(("deref", rnd.randrange(nptr)))
        elif r < 0.7 and nptr:
            ops.append(("deref-fault", rnd.randrange(nptr), rnd.randint(1, 3), *rnd.choice([("raise", 0), ("short", 0), ("short", 1)])))
        elif r < 0.8:
            ops.append(("parse-at-end", rnd.randint(0, max(0, min(rec_len, total) - 1))))
        elif r < 0.92:
            ops.append(("parse-fault", rnd.randint(1, 4), *rnd.choice([("raise", 0), ("short", 0), ("short", 1)])))
        else:
            ops.append(("parse-bytes", rnd.randint(0, max(0, rec_len - 1))))
    if nptr and not any(o[0].startswith("deref") for o in ops) and rnd.random() < 0.7:
        ops.insert(0, ("deref-all",))
    return ops


def run_history(T, stream: bytes, ops, rec1: bytes):
    """parse record 1, carry out `ops`, parse record 2 from where the stream stands, dereference its pointers.
    -> (outcomes of the ops, number of failed ops, observation of the second parse)"""
    s = Armable(stream)
    a = T(s)
    ptrs = pointers(a)
    log = []
    nfailed = 0
    for op in ops:
        k = op[0]
        if k == "deref":
            o = deref_outcome(ptrs[op[1]][1])
            log.append((k, ptrs[op[1]][0], int(ptrs[op[1]][1]), o[0] if o[0] != "err" else o))
            nfailed += failed(o)
        elif k == "deref-all":
            for path, p in ptrs:
                o = deref_outcome(p)
                log.append((k, path, int(p), o[0] if o[0] != "err" else o))
                nfailed += failed(o)
        elif k == "deref-fault":
            path, p = ptrs[op[1]]
            s.arm(op[2], op[3], op[4])
            o = deref_outcome(p, depth=1)
            fired = s.fired
            s.disarm()
            log.append((k, path, int(p), op[2:], "fired" if fired else "not reached", o[0] if o[0] != "err" else o))
            nfailed += failed(o)
        elif k in ("parse-at-end", "parse-fault"):
            pos = s.tell()
            if k == "parse-at-end":
                s.seek(len(stream) - op[1])
            else:
                s.arm(op[1], op[2], op[3])
            try:
                T.read(s)
                o = ("ok",)
            except Exception as e:  # noqa: BLE001
                o = ("err", type(e).__name__)
            s.disarm()
            s.seek(pos)  # the caller restores its own position after its own failed parse
            log.append((k, op[1:], o))
            nfailed += o[0] == "err"
        elif k == "parse-bytes":
            try:
                T(rec1[: op[1]])
                o = ("ok",)
            except Exception as e:  # noqa: BLE001
                o = ("err", type(e).__name__)
            log.append((k, op[1], o))
            nfailed += o[0] == "err"
    before = s.tell()
    try:
        b = T.read(s)
        obs = ("ok", impl.canon(b), s.tell(), [(path, int(p), deref_outcome(p)) for path, p in pointers(b)], s.tell())
    except Exception as e:  # noqa: BLE001
        obs = ("err", type(e).__name__, s.tell())
    return log, nfailed, before, obs
