"""C11 placement probes (agent t3): "parsing consumes exactly that size", wherever the union's bytes happen to start.

The union of the main C11 loop is declared once more as a named type `U` (packed or aligned) and parsed
  stream   from a file-like object positioned at start offsets 0..17 (multiples and non-multiples of the union's alignment;
           io.BytesIO or a bare read/seek/tell object; through U(fh), U.read(fh) and U._read(fh));
  array    as `U[n]` (n = 1..3) from such positions;
  member   as the members `U u; U w[2];` of outer structures loaded by a second `load` call with its own align flag
           (packed and aligned outer structures, interpreted and compiled): with a fixed layout
           `{ uint8 pre; U u; U w[2]; uint8 post; }` and after a dynamically sized field
           `{ uint8 n; char d[n]; U u; U w[2]; uint8 post; }` (the members are then placed by the stream position).
Predicates (the size / consumption clauses of C11): the stream advances by exactly len(U) (n * len(U) for the array), every
member of every parsed union equals the parse of the member's type from exactly the len(U) bytes at the union's place, and
the field that follows the unions holds the byte that follows them.  Where the union's place is: packed outer structures
are sequential; an aligned outer structure puts fixed-layout fields at start + the field offset of the real class and
fields after a dynamic one at the stream position rounded up to the field's alignment (the rule of refimpl.Parser.struct).
"""
from __future__ import annotations

import io

from . import defs, impl
from .refimpl import roundup

STARTS = list(range(18))


class BareStream:
    """a file-like object with nothing but read / seek / tell"""

    def __init__(self, data: bytes):
        self._b = io.BytesIO(data)

    def read(self, n=-1):
        return self._b.read(n)

    def seek(self, pos, whence=0):
        return self._b.seek(pos, whence)

    def tell(self):
        return self._b.tell()


OUTER = {
    "fixed": "struct {name} {{ uint8 pre; U u; U w[2]; uint8 post; }};",
    "dyn": "struct {name} {{ uint8 n; char d[n]; U u; U w[2]; uint8 post; }};",
}


def member_mismatch(U, u, raw):
    """first member of the parsed union `u` that differs from the parse of its type from `raw` -> text | None"""
    for rf in U.__fields__:
        try:
            w = impl.canon(rf.type(bytes(raw)))
        except Exception as e:  # noqa: BLE001
            w = ("err", type(e).__name__)
        g = impl.canon(getattr(u, rf._name))
        if not impl.same_val(w, g, ignore_union_buf=True):
            return f"member {rf._name} is {str(g)[:140]}, its type parses the union's bytes {bytes(raw).hex()} to {str(w)[:140]}"
    return None


def placement_probes(rnd, res, viol, utree, *, endian, tier):
    """run the stream / array / member probes on one generated union; violations through viol(what, data)"""
    dc = impl.dc()
    utext = defs.PREAMBLE + defs.render_struct("U", utree)
    for ualign in (False, True):
        ucompiled = rnd.random() < 0.5
        cs = dc.cstruct(endian=endian)
        loads = [(utext, ucompiled, ualign)]
        try:
            cs.load(utext, compiled=ucompiled, align=ualign)
        except Exception as e:  # noqa: BLE001
            viol(f"union definition rejected: {type(e).__name__}: {e}", {"definition": utext, "align": ualign})
            continue
        U = cs.U
        size, al = U.size, U.alignment or 1
        data = bytearray(rnd.randrange(256) for _ in range(17 + 8 + 2 * al + 8 * size + 16))

        def script(extra):
            return "\n".join([f"import io; from dissect.cstruct import cstruct; cs = cstruct(endian={endian!r})",
                              *[f"cs.load({t!r}, compiled={c}, align={a})" for t, c, a in loads],
                              f"data = bytes.fromhex({bytes(data).hex()!r}); U = cs.U; print('len(U) =', len(U), 'alignment', U.alignment)",
                              *extra])

        def cdata(**kw):
            extra = kw.pop("extra")
            return dict({"definition": utext, "endian": endian, "union_align": ualign, "union_compiled": ucompiled,
                         "data": bytes(data).hex(), "repro": script(extra)}, **kw)

        starts = STARTS if tier != "quick" else sorted({0, rnd.choice([1, 3, 5, 7]), rnd.randrange(1, 18), rnd.randrange(1, 18)})
        mode = ("aligned" if ualign else "packed") + "-union"
        # ---- stream: one union from a positioned file-like object
        for s in starts:
            kind = rnd.choice(["BytesIO", "bare"])
            how = rnd.choice(["U(fh)", "U.read(fh)", "U._read(fh)"])
            fh = io.BytesIO(bytes(data)) if kind == "BytesIO" else BareStream(bytes(data))
            fh.seek(s)
            ex = [f"fh = io.BytesIO(data); fh.seek({s}); u = {how}; print('consumed', fh.tell() - {s}); print(u)"]
            cd = cdata(start=s, stream=kind, call=how, extra=ex)
            res.count((utext, endian, ualign, "stream", s), True)
            res.feat(f"place:stream:{mode}:start-" + ("0" if s == 0 else "multiple-of-alignment" if s % al == 0 else "not-a-multiple-of-alignment"))
            res.feat("place:stream:" + kind)
            try:
                u = U(fh) if how == "U(fh)" else U.read(fh) if how == "U.read(fh)" else U._read(fh)
            except Exception as e:  # noqa: BLE001
                viol(f"parsing a union from stream position {s} raises {type(e).__name__}: {e}", cd)
                continue
            if fh.tell() - s != size:
                viol(f"parsing a union from stream position {s} consumed {fh.tell() - s} bytes, its size is {size}", cd)
            bad = member_mismatch(U, u, data[s: s + size])
            if bad:
                viol(f"union parsed from stream position {s}: {bad}", cd)
        # ---- array: U[n] from a positioned stream
        for s in (starts if tier != "quick" else rnd.sample(starts, min(2, len(starts)))):
            n = rnd.randint(1, 3)
            fh = io.BytesIO(bytes(data))
            fh.seek(s)
            ex = [f"fh = io.BytesIO(data); fh.seek({s}); a = U[{n}](fh); print('consumed', fh.tell() - {s}); print(a)"]
            cd = cdata(start=s, count=n, extra=ex)
            res.count((utext, endian, ualign, "array", s, n), True)
            res.feat(f"place:array:{mode}:start-" + ("multiple-of-alignment" if s % al == 0 else "not-a-multiple-of-alignment"))
            try:
                arr = U[n](fh)
            except Exception as e:  # noqa: BLE001
                viol(f"parsing U[{n}] from stream position {s} raises {type(e).__name__}: {e}", cd)
                continue
            if fh.tell() - s != n * size:
                viol(f"parsing U[{n}] from stream position {s} consumed {fh.tell() - s} bytes, {n} * len(U) is {n * size}", cd)
            for i, u in enumerate(arr):
                bad = member_mismatch(U, u, data[s + i * size: s + (i + 1) * size])
                if bad:
                    viol(f"U[{n}] parsed from stream position {s}, element {i}: {bad}", cd)
                    break
        # ---- member: the union inside outer structures loaded with their own align flag
        for oalign in (False, True):
            for lay in ("fixed", "dyn"):
                name = f"O{lay}{int(oalign)}"
                otext = OUTER[lay].format(name=name)
                ocompiled = rnd.random() < 0.5
                try:
                    cs.load(otext, compiled=ocompiled, align=oalign)
                except Exception as e:  # noqa: BLE001
                    viol(f"outer structure rejected: {type(e).__name__}: {e}", cdata(outer=otext, extra=[]))
                    continue
                loads.append((otext, ocompiled, oalign))
                O = getattr(cs, name)
                omode = f"{'aligned' if oalign else 'packed'}-outer-{lay}"
                for s in (starts if tier != "quick" else rnd.sample(starts, min(2, len(starts)))):
                    n = rnd.randint(0, 5)
                    if lay == "dyn":
                        data[s] = n
                    # where the unions and the field after them are
                    if lay == "fixed":
                        if oalign:
                            pu, pw, pp = (s + O.fields[k].offset for k in ("u", "w", "post"))
                        else:
                            pu, pw, pp = s + 1, s + 1 + size, s + 1 + 3 * size
                    else:
                        p = s + 1 + n
                        pu = roundup(p, al) if oalign else p
                        pw = roundup(pu + size, al) if oalign else pu + size
                        pp = pw + 2 * size
                    fh = io.BytesIO(bytes(data))
                    fh.seek(s)
                    ex = [f"fh = io.BytesIO(data); fh.seek({s}); o = cs.{name}(fh); print('consumed', fh.tell() - {s}); print(o)",
                          f"print('u expected from', data[{pu}:{pu + size}].hex(), 'w from', data[{pw}:{pw + 2 * size}].hex(), 'post', data[{pp}])"]
                    cd = cdata(start=s, outer=otext, outer_align=oalign, outer_compiled=ocompiled, extra=ex)
                    res.count((utext, endian, ualign, "member", name, s, n if lay == "dyn" else 0), True)
                    res.feat(f"place:member:{mode}:{omode}:" + ("compiled" if ocompiled else "interpreted"))
                    if pu % al:
                        res.feat(f"place:member:{mode}:union-at-a-position-not-a-multiple-of-its-alignment")
                    try:
                        o = O(fh)
                    except Exception as e:  # noqa: BLE001
                        viol(f"parsing {otext} from stream position {s} raises {type(e).__name__}: {e}", cd)
                        continue
                    got = [("u", o.u, pu), ("w[0]", o.w[0], pw), ("w[1]", o.w[1], pw + size)]
                    bad = None
                    for label, u, p in got:
                        m = member_mismatch(U, u, data[p: p + size])
                        if m:
                            bad = f"{label} (the {size} bytes at stream position {p}): {m}"
                            break
                    if bad:
                        viol(f"union as member of {omode} structure parsed from stream position {s}: {bad}", cd)
                    elif int(o.post) != data[pp]:
                        viol(f"union as member of {omode} structure parsed from stream position {s}: the field after `U u; U w[2];` is "
                             f"{int(o.post)}, the byte after the unions (3 * len(U) = {3 * size} bytes from position {pu}) is {data[pp]}", cd)
                    elif not oalign and fh.tell() != pp + 1:
                        viol(f"packed structure with three unions parsed from stream position {s} consumed {fh.tell() - s} bytes, "
                             f"its fields have {pp + 1 - s}", cd)
