"""s1: LEB128 boundary encodings for the byte-fidelity property (C02).

Independent (textbook) notion of a canonical = minimal LEB128 encoding, an enumeration of the encodings around the group
boundaries (final 7-bit group 0x3f/0x40/0x41/0x7f/0x00/..., with and without continuation bytes), a reference parser that
records where the LEB128 members of a structure sit in an input, and a splicer that rewrites those members to boundary
encodings so that the inputs of structure-level checks are biased to them.  Nothing here uses the library.
"""
from __future__ import annotations

import itertools

from . import refimpl

GROUPS = [0x00, 0x01, 0x3E, 0x3F, 0x40, 0x41, 0x42, 0x7E, 0x7F]


def well_formed(bs: bytes) -> bool:
    return len(bs) >= 1 and all(b & 0x80 for b in bs[:-1]) and not bs[-1] & 0x80


def minimal(bs: bytes, signed: bool) -> bool:
    """is this (well-formed) encoding the shortest one of its value?  The last group is redundant when it only repeats
    what the previous group already implies: unsigned - a final 0x00 after another group; signed - a final 0x00 after a
    group with bit 6 clear, or a final 0x7f after a group with bit 6 set."""
    if not well_formed(bs):
        return False
    if len(bs) == 1:
        return True
    last, prev = bs[-1], bs[-2] & 0x7F
    if not signed:
        return last != 0x00
    if last == 0x00 and not prev & 0x40:
        return False
    if last == 0x7F and prev & 0x40:
        return False
    return True


def decode(bs: bytes, signed: bool) -> int:
    v = 0
    for i, b in enumerate(bs):
        v |= (b & 0x7F) << (7 * i)
    if signed and bs[-1] & 0x40:
        v -= 1 << (7 * len(bs))
    return v


def encodings(signed: bool, tier: str):
    """canonical encodings: every 1-byte and every 2-byte one, every 3..4-byte one over the boundary groups, and a few
    long ones (values beyond 64 bits); thorough: every 3-byte one as well"""
    seen = set()

    def emit(groups):
        bs = bytes([g | 0x80 for g in groups[:-1]] + [groups[-1]])
        if bs not in seen and minimal(bs, signed):
            seen.add(bs)
            return bs
        return None

    for a in range(128):
        if (e := emit([a])) is not None:
            yield e
    for a, b in itertools.product(range(128), range(128)):
        if (e := emit([a, b])) is not None:
            yield e
    if tier == "thorough":
        for a, b, c in itertools.product(range(0, 128), range(0, 128, 1), GROUPS + [0x20, 0x5F]):
            if (e := emit([a, b, c])) is not None:
                yield e
    for n in (3, 4):
        for gs in itertools.product(GROUPS, repeat=n):
            if (e := emit(list(gs))) is not None:
                yield e
    for n in (5, 9, 10, 11, 19):
        for fill in (0x00, 0x7F, 0x40):
            for last in GROUPS:
                for first in (0x00, 0x01, 0x7F):
                    if (e := emit([first] + [fill] * (n - 2) + [last])) is not None:
                        yield e


def pick(rnd, signed: bool) -> bytes:
    """one canonical encoding, biased to the boundary groups"""
    for _ in range(50):
        n = rnd.choice([1, 1, 1, 2, 2, 3, 4, 10])
        pool = GROUPS if rnd.random() < 0.8 else list(range(128))
        gs = [rnd.choice(pool) for _ in range(n)]
        bs = bytes([g | 0x80 for g in gs[:-1]] + [gs[-1]])
        if minimal(bs, signed):
            return bs
    return b"\x01"


class SpanP(refimpl.P):
    """the reference parser, additionally recording (start, end, signed) of every LEB128 member it reads"""

    def __init__(self, data, cfg):
        super().__init__(data, cfg)
        self.spans = []

    def scalar(self, name, pos):
        v, p = super().scalar(name, pos)
        kind, _, signed, _ = refimpl.sc(name)
        if kind == "leb":
            self.spans.append((pos, p, bool(signed)))
        return v, p

    def union(self, fields, start):
        # the reference parses union members in a sub-buffer; LEB128 cannot occur in (fixed-size) unions
        return super().union(fields, start)


def parse_spans(tree, data, pos, cfg):
    """-> (value, end, mask, spans); raises refimpl.Short / refimpl.Bad"""
    p = SpanP(bytes(data), cfg)
    v, end = p.value(tree, pos, {})
    mask = bytes(p.mask[pos:end]) + b"\x00" * max(0, end - len(data))
    return v, end, mask, p.spans


def canonical_input(spans, data) -> bool:
    return all(minimal(bytes(data[a:b]), s) for a, b, s in spans)


def splice_boundary(rnd, tree, data: bytes, cfg, limit=6) -> bytes:
    """rewrite the first `limit` LEB128 members found in `data` (by the reference parser) to boundary encodings; members
    behind a rewritten one move, so the input is re-parsed after every splice.  Returns the data unchanged when the
    reference parser cannot parse it."""
    data = bytes(data)
    for k in range(limit):
        try:
            _, _, _, spans = parse_spans(tree, data, 0, cfg)
        except (refimpl.Short, refimpl.Bad):
            return data
        if k >= len(spans):
            break
        a, b, signed = spans[k]
        if rnd.random() < 0.15:
            continue
        data = data[:a] + pick(rnd, signed) + data[b:]
    return data
