"""C17 probe (v9b): zero-sized members inside runs - assignment locality, dump length and the value laws of structures in which
members that occupy no byte stand between bit-fields, between ordinary members, first and last.

A member of size zero (void, an empty structure / union, an array of those, a structure of zero-sized members, `T x[0]` for integer /
enum / float / structure / pointer element types, `char c[0]`, `char c[K0]`, `wchar w[0]`, `uint8 m[0][3]`, `uint16 m[2][0]`, `void v[2]`)
is a field like any other: it has a name, a value, takes part in construction, `==` and `bool`, and - standing between two bit-fields
of the same storage type - it ends the storage unit, so that the bit-field behind it starts a new one.  Reader, layout (`len(T)`,
offsets) and writer have to agree on that; the writer is the only one of the three that is never compiled.

Definitions (harness PRNG): 3..9 ordinary members - bit-field runs of 2..5 fields over uint8 / uint16 / uint32 / uint64 / int8 / int16 /
int32 / E8 / F16 (widths chosen so that fields share units), integers of 1..8 bytes (uint24 too), enums / flag, char, char[k], integer
and enum arrays, nested structures (one of which has its own zero-sized cut between bit-fields) - with zero-sized members put between
two bit-fields of one run (one or two of them), behind a run whose unit is exhausted, between two runs, between ordinary members, first
and last; packed / aligned x compiled / interpreted x endianness; declared in one piece, or the tail of the member list added through
`T.add_field(name, type, bits=...)` one by one or in a `with T.start_update():` block.  Every definition is also used INSIDE other
constructs: `struct O { uint8 pre; T t; uint16 post; }` and `struct A { T ts[2]; uint8 post; }` (same alignment mode).

Oracle (the property, on observable behaviour; nothing is taken from the library's offsets):
  * bit masks from the reader: for T, O and A every one-bit input is parsed; the leaf (field of T, `t.f` of O, `ts[i].f` of A, pre / post)
    whose value differs from the all-zero parse owns that bit.  Zero-sized leaves own no bit.
  * for instances parsed from all-zero, all-ones and random bytes: `dumps()` is len(T) bytes, `bytes(x)`, `x.write(fh)` into an empty
    stream and behind a prefix give the same bytes, and the dump re-parses to the same field values;
  * for EVERY leaf (the zero-sized ones included) a value taken from a donor instance (all-ones, all-zero, random, the instance with
    exactly that field's bits inverted) is assigned (`x.f = v`, `o.t.f = v`, `a.ts[i].f = v`, and the whole member `o.t = v`,
    `a.ts[i] = v`): the dump keeps its length, differs from the dump before in no bit outside the leaf's mask (no bit at all for a
    zero-sized leaf), holds the donor's bits inside the mask, and re-parses to the old values with that one leaf replaced;
  * value laws on T: instances made from the parsed values by keywords, positionally and by assignment on T() have the same field
    values, are `==` / not `!=` to the parsed one, hash equally whenever both are hashable (void and array members make an instance
    unhashable: counted), dump to the same bytes; bool(x) == any(bool(field)); T() dumps to len(T) zero bytes; a random partial
    construction equals the default instance with those fields assigned and dumps to the parsed dump restricted to the masks of the given
    fields (unspecified fields: zero); an instance parsed from the input with one owned bit flipped is `!=`.

Domain notes (excluded, with the reason):
  * the empty structure / union types are defined WITHOUT align (also when T is aligned), and the inline `struct { } name;` member is used
    in packed definitions only: a member-less aggregate defined with align=True has alignment 0 and rewinds the stream when read (known
    finding F69, not a C17 matter);
  * bit-fields over 3- and 6-byte integers in aligned mode are known finding F23 (layout and reader disagree): bit-field storage types are
    the 1 / 2 / 4 / 8 byte integers and enums over them;
  * in aligned mode the prefix in front of `x.write(fh)` is a multiple of 16 bytes (an aligned structure pads its tail by the absolute
    stream position: F43 territory).
"""
from __future__ import annotations

import io

from . import defs, impl
from .structprops import rand_bytes

PRE = defs.PREAMBLE + "#define K0 0\n"
EMPTIES = "struct E {};\nunion UE {};\n"  # never loaded with align=True: F69
NESTED = ("struct N { uint8 p; uint16 q; };\n"
          "struct Z { void v; uint8 n[0]; };\n"
          "struct NB { uint8 x : 3; void v; uint8 y : 5; uint16 w[0]; uint8 k; };\n")
BIT_BASES = {"uint8": 8, "uint16": 16, "uint32": 32, "uint64": 64, "int8": 8, "int16": 16, "int32": 32, "E8": 8, "F16": 16}
UNDERLYING = {"E8": "uint8", "F16": "uint16"}
INTS = ["uint8", "int8", "uint16", "int16", "uint32", "int32", "uint64", "int64", "uint24"]
ZERO_KINDS = [
    ("void", "void {n};"), ("void", "void {n};"), ("empty", "E {n};"), ("empty", "E {n};"), ("empty-union", "UE {n};"),
    ("inline-empty", "struct {{ }} {n};"), ("empty[2]", "E {n}[2];"), ("empty[0]", "E {n}[0];"), ("zstruct", "Z {n};"), ("zstruct[2]", "Z {n}[2];"),
    ("uint8[0]", "uint8 {n}[0];"), ("uint16[0]", "uint16 {n}[0];"), ("uint32[0]", "uint32 {n}[0];"), ("uint64[0]", "uint64 {n}[0];"),
    ("int16[0]", "int16 {n}[0];"), ("uint24[0]", "uint24 {n}[0];"), ("enum[0]", "E8 {n}[0];"), ("flag[0]", "F16 {n}[0];"), ("struct[0]", "N {n}[0];"),
    ("float[0]", "float {n}[0];"), ("ptr[0]", "uint8 *{n}[0];"), ("char[0]", "char {n}[0];"), ("char[0]", "char {n}[0];"), ("char[K0]", "char {n}[K0];"),
    ("char[1-1]", "char {n}[1 - 1];"), ("wchar[0]", "wchar {n}[0];"), ("void[2]", "void {n}[2];"), ("void[0]", "void {n}[0];"),
    ("2d[0][3]", "uint8 {n}[0][3];"), ("2d[2][0]", "uint16 {n}[2][0];"),
]


# ------------------------------------------------------------------------------------------------ definitions

HASHABLE_ZERO = ("empty", "empty-union", "inline-empty", "char[0]", "char[K0]", "char[1-1]", "wchar[0]")


def gen_def(rnd, align, thorough):
    """-> list of members {name, decl, zero, kind}; at least one zero-sized member, at least two that occupy bytes.
    One definition in four keeps to members with hashable values (no void, no arrays), so that the hash law is met."""
    members = []
    ctr = [0]
    hashable = rnd.random() < 0.25

    def name(prefix):
        ctr[0] += 1
        return f"{prefix}{ctr[0]}"

    def zero(where):
        while True:
            kind, tmpl = rnd.choice(ZERO_KINDS)
            if kind == "inline-empty" and align:
                continue  # F69: an inline empty structure takes the alignment mode of the definition
            if hashable and kind not in HASHABLE_ZERO:
                continue
            break
        n = name("z")
        members.append({"name": n, "decl": tmpl.format(n=n), "zero": True, "kind": kind, "where": where})

    unit_of = [None, 0]  # storage type (enums: the underlying integer) and free bits of the unit the next bit-field would continue

    def zeros(where, p):
        if rnd.random() < p:
            zero(where)
            if rnd.random() < 0.25:
                zero(where)
            unit_of[:] = [None, 0]

    def run():
        # consecutive bit-fields continue a unit when their storage types are the same integer (uint16 / F16 share units): the widths are
        # chosen against the free bits of the unit that the library's rule continues (a field that does not fit is rejected as straddling)
        base = rnd.choice(list(BIT_BASES))
        for i in range(rnd.randint(2, 5)):
            if i:
                zeros("in-run" if unit_of[1] else "behind-full-unit", 0.6)
                if rnd.random() < 0.15:
                    base = {"uint8": "E8", "E8": "uint8", "uint16": "F16", "F16": "uint16"}.get(base, base)
            under = UNDERLYING.get(base, base)
            if unit_of[0] != under or unit_of[1] == 0:
                unit_of[:] = [under, BIT_BASES[base]]
            remaining = unit_of[1]
            w = rnd.choice([remaining, 1, rnd.randint(1, remaining), rnd.randint(1, max(1, remaining // 2)), rnd.randint(1, max(1, remaining // 3))])
            unit_of[1] -= w
            n = name("b")
            members.append({"name": n, "decl": f"{base} {n} : {w};", "zero": False, "kind": "bits:" + base})

    def ordinary():
        unit_of[:] = [None, 0]
        r = rnd.random()
        if hashable and r >= 0.62:
            r = rnd.random() * 0.62 if rnd.random() < 0.6 else 0.99
        n = name("f")
        if r < 0.4:
            t = rnd.choice(INTS)
            members.append({"name": n, "decl": f"{t} {n};", "zero": False, "kind": "int"})
        elif r < 0.5:
            t = rnd.choice(["E8", "F16", "E32"])
            members.append({"name": n, "decl": f"{t} {n};", "zero": False, "kind": "enum"})
        elif r < 0.62:
            k = rnd.choice(["", "[1]", "[2]", "[3]", "[4]"])
            members.append({"name": n, "decl": f"char {n}{k};", "zero": False, "kind": "char"})
        elif r < 0.75:
            t = rnd.choice(["uint8", "uint16", "int32", "E8"])
            members.append({"name": n, "decl": f"{t} {n}[{rnd.randint(1, 3)}];", "zero": False, "kind": "array"})
        else:
            t = "N" if hashable else rnd.choice(["N", "NB", "NB"])
            members.append({"name": n, "decl": f"{t} {n};", "zero": False, "kind": "nested:" + t})

    zeros("first", 0.35)
    nparts = rnd.randint(2, 4) if not thorough else rnd.randint(2, 6)
    have_run = False
    for i in range(nparts):
        if i:
            zeros("between", 0.45)
        if rnd.random() < 0.6 or (i == nparts - 1 and not have_run):
            run()
            have_run = True
        else:
            ordinary()
    zeros("last", 0.35)
    if not any(m["zero"] for m in members):
        zero("last")
    return members


def struct_text(name, members):
    return f"struct {name} {{ {' '.join(m['decl'] for m in members)} }};"


CONTAINERS = {"T": "", "O": "struct O { uint8 pre; T t; uint16 post; };", "A": "struct A { T ts[2]; uint8 post; };"}


def paths_of(kind, names):
    if kind == "T":
        return [(n,) for n in names]
    if kind == "O":
        return [("pre",)] + [("t", n) for n in names] + [("post",)]
    return [("ts", i, n) for i in (0, 1) for n in names] + [("post",)]


def groups_of(kind, names):
    """whole-member assignments: path -> indexes of the leaves below it"""
    n = len(names)
    if kind == "O":
        return [(("t",), list(range(1, 1 + n)))]
    if kind == "A":
        return [(("ts", i), list(range(i * n, (i + 1) * n))) for i in (0, 1)]
    return []


def getp(x, path):
    for p in path:
        x = x[p] if isinstance(p, int) else getattr(x, p)
    return x


def setp(x, path, v):
    x = getp(x, path[:-1])
    if isinstance(path[-1], int):
        x[path[-1]] = v
    else:
        setattr(x, path[-1], v)


def ptext(var, path):
    return var + "".join(f"[{p}]" if isinstance(p, int) else f".{p}" for p in path)


def leaves(x, paths):
    return [impl.canon(getp(x, p)) for p in paths]


def bit_owner(C, size, paths):
    """owner[i] = index of the leaf whose parsed value depends on input bit i (None: padding / unused bits); None when one bit moves two"""
    zero = leaves(C(bytes(size)), paths)
    owner = []
    for i in range(size * 8):
        raw = bytearray(size)
        raw[i // 8] |= 1 << (i % 8)
        vals = leaves(C(bytes(raw)), paths)
        ch = [k for k in range(len(vals)) if vals[k] != zero[k]]
        if len(ch) > 1:
            return None
        owner.append(ch[0] if ch else None)
    return owner


def mask_of(owner, ks, size):
    m = bytearray(size)
    for i, o in enumerate(owner):
        if o is not None and o in ks:
            m[i // 8] |= 1 << (i % 8)
    return bytes(m)


def band(a, b):
    return bytes(x & y for x, y in zip(a, b))


def bxor(a, b):
    return bytes(x ^ y for x, y in zip(a, b))


def bnot(a):
    return bytes(x ^ 0xFF for x in a)


def hash_of(x):
    try:
        return hash(x)
    except TypeError:
        return "unhashable"


def show(v):
    r = repr(v)
    return r if len(r) < 120 else r[:117] + "..."


# ------------------------------------------------------------------------------------------------ building

def build(dc, rnd, members, endian, align, compiled, how):
    """-> (cs, script): the definition made the chosen way; script = the calls, for the replay"""
    cs = dc.cstruct(endian=endian)
    script = [f"cs = cstruct(endian={endian!r})"]

    def load(text, **kw):
        script.append(f"cs.load({text!r}" + "".join(f", {k}={v}" for k, v in kw.items()) + ")")
        cs.load(text, **kw)

    load(PRE + EMPTIES)
    load(NESTED, align=align, compiled=compiled)
    if how == "load":
        load(struct_text("T", members), align=align, compiled=compiled)
    else:
        j = rnd.randint(0, len(members) - 1)
        load(struct_text("T", members[:j]), align=align, compiled=compiled)
        T = cs.T
        tail = []
        for i, m in enumerate(members[j:]):
            load(struct_text(f"H{i}", [m]), align=align)
            f = getattr(cs, f"H{i}").__fields__[0]
            tail.append((m["name"], f.type, f.bits, f"cs.H{i}.__fields__[0]"))
        if how == "add_field":
            for n, t, b, src in tail:
                script.append(f"cs.T.add_field({n!r}, {src}.type, bits={b!r})")
                T.add_field(n, t, bits=b)
        else:
            script.append("with cs.T.start_update():")
            with T.start_update():
                for n, t, b, src in tail:
                    script.append(f"    cs.T.add_field({n!r}, {src}.type, bits={b!r})")
                    T.add_field(n, t, bits=b)
    load(CONTAINERS["O"] + "\n" + CONTAINERS["A"], align=align, compiled=compiled)
    return cs, script


def dump_ways(x, rnd, align, size):
    """the dump through the other entry points: bytes(x), x.write(empty stream), x.write(stream behind a prefix)"""
    out = [("bytes(x)", bytes(x))]
    fh = io.BytesIO()
    x.write(fh)
    out.append(("x.write(fh)", fh.getvalue()))
    k = 16 * rnd.randint(1, 2) if align else rnd.randint(1, 9)
    fh = io.BytesIO()
    fh.write(b"\xA5" * k)
    x.write(fh)
    v = fh.getvalue()
    out.append((f"x.write(fh) behind {k} bytes", v[k:] if v[:k] == b"\xA5" * k else v))
    return out


# ------------------------------------------------------------------------------------------------ checks

def check_container(res, viol, rnd, cs, kind, members, cd0, align, thorough):
    C = getattr(cs, kind)
    names = [m["name"] for m in members]
    paths = paths_of(kind, names)
    nT = len(names)
    zero_leaf = [False] * len(paths)
    for k, p in enumerate(paths):
        if p[-1] in names and len(p) == {"T": 1, "O": 2, "A": 3}[kind]:
            zero_leaf[k] = members[names.index(p[-1])]["zero"]
    cd0 = {**cd0, "container": kind + (": " + CONTAINERS[kind] if CONTAINERS[kind] else "")}
    try:
        size = len(C)
        got = [f._name for f in cs.T.__fields__]
        if got != names:
            viol(f"the class does not have the declared fields: {got} for {names}", cd0)
            return
        owner = bit_owner(C, size, paths)
    except Exception as e:  # noqa: BLE001
        viol(f"a structure with zero-sized members cannot be sized / parsed: {type(e).__name__}: {e}", cd0)
        return
    if owner is None:
        res.feat("v9b:bit-owner-ambiguous")
        masks = None
    else:
        masks = [mask_of(owner, {k}, size) for k in range(len(paths))]
        for k in range(len(paths)):
            if zero_leaf[k] and any(masks[k]):
                viol(f"the value of the zero-sized member {ptext('x', paths[k])} depends on input bits {masks[k].hex()}", cd0)
                return
    bases = [bytes(size), b"\xff" * size, rand_bytes(rnd, size), bytes(rnd.getrandbits(8) for _ in range(size))]
    if thorough:
        bases.append(rand_bytes(rnd, size))
    for bi, base in enumerate(bases):
        cd = {**cd0, "data": base.hex()}
        try:
            x = C(base)
            lx = leaves(x, paths)
        except Exception as e:  # noqa: BLE001
            viol(f"parsing raises {type(e).__name__}: {e}", cd)
            continue
        try:
            before = x.dumps()
        except Exception as e:  # noqa: BLE001
            viol(f"dumps() of a parsed instance raises {type(e).__name__}: {e}", cd)
            continue
        res.count((cd0["script"], kind, base, "dump"), True)
        if len(before) != size:
            viol(f"len(x.dumps()) is {len(before)} but len({kind}) is {size} (dump {before.hex()})", cd)
            continue
        if masks is not None:
            owned = mask_of(owner, set(range(len(paths))), size)
            if band(before, owned) != band(base, owned):
                viol(f"the dump of a parsed instance differs from its input in bits that fields are read from: input {base.hex()}, dump {before.hex()}, "
                     f"bits read {owned.hex()}", cd)
                continue
        try:
            back = leaves(C(before), paths)
        except Exception as e:  # noqa: BLE001
            viol(f"the dump {before.hex()} cannot be parsed: {type(e).__name__}: {e}", cd)
            continue
        if back != lx:
            k = next(i for i in range(len(paths)) if back[i] != lx[i])
            viol(f"the dump does not re-parse to the instance's values: {ptext('x', paths[k])} is {show(getp(x, paths[k]))}, the dump {before.hex()} holds "
                 f"{show(getp(C(before), paths[k]))}", cd)
            continue
        try:
            for how, d in dump_ways(x, rnd, align, size):
                if d != before:
                    viol(f"{how} gives {d.hex()} but x.dumps() {before.hex()}", cd)
        except Exception as e:  # noqa: BLE001
            viol(f"bytes(x) / x.write(fh) raises {type(e).__name__}: {e}", cd)
        # ---- assignment of every leaf, and of the whole T members of the containers
        targets = [(paths[k], [k]) for k in range(len(paths))] + groups_of(kind, names)
        for path, ks in targets:
            mask = mask_of(owner, set(ks), size) if masks is not None else None
            mode = rnd.choice(["ones", "zeros", "random", "invert", "invert"])
            if mode == "invert" and mask is not None:
                donor_raw = bxor(base, mask)
            elif mode == "ones":
                donor_raw = b"\xff" * size
            elif mode == "zeros":
                donor_raw = bytes(size)
            else:
                donor_raw = bytes(rnd.getrandbits(8) for _ in range(size))
            what = f"{ptext('y', path)} = {ptext(kind + '(bytes.fromhex(' + repr(donor_raw.hex()) + '))', path)}"
            ce = {**cd, "assignment": what, "y": f"{kind}(bytes.fromhex({base.hex()!r}))"}
            try:
                donor = C(donor_raw)
                v = getp(donor, path)
                ld = leaves(donor, paths)
                y = C(base)
            except Exception as e:  # noqa: BLE001
                viol(f"parsing raises {type(e).__name__}: {e}", ce)
                continue
            try:
                setp(y, path, v)
                after = y.dumps()
            except Exception as e:  # noqa: BLE001
                viol(f"{what} (value {show(v)}), then dumps(): raises {type(e).__name__}: {e}", ce)
                continue
            res.count((cd0["script"], kind, base, path, donor_raw), True)
            zs = all(zero_leaf[k] for k in ks)
            res.feat("v9b:assign:" + ("zero-sized" if zs else "whole-member" if len(ks) > 1 else "field"))
            if len(after) != size:
                viol(f"after {what} (value {show(v)}) the dump is {len(after)} bytes ({after.hex()}), len({kind}) is {size}", ce)
                continue
            if mask is not None:
                outside = band(bxor(after, before), bnot(mask))
                if any(outside):
                    viol(f"{what} (value {show(v)}) changed bits outside the field: dump {before.hex()} -> {after.hex()}, the field's bits are "
                         f"{mask.hex()}, bits changed outside {outside.hex()}", ce)
                    continue
                if band(after, mask) != band(donor_raw, mask):
                    viol(f"{what} (value {show(v)}) did not store the value: dump {before.hex()} -> {after.hex()}, the field's bits {mask.hex()} should "
                         f"hold {band(donor_raw, mask).hex()}", ce)
                    continue
            want = list(lx)
            for k in ks:
                want[k] = ld[k]
            try:
                back = leaves(C(after), paths)
            except Exception as e:  # noqa: BLE001
                viol(f"after {what} the dump {after.hex()} cannot be parsed: {type(e).__name__}: {e}", ce)
                continue
            if back != want:
                k = next(i for i in range(len(paths)) if back[i] != want[i])
                viol(f"after {what} (value {show(v)}) the dump {after.hex()} (before: {before.hex()}) re-parses with {ptext('y', paths[k])} = "
                     f"{show(getp(C(after), paths[k]))}" + (", a field that was not assigned" if k not in ks else ", not the assigned value"), ce)
        if kind == "T":
            value_laws(res, viol, rnd, C, names, members, paths, masks, owner, size, x, lx, base, before, cd, cd0)


def value_laws(res, viol, rnd, T, names, members, paths, masks, owner, size, x, lx, base, before, cd, cd0):
    n = len(names)
    try:
        vals = [getattr(x, nm) for nm in names]
    except Exception as e:  # noqa: BLE001
        viol(f"reading the fields raises {type(e).__name__}: {e}", cd)
        return
    made = []
    try:
        made.append(("T(**fields)", T(**dict(zip(names, vals)))))
        made.append(("T(*fields)", T(*vals)))
        a = T()
        for nm, v in zip(names, vals):
            setattr(a, nm, v)
        made.append(("T() with every field assigned", a))
    except Exception as e:  # noqa: BLE001
        viol(f"construction from the parsed values raises {type(e).__name__}: {e}", cd)
        return
    try:
        truth = any([bool(v) for v in vals])
    except Exception as e:  # noqa: BLE001
        viol(f"bool() of a field value raises {type(e).__name__}: {e}", cd)
        return
    for how, m in [("parsed", x)] + made:
        res.count((cd0["script"], base, how), True)
        try:
            if leaves(m, paths) != lx:
                viol(f"{how}: the fields do not hold the values given", cd)
                continue
            if not (m == x) or (m != x) or not (x == m) or (x != m):
                viol(f"{how} holds the parsed instance's field values but is not == to it", cd)
            hm, hx = hash_of(m), hash_of(x)
            if hm == "unhashable" or hx == "unhashable":
                res.feat("v9b:unhashable")
                if (hm == "unhashable") != (hx == "unhashable"):
                    viol(f"{how} and the parsed instance are equal but only one of them is hashable", cd)
            else:
                res.feat("v9b:hashable")
                if hm != hx:
                    viol(f"{how} is == to the parsed instance but hashes differently", cd)
            if bool(m) != truth:
                viol(f"bool({how}) is {bool(m)} but any(bool(field)) is {truth}", cd)
            d = m.dumps()
            if d != before:
                viol(f"{how} dumps to {d.hex()}, the parsed instance with the same values to {before.hex()}", cd)
        except Exception as e:  # noqa: BLE001
            viol(f"{how}: == / hash / bool / dumps raises {type(e).__name__}: {e}", cd)
    # default instance, partial construction
    try:
        dflt = T()
        d0 = dflt.dumps()
        if d0 != bytes(size):
            viol(f"T().dumps() is {d0.hex()}, not len(T) = {size} zero bytes", cd0)
        zero_leaves = leaves(T(bytes(size)), paths)
        if leaves(dflt, paths) != zero_leaves:
            k = next(i for i in range(n) if leaves(dflt, paths)[i] != zero_leaves[i])
            viol(f"T().{names[k]} is {show(getattr(dflt, names[k]))}, the zero value (parsed from zero bytes) is {show(getattr(T(bytes(size)), names[k]))}", cd0)
        kpos = rnd.choice([0, 0, rnd.randint(0, n)])
        if kpos == 1:
            kpos = 2 if n >= 2 else 0  # a single positional bytes-like argument means "parse this"
        chosen = list(range(kpos)) + [i for i in range(kpos, n) if rnd.random() < 0.5]
        p = T(*vals[:kpos], **{names[i]: vals[i] for i in chosen if i >= kpos})
        q = T()
        for i in chosen:
            setattr(q, names[i], vals[i])
        res.count((cd0["script"], base, "partial", tuple(chosen)), True)
        desc = f"T({', '.join([names[i] + '=..' if i >= kpos else '..' for i in chosen])}) with the values of the parsed instance"
        want = [lx[i] if i in chosen else zero_leaves[i] for i in range(n)]
        if leaves(p, paths) != want:
            k = next(i for i in range(n) if leaves(p, paths)[i] != want[i])
            viol(f"{desc}: field {names[k]} is {show(getattr(p, names[k]))}" + ("" if k in chosen else " although it was not given"), cd)
        elif not (p == q) or p != q or p.dumps() != q.dumps():
            viol(f"{desc} differs from T() with those fields assigned (==: {p == q}, dumps {p.dumps().hex()} / {q.dumps().hex()})", cd)
        elif masks is not None:
            m = mask_of(owner, set(chosen), size)
            if p.dumps() != band(before, m):
                viol(f"{desc} dumps to {p.dumps().hex()}; the given fields' bits of the parsed dump are {band(before, m).hex()} (unspecified fields: zero)", cd)
    except Exception as e:  # noqa: BLE001
        viol(f"default / partial construction raises {type(e).__name__}: {e}", cd)
    # a pair differing in one owned bit is unequal
    if masks is not None:
        cand = [i for i, o in enumerate(owner) if o is not None]
        for i in rnd.sample(cand, min(len(cand), 3)):
            raw2 = bytearray(base)
            raw2[i // 8] ^= 1 << (i % 8)
            try:
                x2 = T(bytes(raw2))
                res.count((cd0["script"], base, "differing", i), True)
                if leaves(x2, paths) != lx and ((x2 == x) or not (x2 != x)):
                    viol(f"instances differing in field {names[owner[i]]} (inputs {base.hex()} / {bytes(raw2).hex()}) compare equal", cd)
            except Exception as e:  # noqa: BLE001
                viol(f"parse / == raises {type(e).__name__}: {e}", cd)


def run(env, res, viol, rnd, reps):
    dc = impl.dc()
    thorough = env["tier"] != "quick"
    for rep in range(reps):
        endian = "<>"[rep % 2]
        align = (rep // 2) % 2 == 1
        compiled = (rep // 4) % 2 == 1
        how = rnd.choice(["load", "load", "load", "add_field", "start_update"])
        cap = 64 if thorough else 40   # bytes: the one-bit sweep of the reader is quadratic in the size
        cd0 = None
        for _ in range(6):
            members = gen_def(rnd, align, thorough)
            cd0 = {"members": struct_text("T", members), "endian": endian, "align": align, "compiled": compiled, "how": how}
            try:
                cs, script = build(dc, rnd, members, endian, align, compiled, how)
                if len(cs.T) <= cap:
                    break
                cd0 = None
            except Exception as e:  # noqa: BLE001
                viol(f"a definition with zero-sized members is rejected: {type(e).__name__}: {e}", cd0)
                cd0 = None
                break
        if cd0 is None:
            continue
        cd0["script"] = "\n".join(script)
        res.feat("v9b:" + ("aligned" if align else "packed") + "," + ("compiled" if compiled else "interpreted") + "," + endian)
        res.feat("v9b:how:" + how)
        for m in members:
            if m["zero"]:
                res.feat("v9b:zero:" + m["kind"])
                res.feat("v9b:where:" + m["where"])
        kinds = ["T", rnd.choice(["O", "A"])] if not thorough else ["T", "O", "A"]
        for kind in kinds:
            before = len(res.violations)
            check_container(res, viol, rnd, cs, kind, members, cd0, align, thorough)
            if len(res.violations) != before:
                break
