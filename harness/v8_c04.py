"""C04 family (round 7): size agreement and C layout of aggregates that were EXTENDED after their first definition.

A case is a history on ONE cstruct instance (impl.Session, so a failing case is a script):

    1. a generated fixed-size member list `fields` (defs.Gen: scalars of every table type and alias, enums, pointers, fixed
       arrays, nested / anonymous structs and unions, bit-field runs) of a struct (or, less often, a union) is loaded in one
       go under the name F: F is only the donor of the real member type objects (F.__fields__[i].type / .bits),
    2. the first k >= 1 members are loaded FROM TEXT under the name T (cs.load, compiled or interpreted, packed or aligned),
    3. the remaining members are appended to T in a random sequence of steps:
         "add"    one T.add_field(...) outside a batch (commits at once),
         "batch"  `with T.start_update():` around 1..3 add_field calls (one commit when the block ends),
         "empty"  `with T.start_update(): pass` (a commit that changes nothing),
       the cut may fall inside a run of bit-fields that share a storage unit.

After a commit (every one of them or only some, so that T is sometimes used between the steps and sometimes not) T is a
fixed-size definition like any other and the property's predicates are evaluated on it:

    layout   size / alignment / member offsets = the C rule (refimpl) for the members declared so far, = ctypes (platform
             ABI), = the Lean model's layout (final state), via the props module's `evaluate` (the same code that judges
             one-shot definitions); unions: size and alignment by the C rule,
    sizes    len(T) = sizeof(T) in an expression = bytes consumed by parsing (stream position, at offset 0 and at a later,
             suitably aligned offset; random input, zero input as fallback) = len(dumps()); T[3] consumes and dumps 3*len(T),
    users    definitions loaded AFTER the extension see the extended type: `struct Z { char z[sizeof(T)]; uint8 t; }` has
             len(T)+1 bytes; `struct W { p; T t; q; }` (or T t[n]) has the C layout for the extended T and agreeing sizes.

Everything the library is asked to do here must succeed (the member lists are valid at every commit point according to
refimpl): an exception from load / add_field / start_update / parse / dump is a reported violation, not a harness crash.

Not probed (documented, not silenced): objects created BEFORE an extension (an array type T[3] or a structure that embeds T
keeps the size it computed at its own creation) - the property speaks about definitions, and a definition made earlier
is a definition of the earlier T; explicit `offset=` arguments of add_field (no C declaration gives such a layout);
dynamic members (the size clause is about fixed-size types).
"""
from __future__ import annotations

import io

from . import defs, impl, refimpl
from .structprops import rand_bytes, small_unit_bits

SCAL = defs.INT_SCALARS + defs.FLOATS + ["char", "wchar"] + defs.ALIASES


def gen_case(rnd):
    """-> dict(kind, fields, k, steps, endian, align, compiled, ptr, check_all)"""
    kind = "union" if rnd.random() < 0.15 else "struct"
    g = defs.Gen(rnd, allow_dynamic=False, allow_eof=False, max_depth=rnd.choice([0, 1, 1, 2]), max_fields=rnd.choice([2, 3, 5, 7]))
    fields = g.fields(g.max_depth, dyn=False, top=True, in_union=(kind == "union"))
    while len(fields) < 3 or rnd.random() < 0.3:
        t = ("sc", rnd.choice(SCAL))
        if rnd.random() < 0.2:
            t = ("arr", t, ("fixed", rnd.randint(1, 4)))
        fields.append({"name": g.name(), "ty": t, "bits": None})
    k = rnd.randint(1, len(fields) - 1) if rnd.random() < 0.8 else 1
    steps, i = [], k
    while i < len(fields):
        r = rnd.random()
        if r < 0.35:
            steps.append(("add", [i]))
            i += 1
        elif r < 0.92:
            n = min(len(fields) - i, rnd.choice([1, 1, 2, 2, 3]))
            steps.append(("batch", list(range(i, i + n))))
            i += n
        else:
            steps.append(("empty", []))
    if rnd.random() < 0.1:
        steps.append(("empty", []))
    return {"kind": kind, "fields": fields, "k": k, "steps": steps, "endian": rnd.choice("<>"), "align": rnd.random() < 0.5,
            "compiled": rnd.random() < 0.6, "ptr": rnd.choice(["uint64", "uint32", "uint16", "uint8"]), "check_all": rnd.random() < 0.6}


def valid_prefixes(case, cfg) -> bool:
    """every state that gets committed is a valid fixed-size definition by the C rule (no straddling bit-field)"""
    ends = [case["k"]] + [idx[-1] + 1 for _, idx in case["steps"] if idx]
    try:
        for m in ends:
            s, _ = refimpl.size_align((case["kind"], case["fields"][:m]), cfg)
            if s is None:
                return False
    except refimpl.Bad:
        return False
    return True


def render_member(f) -> str:
    return defs.render_field(f, None)


def consumed(T, data: bytes, pos: int):
    """-> ('ok', value, bytes consumed) | ('err', description)"""
    s = io.BytesIO(data)
    s.seek(pos)
    try:
        v = T._read(s) if pos else T(s)
        return ("ok", v, s.tell() - pos)
    except Exception as e:  # noqa: BLE001
        return ("err", f"{type(e).__name__}: {e}"[:160])


def agreement(H, cs, T, name, rnd, align):
    """the size clause on the named fixed-size type T and on T[3].  -> list of (description, extra case data)"""
    out = []
    try:
        n_ = len(T)
    except Exception as e:  # noqa: BLE001
        return [(f"len({name}) raises {type(e).__name__}: {e}", {})]
    al = T.alignment or 1
    for k in (None, 3):
        try:
            t = T if k is None else T[k]
            got = {"len": len(t)}
        except Exception as e:  # noqa: BLE001
            out.append((f"{name}[{k}] cannot be made or sized: {type(e).__name__}: {e}", {}))
            continue
        want = n_ if k is None else n_ * k
        if k is None:
            got["sizeof"] = H.sizeof_expr(cs, name)
        # offset 0 and a later offset at which a C object of this type may live (multiple of its alignment in aligned mode)
        for pos in (0, (al if align else 1) * rnd.randint(1, 3)):
            data = rand_bytes(rnd, pos + want + 9)
            r = consumed(t, data, pos)
            if r[0] != "ok":  # ill-formed UTF-16 and the like: zero bytes parse everywhere
                data = bytes(pos + want + 9)
                r = consumed(t, data, pos)
            tag = f"parsed@{pos}"
            if r[0] != "ok":
                got[tag] = r[1]
                continue
            got[tag] = r[2]
            d = impl.dump(t, r[1])
            got[f"dumped@{pos}"] = len(d[1]) if d[0] == "ok" else d
            if any(v != want for v in got.values()):
                break
        if any(v != want for v in got.values()):
            what = (f"{name}{'' if k is None else f'[{k}]'}: " + (f"element size {n_} x {k}: " if k else "")
                    + ", ".join(f"{a}={b}" for a, b in got.items()) + ": these must agree")
            out.append((what, {"input": data.hex(), "array": k}))
    return out


def union_layout(H, eng, L, tree, cfg, sigs):
    T = L.T
    size, al = refimpl.size_align(tree, cfg)
    real = (T.size, T.alignment)
    if real != (size, al):
        eng.report(f"union layout (size, alignment) {real} differs from the C rule {(size, al)}", eng.case_data(L), sigs)
    offs = [f.offset for f in T.__fields__]
    if any(o not in (None, 0) for o in offs):
        eng.report(f"union members at offsets {offs}: every member of a union starts at offset 0", eng.case_data(L), sigs)


def check_state(H, eng, res, rnd, sess, case, m, cfg, stage, final):
    """T now declares fields[:m]"""
    align, ptr = case["align"], case["ptr"]
    tree = (case["kind"], case["fields"][:m])
    L = sess.view(tree, "T", text=f"(T as extended so far: {m} members)", compiled=case["compiled"], align=align)
    sigs = H.signatures(tree, cfg, align)
    res.count(("extended", sess.script(), stage), True)
    res.feat("extended:state-examined:" + ("final" if final else "intermediate"))
    try:
        if case["kind"] == "struct":
            ref = refimpl.struct_layout(tree[1], cfg)
            H.evaluate(eng, res, rnd, L, tree, align, ptr, cfg, sigs, ref, model=final)
        else:
            union_layout(H, eng, L, tree, cfg, sigs)
        if not (align and small_unit_bits(tree)):  # F23: layout and reader disagree already for the one-shot definition
            for what, extra in agreement(H, sess.cs, L.T, "T", rnd, align):
                eng.report(f"after {stage}: {what}", eng.case_data(L, stage=stage, members=[render_member(f) for f in tree[1]], **extra), sigs)
    except Exception as e:  # noqa: BLE001 - a mutated library may hand out classes of another shape
        eng.report(f"after {stage}: examining T raises {type(e).__name__}: {e}", eng.case_data(L, stage=stage), sigs)
    return L, tree, sigs


def users(H, eng, res, rnd, sess, case, tree, cfg):
    """definitions loaded after the extension that mention T"""
    align, ptr, T = case["align"], case["ptr"], sess.cs.T
    if align and small_unit_bits(tree):
        return
    if rnd.random() < 0.5:
        res.feat("extended:user:sizeof-in-array-length")
        res.count(("extended-user-Z", sess.script()), True)
        try:
            sess.load_text("struct Z { char z[sizeof(T)]; uint8 t; };", compiled=case["compiled"], align=align)
            got, want = len(sess.cs.Z), len(T) + 1
        except Exception as e:  # noqa: BLE001
            got, want = f"{type(e).__name__}: {e}", "a definition"
        if got != want:
            eng.report(f"struct Z {{ char z[sizeof(T)]; uint8 t; }} loaded after the extension: len(Z)={got}, expected len(T)+1={want}",
                       {"history": list(sess.steps), "repro": sess.script()}, H.signatures(tree, cfg, align))
    if rnd.random() < 0.5:
        n = rnd.choice([None, None, 2, 3])
        member = {"name": "t", "ty": tree if n is None else ("arr", tree, ("fixed", n)), "bits": None, "ref": ("T", align)}
        wtree = ("struct", [{"name": "p", "ty": ("sc", rnd.choice(SCAL)), "bits": None}, member,
                            {"name": "q", "ty": ("sc", rnd.choice(SCAL)), "bits": None}])
        res.feat("extended:user:embedding-struct" + ("" if n is None else ":array"))
        res.count(("extended-user-W", sess.script(), n), True)
        sigs = H.signatures(wtree, cfg, align)
        try:
            LW = sess.load(wtree, "W", compiled=case["compiled"], align=align, text=defs.render_struct_refs("W", wtree))
        except Exception as e:  # noqa: BLE001
            eng.report(f"a structure that embeds the extended T is rejected: {type(e).__name__}: {e}", {"history": list(sess.steps), "repro": sess.script()}, sigs)
            return
        try:
            H.evaluate(eng, res, rnd, LW, wtree, align, ptr, cfg, sigs, refimpl.struct_layout(wtree[1], cfg), model=True)
            for what, extra in agreement(H, sess.cs, LW.T, "W", rnd, align):
                eng.report(f"structure embedding the extended T: {what}", eng.case_data(LW, **extra), sigs)
        except Exception as e:  # noqa: BLE001
            eng.report(f"examining a structure that embeds the extended T raises {type(e).__name__}: {e}", eng.case_data(LW), sigs)


def run_case(H, eng, res, rnd, case):
    align, ptr, compiled, fields, k = case["align"], case["ptr"], case["compiled"], case["fields"], case["k"]
    cfg = refimpl.Cfg(case["endian"], align, ptr, impl.CONSTS)
    if not valid_prefixes(case, cfg):
        res.feat("extended:skipped:invalid-by-the-C-rule")
        return
    sess = impl.Session(endian=case["endian"], pointer=ptr)
    full = (case["kind"], fields)
    try:
        sess.load(full, "F", compiled=compiled, align=align)  # donor of the member types
        F = sess.cs.F
        donors = [(f.name, f.type, f.bits) for f in F.__fields__]
        if len(donors) != len(fields):
            raise ValueError(f"{len(donors)} members for {len(fields)} declarations")
    except Exception as e:  # noqa: BLE001 - (the one-shot families report a valid definition that is rejected)
        res.feat("extended:skipped:one-shot-definition-rejected:" + type(e).__name__)
        return
    try:
        sess.load((case["kind"], fields[:k]), "T", compiled=compiled, align=align)
    except Exception as e:  # noqa: BLE001
        eng.report(f"definition is rejected with {type(e).__name__}: {e}", {"history": list(sess.steps), "repro": sess.script()},
                   H.signatures((case["kind"], fields[:k]), cfg, align))
        return
    T = sess.cs.T
    res.feat(f"extended:case:{case['kind']}:{'compiled' if compiled else 'interpreted'}:{'aligned' if align else 'packed'}")
    if compiled and not getattr(T, "__compiled__", False):
        res.feat("extended:case:compiled-requested-but-interpreted")
    nsteps = len(case["steps"])
    if case["check_all"]:
        check_state(H, eng, res, rnd, sess, case, k, cfg, "the first definition", False)

    def call(i, indent=""):
        nm, ty, bits = donors[i]
        sess.note(f"{indent}cs.T.add_field({nm!r}, cs.F.__fields__[{i}].type, bits={bits!r})  # {render_member(fields[i])}")
        T.add_field(nm, ty, bits=bits)

    m = k
    for no, (how, idx) in enumerate(case["steps"]):
        res.feat(f"extended:step:{how}" + (f":{len(idx)}" if how == "batch" else ""))
        if any(fields[i]["bits"] for i in idx):
            res.feat("extended:step:adds-bit-field" + (":continuing-a-unit" if idx[0] > 0 and fields[idx[0]]["bits"] and fields[idx[0] - 1]["bits"] else ""))
        try:
            if how == "add":
                call(idx[0])
            else:
                sess.note("with cs.T.start_update():" + ("" if idx else " pass"))
                with T.start_update():
                    for i in idx:
                        call(i, "    ")
        except Exception as e:  # noqa: BLE001
            eng.report(f"extending T by valid fixed-size members ({how}) raises {type(e).__name__}: {e}",
                       {"history": list(sess.steps), "repro": sess.script(), "members": [render_member(fields[i]) for i in idx]},
                       H.signatures((case["kind"], fields[:idx[-1] + 1] if idx else fields[:m]), cfg, align))
            return
        m = idx[-1] + 1 if idx else m
        last = no == nsteps - 1
        if case["check_all"] or last:
            stage = f"step {no + 1} of {nsteps} ({how}" + (f", {len(idx)} member{'s' if len(idx) > 1 else ''}" if idx else "") + ")"
            L, tree, sigs = check_state(H, eng, res, rnd, sess, case, m, cfg, stage, last)
    users(H, eng, res, rnd, sess, case, (case["kind"], fields), cfg)


def run(H, eng, res, rnd, tier):
    n = 260 if tier == "quick" else 7000
    for _ in range(n):
        run_case(H, eng, res, rnd, gen_case(rnd))
        if len(eng.lines) > 4000:
            eng.flush()
    eng.flush()
