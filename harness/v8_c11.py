"""C11, round 8: ANONYMOUS MEMBERS BELOW A NAMED MEMBER of a union.

    struct hdr { uint8 tag; struct { uint8 lo; struct { uint16 x; int8 y; }; uint8 hi; }; union { uint16 a; uint8 b[3]; }; uint8 tail; };
    union U { hdr h; uint8 raw[9]; uint32 w; struct { uint16 p; uint8 q; } s; };

The union has (at least) one NAMED structure member whose definition contains an anonymous structure or an anonymous union - one,
two or three levels of them: anonymous inside anonymous inside the named member, a named structure inside the anonymous part, a
named structure (with an anonymous part of its own) next to it - and one to three plain members next to it (integers of all widths,
floats, char, enums, arrays of those, a byte array covering the union, a structure with named fields only, an anonymous structure
placed directly in the union, sometimes a second structure with an anonymous part).  The fields of the anonymous parts are reached
the way a user reaches them: through the forwarded attributes of the named member (`u.h.lo`, `u.h.x`, `u.h.a`).

Per case (all choices from the module's seeded PRNG, own stream): member order shuffled; the structure types declared inline,
as named top-level types (`struct H1 {...}; union U { H1 h; ... }`) or as typedefs (`typedef struct {...} H1;`); byte order < / >;
packed / aligned; interpreted / compiled; the union parsed from random or sparse bytes (bytes object or file-like stream with bytes
behind it), default-constructed (`U()`, all zero), or parsed as the member `U u` between two scalars of an outer structure.
History of 1-6 steps:
  leaf            a field below the named member is assigned (`u.h.tag = v`, `u.h.lo = v` with lo in the anonymous part, `u.h.x = v`
                  two anonymous levels down, `u.h.a = v` a member of an anonymous union, `u.h.n.f = v` below a nested named structure);
                  the fields are integers, floats, chars, enum / flag values, arrays of them (assigned as a whole);
  other           a field of another member: scalar / array member of the union itself, a field of a plain structure member, a
                  forwarded field of an anonymous structure placed directly in the union, the covering byte array;
  whole           `u.h = H(fresh bytes)`: a structure member is assigned a value parsed from fresh bytes;
  reassign-own    `u.h = u.h`.
Reference (no library code): a byte buffer kept here.  The layout of every field is computed with the textbook rule
(harness/refimpl.py: C offsets / alignment, union = largest member rounded up to its alignment in aligned mode).  An assignment
through top-level member m writes the field's encoding (computed here: to_bytes / struct.pack / the bytes themselves) at its offset
and leaves every other data byte of the buffer as it was; bytes that are padding inside m are zero afterwards (m is re-serialised
as a whole - the convention of the main C11 loop, `ref[:len(enc)] = enc`).
After parsing (no assignment at all) and after every step:
  * every member of the union == the reference parse (refimpl) of its type from the reference bytes;
  * `u.dumps()` has len(U) bytes and equals the reference bytes at every bit that carries data in some member;
  * `bytes(u.m)` of every named structure member == the member's reference bytes (data bits);
  * the assigned field and two more fields, read back through their forwarded attributes, == their reference decoding;
  * embedded variant: `t.dumps()` of the outer structure == its input with the union's bytes replaced by the reference bytes;
  * size: len(U) == largest member rounded up to the union's alignment in aligned mode, parsing consumes exactly len(U).
Histories of unions without a nested union, parsed (not default-constructed), are also sent to the Lean model (`unionhist`).

Domain (kept outside the known findings, nothing else is excluded):
  * F9F10: the member the union is dumped through (the first largest member that is not an anonymous structure) must cover every
    data byte of every member - and the same for every anonymous union below the named member.  Where a drawn shape does not (a
    padded structure next to a byte array in aligned mode, ...), a byte array `uint8 cover[len(U)]` is put in front of the members;
    shapes that still do not qualify are redrawn (`anon-below-named:redrawn:F9F10`).
  * F56 / unions nested in unions: the anonymous unions below the named member have scalar / array members only (no structure
    inside a nested union), no union is a direct member of the union, no anonymous union directly in the union (F44's neighbourhood).
  * F49: array elements are never changed in place; arrays are assigned as a whole.
  * NaN patterns in float slots (Python floats do not keep the payload; outside the domain as in C01/C02): initial contents are
    redrawn until no float slot holds one, assigned floats are never NaN, and a history ends when an assignment through an
    overlapping member produces one (`anon-below-named:history-ends:NaN-pattern`).
  * bit-fields, pointers, wchar, dynamically sized members: covered by other probes / properties, not generated here.
"""
from __future__ import annotations

import io
import struct as _struct

from . import defs, impl, refimpl
from .common import A, sx
from .structprops import has, union_dump_incomplete

S = lambda n: ("sc", n)  # noqa: E731
F = lambda n, t: {"name": n, "ty": t, "bits": None}  # noqa: E731
INTS = ["uint8", "int8", "uint16", "int16", "uint32", "int32", "uint64", "int64", "uint24", "int24", "uint48", "int48", "uint8", "uint16"]
FLOATS = ["float16", "float", "double"]
PACK = {"float16": "e", "float": "f", "double": "d"}
ENUMS = ["E8", "F16", "E32"]


# ------------------------------------------------------------------------------------------------ generator

class Names:
    """unique field names over the whole definition (the fields of anonymous parts are folded into their parents)"""
    POOL = ["tag", "lo", "hi", "len", "kind", "flags", "seq", "id", "off", "cnt", "x", "y", "z", "a", "b", "c", "d", "val", "crc", "ver",
            "typ", "sub", "ext", "pad", "low", "high", "p", "q", "r", "w", "k", "m", "n", "t", "v", "aux", "res", "opt", "code", "mark"]

    def __init__(self, rnd):
        self.pool = list(self.POOL)
        rnd.shuffle(self.pool)
        self.n = 0

    def __call__(self):
        self.n += 1
        return self.pool.pop() if self.pool else f"f{self.n}"


def scalar_ty(rnd):
    r = rnd.random()
    if r < 0.08:
        return S(rnd.choice(FLOATS))
    if r < 0.17:
        return ("enum", rnd.choice(ENUMS))
    if r < 0.23:
        return S("char")
    return S(rnd.choice(INTS))


def leaf_ty(rnd):
    t = scalar_ty(rnd)
    if rnd.random() < 0.2:
        return ("arr", t, ("fixed", rnd.randint(1, 3)))
    return t


def anon_member(rnd, nm, depth, stats):
    """an anonymous structure (possibly with anonymous / named aggregates inside) or an anonymous union of scalars and arrays"""
    if rnd.random() < 0.28:
        stats.add("anonymous-union")
        return F(None, ("union", [F(nm(), leaf_ty(rnd)) for _ in range(rnd.randint(2, 3))]))
    fs = [F(nm(), leaf_ty(rnd)) for _ in range(rnd.randint(1, 3))]
    if depth > 0 and rnd.random() < 0.45:
        stats.add("anonymous-in-anonymous")
        fs.insert(rnd.randint(0, len(fs)), anon_member(rnd, nm, depth - 1, stats))
    if depth > 0 and rnd.random() < 0.15:
        stats.add("named-struct-in-anonymous")
        fs.insert(rnd.randint(0, len(fs)), F(nm(), ("struct", [F(nm(), leaf_ty(rnd)) for _ in range(rnd.randint(1, 2))])))
    stats.add("anonymous-struct")
    return F(None, ("struct", fs))


def struct_fields(rnd, nm, depth, want_anon, stats):
    fs = [F(nm(), leaf_ty(rnd)) for _ in range(rnd.randint(0 if want_anon else 1, 3))]
    if want_anon:
        for _ in range(rnd.choice([1, 1, 1, 2])):
            fs.insert(rnd.randint(0, len(fs)), anon_member(rnd, nm, depth, stats))
    if depth > 0 and rnd.random() < 0.22:
        inner_anon = rnd.random() < 0.5
        stats.add("named-struct-with-anonymous-in-named" if inner_anon else "named-struct-in-named")
        fs.insert(rnd.randint(0, len(fs)), F(nm(), ("struct", struct_fields(rnd, nm, depth - 1, inner_anon, stats))))
    return fs


def gen_union(rnd, tier="quick"):
    """-> (utree, index of the named member with the anonymous part, shape statistics)"""
    nm = Names(rnd)
    stats = set()
    tcount = [0]

    def hoisted(f):
        r = rnd.random()
        if r < 0.4:
            tcount[0] += 1
            f["ref"] = (f"H{tcount[0]}", "typedef" if r < 0.12 else "struct")
        return f

    members = [hoisted(F(nm(), ("struct", struct_fields(rnd, nm, rnd.choice([0, 1, 1, 2]), True, stats))))]
    members[0]["main"] = True
    for _ in range(rnd.randint(1, 3)):
        r = rnd.random()
        if r < 0.35:
            members.append(F(nm(), scalar_ty(rnd)))
        elif r < 0.5:
            members.append(F(nm(), ("arr", scalar_ty(rnd), ("fixed", rnd.randint(1, 4)))))
        elif r < 0.7:
            members.append(hoisted(F(nm(), ("struct", struct_fields(rnd, nm, rnd.choice([0, 1]), False, stats)))))
        elif r < 0.82:
            if not any(m["name"] is None for m in members):
                stats.add("anonymous-struct-directly-in-union")
                members.append(F(None, ("struct", [F(nm(), leaf_ty(rnd)) for _ in range(rnd.randint(1, 3))])))
        else:
            stats.add("second-member-with-anonymous")
            members.append(hoisted(F(nm(), ("struct", struct_fields(rnd, nm, rnd.choice([0, 1]), True, stats)))))
    rnd.shuffle(members)
    return ("union", members), stats


def render(utree, uname="U", outer=None):
    """C text: hoisted structure types first (dependencies first), then the union, then the optional outer structure"""
    pre = []

    def body(ty):
        return " ".join(field(g) for g in ty[1])

    def field(f):
        ty, dims = f["ty"], ""
        while ty[0] == "arr":
            dims += f"[{ty[2][1]}]"
            ty = ty[1]
        if ty[0] in ("struct", "union"):
            if f.get("ref"):
                tname, style = f["ref"]
                b = body(ty)
                pre.append(f"typedef {ty[0]} {{ {b} }} {tname};" if style == "typedef" else f"{ty[0]} {tname} {{ {b} }};")
                return f"{tname} {f['name']}{dims};"
            head = f"{ty[0]} {{ {body(ty)} }}"
            return f"{head};" if f["name"] is None else f"{head} {f['name']}{dims};"
        return f"{ty[1]} {f['name']}{dims};"

    text = f"union {uname} {{\n  " + "\n  ".join(field(f) for f in utree[1]) + "\n};\n"
    text = "".join(p + "\n" for p in pre) + text
    if outer is not None:
        text += "struct T { " + " ".join(f"{uname} {f['name']};" if f["ty"] is utree else field(f) for f in outer[1]) + " };\n"
    return text


# ------------------------------------------------------------------------------------------------ reference layout

def leaves(ty, off, cfg, path=()):
    """assignable fields below a type placed at offset `off`: (path of NAMED ancestors' and own name, leaf type, absolute offset);
    anonymous levels do not appear in the path (their fields are forwarded)"""
    out = []
    if ty[0] == "struct":
        offs = refimpl.struct_layout(ty[1], cfg)["offsets"]
    elif ty[0] == "union":
        offs = [0] * len(ty[1])
    else:
        return out
    for f, o in zip(ty[1], offs):
        p = path if f["name"] is None else path + (f["name"],)
        if f["ty"][0] in ("struct", "union"):
            out += leaves(f["ty"], off + o, cfg, p)
        else:
            out.append((p, f["ty"], off + o))
    return out


def float_slots(ty, off, cfg):
    """(offset, scalar name) of every float slot below a type (arrays element by element)"""
    out = []
    if ty[0] == "sc" and ty[1] in PACK:
        out.append((off, ty[1]))
    elif ty[0] == "arr":
        es, _ = refimpl.size_align(ty[1], cfg)
        for i in range(ty[2][1]):
            out += float_slots(ty[1], off + i * es, cfg)
    elif ty[0] in ("struct", "union"):
        for p, lty, o in leaves(ty, off, cfg):
            out += float_slots(lty, o, cfg)
    return out


def nan_in(utree, buf, cfg):
    """does some float slot of some member hold a NaN pattern"""
    for f in utree[1]:
        for o, name in float_slots(f["ty"], 0, cfg):
            size = refimpl.sc(name)[1]
            if impl.flt_is_nan(int.from_bytes(buf[o:o + size], cfg.endian), size):
                return True
    return False


def rand_bytes(rnd, n, sparse):
    if sparse:
        return bytes(rnd.choice((0, 0, 0, 1, 0x80, 0xFF)) for _ in range(n))
    return bytes(rnd.randrange(1, 256) if rnd.random() < 0.9 else 0 for _ in range(n))


def pyrepr(v):
    if isinstance(v, float):
        return f"float({str(v)!r})" if v in (float("inf"), float("-inf")) else repr(v)
    return repr(v)


def rand_value(rnd, ty, cs, cfg):
    """a value for a leaf type -> (python value to assign, its encoding - computed here -, source text of the value)"""
    order = cfg.endian
    if ty[0] == "arr":
        if ty[1] == S("char"):
            b = bytes(rnd.randrange(256) for _ in range(ty[2][1]))
            return b, b, repr(b)
        parts = [rand_value(rnd, ty[1], cs, cfg) for _ in range(ty[2][1])]
        return [p[0] for p in parts], b"".join(p[1] for p in parts), "[" + ", ".join(p[2] for p in parts) + "]"
    if ty[0] == "enum":
        kind, base, mem = defs.ENUMS[ty[1]]
        _, size, signed, _ = refimpl.sc(base)
        if rnd.random() < 0.6:
            v = rnd.choice(mem)[1]
        else:
            v = rnd.randrange(-(1 << (8 * size - 1)), 1 << (8 * size - 1)) if signed else rnd.randrange(1 << (8 * size))
        return getattr(cs, ty[1])(v), v.to_bytes(size, order, signed=signed), f"cs.{ty[1]}({v})"
    kind, size, signed, _ = refimpl.sc(ty[1])
    if kind == "int":
        bits = 8 * size
        lo, hi = (-(1 << (bits - 1)), (1 << (bits - 1)) - 1) if signed else (0, (1 << bits) - 1)
        v = rnd.choice([lo, hi, 0, 1, rnd.randint(lo, hi), rnd.randint(lo, hi), rnd.randint(lo, hi)])
        return v, v.to_bytes(size, order, signed=signed), repr(v)
    if kind == "flt":
        while True:
            b = rnd.getrandbits(8 * size) if rnd.random() < 0.7 else rnd.choice([0, 1 << (8 * size - 1)])
            if not impl.flt_is_nan(b, size):
                break
        enc = b.to_bytes(size, order)
        v = _struct.unpack(("<" if order == "little" else ">") + PACK[ty[1]], enc)[0]
        return v, enc, pyrepr(v)
    if kind == "char":
        b = bytes([rnd.randrange(256)])
        return b, b, repr(b)
    raise ValueError(ty)


# ------------------------------------------------------------------------------------------------ the probe

def run(env, res, viol, rnd, dc, lines, metas):
    tier = env["tier"]
    n = 300 if tier == "quick" else 5000
    for _ in range(n):
        try:
            one_case(rnd, res, viol, dc, lines, metas, tier)
        except Exception as e:  # noqa: BLE001 - on the unchanged tree nothing below raises: the library changed its behaviour
            import traceback
            viol(f"anonymous below a named member: the probe tripped over the library: {type(e).__name__}: {e}",
                 {"traceback": traceback.format_exc()[-2500:]})


def one_case(rnd, res, viol, dc, lines, metas, tier):
    endian = rnd.choice("<>")
    align = rnd.random() < 0.5
    compiled = rnd.random() < 0.5
    cfg = refimpl.Cfg(endian, align, "uint64", impl.CONSTS)
    for _attempt in range(8):
        utree, stats = gen_union(rnd, tier)
        size, _ = refimpl.size_align(utree, cfg)
        if union_dump_incomplete(utree, cfg):
            # F9F10: the dump member has to cover every data byte - a covering byte array in front makes it so
            utree[1].insert(0, F("cover", ("arr", S("uint8"), ("fixed", size))))
            stats.add("covering-byte-array-in-front")
        elif rnd.random() < 0.25:
            utree[1].insert(rnd.randint(0, len(utree[1])), F("cover", ("arr", S("uint8"), ("fixed", size))))
            stats.add("covering-byte-array")
            if union_dump_incomplete(utree, cfg):       # the array's bytes at the padding of an earlier, equally large structure
                utree[1].insert(0, utree[1].pop(next(i for i, f in enumerate(utree[1]) if f["name"] == "cover")))
        if not union_dump_incomplete(utree, cfg):
            break
        res.feat("anon-below-named:redrawn:F9F10")
    else:
        return
    size, ualign = refimpl.size_align(utree, cfg)
    mode = rnd.choice(["bytes", "bytes", "stream", "default", "embedded"])
    outer = None
    if mode == "embedded":
        outer = ("struct", [F("pre", S(rnd.choice(["uint8", "uint16", "uint32"]))), F("u", utree), F("post", S(rnd.choice(["uint8", "uint16"])))])
    text = defs.PREAMBLE + render(utree, "U", outer)
    case = {"definition": text, "endian": endian, "align": align, "compiled": compiled, "mode": mode, "history": []}
    script = [f"from dissect.cstruct import cstruct; cs = cstruct(endian={endian!r}); cs.load({text!r}, compiled={compiled}, align={align})"]

    def cdata():
        return dict(case, history=list(case["history"]), repro="\n".join(script + ["print(u, u.dumps().hex())"]))

    try:
        cs = dc.cstruct(endian=endian)
        cs.load(text, compiled=compiled, align=align)
        U = cs.U
    except Exception as e:  # noqa: BLE001
        viol(f"anonymous below a named member: the definition is rejected: {type(e).__name__}: {e}", cdata())
        return
    for s in stats:
        res.feat("anon-below-named:shape:" + s)
    res.feat(f"anon-below-named:mode:{mode}")
    # ---- size: largest member, rounded up to the alignment in aligned mode (reference layout) - and the library's own member sizes
    msizes = [refimpl.size_align(f["ty"], cfg)[0] for f in utree[1]]
    rsizes = [rf.type.size for rf in U.__fields__]
    if U.size != size or rsizes != msizes or (align and U.alignment != ualign):
        viol(f"anonymous below a named member: len(U) is {U.size} (alignment {U.alignment}), member sizes {rsizes}; the layout rule gives "
             f"{size} (alignment {ualign}), member sizes {msizes}", cdata())
        return
    names = [rf._name for rf in U.__fields__]
    masks = [bytes(refimpl.parse(f["ty"], bytes(size), 0, cfg)[2]) for f in utree[1]]
    allmask = bytearray(size)
    for m in masks:
        for i, b in enumerate(m):
            allmask[i] |= b
    sparse = rnd.random() < 0.3
    # ---- the object
    t = None
    uoff = 0
    try:
        if mode == "default":
            ref = bytearray(size)
            case["data"] = None
            script.append("u = cs.U()")
            u = U()
            consumed = size
        else:
            for _ in range(20):
                data = rand_bytes(rnd, size, sparse)
                if not nan_in(utree, data, cfg):
                    break
            else:
                data = bytes(size)
            ref = bytearray(data)
            case["data"] = data.hex()
            if mode == "embedded":
                lay = refimpl.struct_layout(outer[1], cfg)
                uoff, tsize = lay["offsets"][1], lay["size"]
                tdata = bytearray(rand_bytes(rnd, tsize, False))
                tdata[uoff:uoff + size] = data
                tmask = bytes(refimpl.parse(outer, bytes(tsize), 0, cfg)[2])
                case["outer_data"] = bytes(tdata).hex()
                script.append(f"t = cs.T(bytes.fromhex({bytes(tdata).hex()!r})); u = t.u")
                t = cs.T(bytes(tdata))
                u = t.u
                consumed = size
            elif mode == "stream":
                tail = rand_bytes(rnd, 3, False)
                script.append(f"import io; u = cs.U(io.BytesIO(bytes.fromhex({(data + tail).hex()!r})))")
                st = io.BytesIO(data + tail)
                u = U(st)
                consumed = st.tell()
            else:
                script.append(f"u = cs.U(bytes.fromhex({data.hex()!r}))")
                u = U(data)
                consumed = size
    except Exception as e:  # noqa: BLE001
        viol(f"anonymous below a named member: parsing / constructing the union raises {type(e).__name__}: {e}", cdata())
        return
    if consumed != size:
        viol(f"anonymous below a named member: parsing consumed {consumed} bytes, the union has {size}", cdata())
        return
    all_leaves = []     # (top-level member index, path, leaf type, offset)
    for k, f in enumerate(utree[1]):
        if f["ty"][0] in ("struct", "union"):
            p0 = () if f["name"] is None else (f["name"],)
            all_leaves += [(k, p, lty, o) for p, lty, o in leaves(f["ty"], 0, cfg, p0)]
        else:
            all_leaves.append((k, (f["name"],), f["ty"], 0))
    main_k = [k for k, f in enumerate(utree[1]) if f.get("main")][0]
    with_anon = lambda ty: has(ty, lambda t_, d, x: t_[0] == "struct" and any(g["name"] is None for g in t_[1]))  # noqa: E731
    anon_k = {k for k, f in enumerate(utree[1]) if f["ty"][0] == "struct" and f["name"] is not None and with_anon(f["ty"])}
    anon_k.add(main_k)

    def read_leaf(path):
        obj = u
        for p in path:
            obj = getattr(obj, p)
        return obj

    def check(step, probe_leaves):
        cd = cdata()
        res.count(("anon-below-named", text, endian, align, compiled, mode, case["data"], tuple(case["history"])), len(case["history"]) >= 1)
        buf = bytes(ref)
        # every member == the reference parse of its type from the reference bytes
        for f, name in zip(utree[1], names):
            want = refimpl.parse(f["ty"], buf, 0, cfg)[0]
            try:
                got = impl.canon(getattr(u, name))
            except Exception as e:  # noqa: BLE001
                viol(f"anonymous below a named member: after {step}: reading member {name} raises {type(e).__name__}: {e}", cd)
                return False
            if not impl.same_val(got, want, ignore_union_buf=True):
                viol(f"anonymous below a named member: after {step}: member {f['name'] or name} is {str(got)[:200]}, the union's bytes "
                     f"{buf.hex()} make it {str(want)[:200]}", cd)
                return False
        # fields read through their forwarded attributes
        for k, path, lty, o in probe_leaves:
            want = refimpl.P(buf, cfg).value(lty, o, {})[0]
            try:
                got = impl.canon(read_leaf(path))
            except Exception as e:  # noqa: BLE001
                viol(f"anonymous below a named member: after {step}: reading u.{'.'.join(path)} raises {type(e).__name__}: {e}", cd)
                return False
            if not impl.same_val(got, want):
                viol(f"anonymous below a named member: after {step}: u.{'.'.join(path)} is {str(got)[:160]}, the bytes at offset {o} of "
                     f"{buf.hex()} make it {str(want)[:160]}", cd)
                return False
        # the dump
        try:
            d = bytes(u.dumps())
        except Exception as e:  # noqa: BLE001
            viol(f"anonymous below a named member: after {step}: dumps raises {type(e).__name__}: {e}", cd)
            return False
        if len(d) != size or any((a ^ b) & m for a, b, m in zip(d, buf, allmask)):
            viol(f"anonymous below a named member: after {step}: dumps() is {d.hex()}, the union's bytes are {buf.hex()}"
                 + (" (compared at data-carrying bits)" if any(m != 0xFF for m in allmask) else ""), cd)
            return False
        # the structure members, serialised on their own
        for f, name, m in zip(utree[1], names, masks):
            if f["ty"][0] != "struct" or f["name"] is None:
                continue
            try:
                d = bytes(getattr(u, name))
            except Exception as e:  # noqa: BLE001
                viol(f"anonymous below a named member: after {step}: bytes(u.{name}) raises {type(e).__name__}: {e}", cd)
                return False
            if len(d) != len(m) or any((a ^ b) & mm for a, b, mm in zip(d, buf, m)):
                viol(f"anonymous below a named member: after {step}: bytes(u.{name}) is {d.hex()}, the member's bytes in the union are "
                     f"{buf[:len(m)].hex()}", cd)
                return False
        if t is not None:
            try:
                d = bytes(t.dumps())
            except Exception as e:  # noqa: BLE001
                viol(f"anonymous below a named member: after {step}: dumping the outer structure raises {type(e).__name__}: {e}", cd)
                return False
            exp = bytearray(tdata)
            exp[uoff:uoff + size] = buf
            um = bytearray(tmask)
            um[uoff:uoff + size] = allmask
            if len(d) != len(exp) or any((a ^ b) & mm for a, b, mm in zip(d, exp, um)):
                viol(f"anonymous below a named member: after {step}: the outer structure dumps {d.hex()}, its bytes with the union's "
                     f"reference bytes at offset {uoff} are {bytes(exp).hex()}", cd)
                return False
        return True

    def sample_leaves(extra=()):
        pool = [l for l in all_leaves if l[0] in anon_k] or all_leaves
        return list(extra) + [rnd.choice(pool), rnd.choice(all_leaves)]

    if not check("parsing" if mode != "default" else "default construction", sample_leaves()):
        return
    ops_model, ok = [], True
    for _step in range(rnd.randint(1, 6)):
        r = rnd.random()
        kind = "leaf"
        try:
            if r < 0.1:
                # whole structure member from fresh bytes / the member's own value assigned back
                cands = [k for k, f in enumerate(utree[1]) if f["ty"][0] == "struct" and f["name"] is not None]
                k = main_k if rnd.random() < 0.6 else rnd.choice(cands)
                name, sk = names[k], msizes[k]
                if rnd.random() < 0.5:
                    kind = "reassign-own"
                    new = bytes(ref[:sk])
                    case["history"].append(f"u.{name} = u.{name}")
                    script.append(f"u.{name} = u.{name}")
                    setattr(u, name, getattr(u, name))
                else:
                    kind = "whole"
                    for _ in range(20):
                        new = rand_bytes(rnd, sk, rnd.random() < 0.4)
                        if not nan_in(("union", [utree[1][k]]), new, cfg):
                            break
                    else:
                        new = bytes(sk)
                    case["history"].append(f"u.{name} = <{name}'s type>({new.hex()})")
                    script.append(f"u.{name} = cs.U.lookup[{name!r}].type(bytes.fromhex({new.hex()!r}))")
                    setattr(u, name, U.lookup[name].type(new))
                probe = ()
            else:
                if r < 0.62:
                    pool = [l for l in all_leaves if l[0] == main_k]
                    kind = "leaf-below-the-named-member"
                elif r < 0.72:
                    pool = [l for l in all_leaves if l[0] in anon_k]
                    kind = "leaf-below-a-member-with-anonymous-part"
                else:
                    pool = [l for l in all_leaves if l[0] not in anon_k] or all_leaves
                    kind = "leaf-of-another-member"
                k, path, lty, o = rnd.choice(pool)
                name, sk = names[k], msizes[k]
                v, enc, src = rand_value(rnd, lty, cs, cfg)
                case["history"].append(f"u.{'.'.join(path)} = {src}")
                script.append(f"u.{'.'.join(path)} = {src}")
                obj = u
                for p in path[:-1]:
                    obj = getattr(obj, p)
                setattr(obj, path[-1], v)
                new = bytearray(ref[:sk])
                new[o:o + len(enc)] = enc
                probe = ((k, path, lty, o),)
                res.feat("anon-below-named:leaf-type:" + (lty[0] if lty[0] != "sc" else refimpl.sc(lty[1])[0]))
                res.feat(f"anon-below-named:path-depth:{len(path)}")
        except Exception as e:  # noqa: BLE001
            viol(f"anonymous below a named member: the assignment {case['history'][-1] if case['history'] else kind} raises "
                 f"{type(e).__name__}: {e}", cdata())
            ok = False
            break
        res.feat("anon-below-named:step:" + kind)
        # the member is re-serialised as a whole: its padding is zero afterwards, every other byte of the union stays
        ref[:sk] = bytes(b & m for b, m in zip(new, masks[k]))
        if nan_in(utree, ref, cfg):
            res.feat("anon-below-named:history-ends:NaN-pattern")
            ok = False
            break
        if not check(f"`{case['history'][-1]}`", sample_leaves(probe)):
            ok = False
            break
        try:
            ops_model.append([k, impl.canon(U.__fields__[k].type(bytes(ref[:sk])))])
        except Exception:  # noqa: BLE001
            ok = False
            break
    if case["history"]:
        res.feat(f"anon-below-named:history:length={len(case['history'])}")
    if ok and mode in ("bytes", "stream") and not has(utree, lambda t_, d, x: d > 0 and t_[0] == "union"):
        try:
            cfg_sexp = [A("cfg"), A("le" if endian == "<" else "be"), "uint64", [[A(k), v] for k, v in impl.CONSTS.items()]]
            line = sx([A("unionhist"), cfg_sexp, impl.real_ty_sexp(utree, U, align), bytes.fromhex(case["data"]), ops_model])
            meta = (cdata(), bytes(u._buf), [impl.canon(getattr(u, nm_)) for nm_ in names], bytes(u.dumps()))
        except Exception:  # noqa: BLE001 - the oracles above have had their say; a state the model cannot be asked about is not sent
            return
        lines.append(line)
        metas.append(meta)
        res.feat("anon-below-named:sent-to-model")
