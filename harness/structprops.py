"""Shared engine of the structure-level properties C01, C02, C03, C04, C06, C07, C08, C09.

For every generated definition (tree) and configuration the engine has three executable views:
  real  : the library, loaded from the rendered C text                    (impl.Loaded)
  model : the Lean model, driven through the line protocol                (driver `layout`/`read`/`write`)
  ref   : an independent textbook implementation in Python               (refimpl)
A property module selects generator options, configurations and which probes to run.
"""
from __future__ import annotations

import io
import random

from . import common, defs, impl, refimpl
from .common import A, Case, Result, parse_sexp, run_driver, sx


def rand_bytes(rnd: random.Random, n: int) -> bytes:
    mode = rnd.random()
    if mode < 0.35:
        return bytes(rnd.randrange(256) for _ in range(n))
    if mode < 0.65:
        return bytes(rnd.choice([0, 1, 2, 3, 0x7F, 0x80, 0xFF, 0x41, 0xFE]) for _ in range(n))
    if mode < 0.85:
        return bytes(rnd.choice([0, 0, 0, 1, 2, 5, 0x80]) for _ in range(n))
    return bytes(rnd.choice([1, 2, 3, 0x41, 0x7F, 0x80, 0xFF]) for _ in range(n))  # no zero byte: null-terminated arrays run long


# ------------------------------------------------------------------------------------------------ tree predicates

def walk(ty, fn, depth=0, in_union=False):
    fn(ty, depth, in_union)
    k = ty[0]
    if k in ("ptr", "arr"):
        walk(ty[1], fn, depth, in_union)
    elif k in ("struct", "union"):
        for f in ty[1]:
            walk(f["ty"], fn, depth + 1, in_union or k == "union")


def has(ty, pred) -> bool:
    found = []
    walk(ty, lambda t, d, u: found.append(1) if pred(t, d, u) else None)
    return bool(found)


def has_union(ty):
    return has(ty, lambda t, d, u: t[0] == "union")


def has_eof(ty):
    return has(ty, lambda t, d, u: t[0] == "arr" and t[2][0] == "eof")


def has_float(ty):
    return has(ty, lambda t, d, u: t[0] == "sc" and t[1] in ("float16", "float", "double"))


def has_bits(ty):
    return has(ty, lambda t, d, u: t[0] in ("struct", "union") and any(f["bits"] for f in t[1]))


def is_dynamic(ty, cfg):
    return refimpl.size_align(ty, cfg)[0] is None


def base_of(f):
    b = f["ty"][1] if f["ty"][0] == "sc" else defs.ENUMS[f["ty"][1]][1]
    return refimpl.ALIAS.get(b, b)


def signed_bit_units(ty):
    """does some bit-field run use a signed storage type (finding F3 needs the unit's top bit set in addition)"""
    return has(ty, lambda t, d, u: t[0] == "struct" and any(f["bits"] and refimpl.sc(base_of(f))[2] for f in t[1]))


def bits_after_dynamic(ty, cfg):
    """two or more consecutive bit-fields of one storage type after a dynamically sized field (finding F6)"""
    def pred(t, d, u):
        if t[0] != "struct":
            return False
        dyn = False
        prev = None
        for f in t[1]:
            if f["bits"]:
                b = base_of(f)
                if dyn and prev == b:
                    return True
                prev = b
            else:
                prev = None
                if refimpl.size_align(f["ty"], cfg)[0] is None:
                    dyn = True
        return False
    return has(ty, pred)


def small_unit_bits(ty):
    """bit-fields on a storage type whose size is smaller than its alignment (int24/uint24): finding F23 in aligned mode"""
    return has(ty, lambda t, d, u: t[0] == "struct" and any(f["bits"] and base_of(f) in ("int24", "uint24", "int48", "uint48") for f in t[1]))


def union_dump_incomplete(ty, cfg):
    """some fixed-size union whose dump member (largest non-anonymous-struct member) does not cover every data byte of
    every member (findings F9/F10)"""
    def pred(t, d, u):
        if t[0] != "union":
            return False
        size, _ = refimpl.size_align(t, cfg)
        if size is None:
            return False
        masks = []
        for f in t[1]:
            fs, _ = refimpl.size_align(f["ty"], cfg)
            if fs is None:
                return True
            try:
                _, _, m = refimpl.parse(f["ty"], bytes(size), 0, cfg)
            except (refimpl.Short, refimpl.Bad):
                return True
            masks.append(((fs, f), bytearray(m) + bytearray(size - len(m))))
        if not masks:
            return False
        order = sorted(range(len(masks)), key=lambda i: -(masks[i][0][0] or 0))
        chosen = None
        for i in order:
            f = masks[i][0][1]
            if f["ty"][0] in ("struct", "union") and f["name"] is None:
                continue
            chosen = i
            break
        if chosen is None:
            chosen = [i for i in order if masks[i][0][1]["name"] is None][-1]
        cov = masks[chosen][1]
        for _, m in masks:
            if any(mb & ~cb & 0xFF for mb, cb in zip(m, cov)):
                return True
        return False
    return has(ty, pred)


def union_anon_nested(ty):
    """a union all of whose members are anonymous aggregates, one of which has an anonymous aggregate member of its own.
    (Pending finding, reported by s1: such a union is dumped through its anonymous structure with the union object as the
    value; the nested anonymous member is not an attribute of the union object, so its fields are written as zeros.
    `union U { struct { uint16 a; struct { uint16 b; uint8 c; }; uint16 d; }; }`: U(bytes(range(1, 8))).dumps() ==
    01 02 00 00 00 06 07.)"""
    def pred(t, d, u):
        if t[0] != "union" or not t[1]:
            return False
        if not all(f["name"] is None and f["ty"][0] in ("struct", "union") for f in t[1]):
            return False
        return any(g["name"] is None and g["ty"][0] in ("struct", "union") for f in t[1] for g in f["ty"][1])
    return has(ty, pred)


# ------------------------------------------------------------------------------------------------ engine

class Engine:
    def __init__(self, env, res: Result, prop: str):
        self.env, self.res, self.prop = env, res, prop
        self.findings = {f["id"]: f for f in env["findings"]}
        self.lines: list[str] = []
        self.pending: list = []  # (callback, meta) per driver line

    # -- findings ---------------------------------------------------------------------------------------------------
    def report(self, what: str, data: dict, sigs: list[str]):
        """a property predicate failed on the real code: known finding (by case signature) or violation"""
        for s in sigs:
            if s in self.findings:
                self.res.known_seen[s] = self.res.known_seen.get(s, 0) + 1
                return
        if len(self.res.violations) < 50:
            self.res.violations.append(Case("property", what, data))

    def disagree(self, what: str, data: dict, sigs: list[str] = ()):
        for s in sigs:
            if s in self.findings:
                self.res.known_seen.setdefault(s, 0)
                return
        if len(self.res.disagreements) < 50:
            self.res.disagreements.append(Case("corr", what, data))

    # -- model ------------------------------------------------------------------------------------------------------
    def ask(self, line: str, cb, meta):
        self.lines.append(line)
        self.pending.append((cb, meta))

    def flush(self):
        if not self.lines:
            return
        if self.env["driver_ok"]:
            answers = run_driver(self.lines)
            for (cb, meta), a in zip(self.pending, answers):
                cb(parse_sexp(a), a, meta)
        self.lines, self.pending = [], []

    # -- cases ------------------------------------------------------------------------------------------------------
    def case_data(self, L: impl.Loaded, **kw):
        d = {"definition": L.text, "endian": L.endian, "align": L.align, "compiled": L.compiled, "pointer": L.pointer}
        for k, v in kw.items():
            d[k] = v.hex() if isinstance(v, (bytes, bytearray)) else v
        d["repro"] = (f"from dissect.cstruct import cstruct; cs=cstruct(endian={L.endian!r}, pointer={L.pointer!r}); "
                      f"cs.load({L.text!r}, compiled={L.compiled}, align={L.align}); T=cs.T")
        sess = getattr(L, "session", None)
        if sess is not None:
            # a view on a shared instance (impl.Session): the whole operation history is the reproduction
            d["history"] = list(sess.steps)
            d["repro"] = sess.script([f"T = cs.{L.T.__name__}"])
        return d

    def sigs(self, L: impl.Loaded, extra=()):
        """finding signatures that match this case (predicates over the definition and configuration only)"""
        out = list(extra)
        cfg = refimpl.Cfg(L.endian, L.align, L.pointer, impl.CONSTS)
        t = L.tree
        if union_dump_incomplete(t, cfg):
            out.append("F9F10")
        if L.align and small_unit_bits(t):
            out.append("F23")
        if L.align and has_eof(t):
            out.append("F30")
        if union_anon_nested(t):
            out.append("F44")
        return out

    def model_read(self, L, data, pos, want, what, sigs=()):
        """want = ('ok', canon, end, sizes) | ('err', cls)"""
        def cb(s, raw, meta):
            if want[0] == "ok":
                ok = s[0] == "ok" and impl.same_val(want[1], s[1]) and int(s[2]) == want[2] and \
                    sorted((str(k), int(v)) for k, v in s[3] if int(v)) == want[3]
            else:
                ok = s[0] == "err" and str(s[1]) == want[1]
            if not ok:
                self.disagree(f"{what}: model read gives {raw[:300]}, implementation gives {str(want)[:300]}", self.case_data(L, data=data, pos=pos), sigs)
        self.ask(sx([A("read"), L.cfg_sexp(), L.ty_sexp(), data, pos]), cb, None)

    def model_write(self, L, canon_v, want, what, sigs=()):
        def cb(s, raw, meta):
            if want[0] == "ok":
                ok = s[0] == "ok" and str(s[1]) == common.hx(want[1])
            else:
                ok = s[0] == "err" and str(s[1]) == want[1]
            if not ok:
                self.disagree(f"{what}: model write gives {raw[:300]}, implementation gives {str(want)[:300]}", self.case_data(L, value=sx(canon_v)), sigs)
        self.ask(sx([A("write"), L.cfg_sexp(), L.ty_sexp(), canon_v]), cb, None)

    def model_layout(self, L, want, sigs=()):
        def cb(s, raw, meta):
            if want[0] == "ok":
                got = (None if s[1] == "none" else int(s[1]), int(s[2]), [None if x == "none" else int(x) for x in s[3]]) if s[0] == "ok" else None
                ok = got == want[1]
            else:
                ok = s[0] == "err"
            if not ok:
                self.disagree(f"layout: model gives {raw[:300]}, implementation gives {want!r}", self.case_data(L), sigs)
        self.ask(sx([A("layout"), L.cfg_sexp(), L.ty_sexp()]), cb, None)


def real_parse(T, data, pos=0):
    r = impl.parse(T, data, pos)
    if r[0] == "ok":
        obj = r[1]
        return ("ok", impl.canon(obj), r[2], sorted((k, v) for k, v in obj._sizes.items() if v)), obj
    return r, None


def load(tree, **kw):
    try:
        return impl.Loaded(tree, **kw), None
    except Exception as e:  # noqa: BLE001
        return None, e


CONFIGS_ALL = [(e, a, c) for e in "<>" for a in (False, True) for c in (False, True)]
