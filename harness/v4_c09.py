"""C09, round 4 (v4): position independence of MIXED-ALIGNMENT definitions.

Definitions whose sub-structures are loaded with their own `align` flag on one cstruct instance (harness/s1_mixed.py, defs.hoist),
nested two to four levels deep, are parsed from the same bytes placed at start positions 0, 1, 2, 3, 5, 8 (a top-level structure
that is itself aligned: the same multiples of its alignment) behind a prefix of junk bytes, by the compiled and by the interpreted
reader, through every stream kind x call form (start position p) and every buffer kind x call form (the bytes from p onward).

Generators (`gen_case`)
  nest      directed: a chain of 1..3 packed wrappers around a structure loaded with align=True (label "nest:N levels", N = 2..4
            structures on the path, i.e. one to three levels of nesting).  Every wrapper has 1..3 small
            leading members (so that the child sits at an odd / misaligned offset), the child (a member or a fixed array of it, hoisted
            to a named definition or - wrappers only - inline) and further fixed-size members behind it; the aligned structure has
            members of mixed alignments, optionally a run of bit-fields, a fixed array, a dynamically sized member or a packed
            structure of its own.  Now and then a wrapper is aligned as well, a wrapper ends in a dynamically sized member, or the
            aligned structure is the LAST member of its wrapper.
  dynamic   s1_mixed.directed_dynamic   (aligned structure with a dynamically sized member inside a packed one, one level)
  bits      s1_mixed.directed_bits      (aligned structure with shared bit-field units inside a packed one, one level)
  hoist     random trees (defs.Gen, depth 1..3) with one more nested structure (s1_mixed.with_nested), split by
            defs.hoist(..., mixed=True): every hoisted definition draws its own flag

Oracle (`run_mixed`): the property as stated - value and number of consumed bytes do not depend on p - restricted by known finding
F43: a structure loaded with align=True aligns its dynamically placed members and its tail on the ABSOLUTE stream position.  Where
such a structure sits at a position that is not a multiple of its alignment for every p, the stream position behind it depends on
p mod alignment until some reader SEEKS again, which the readers do for every later member that has a layout offset (interpreted:
`stream.seek(struct_start + field.offset)`, compiled: `stream.seek(o + offset)`).  `Walk` follows the reader over the real classes
and the value parsed at p = 0 with an abstract stream position - a known offset / unknown but the same for every p / p-dependent -
and yields, in the shape of impl.canon(value), which parts of the value are read at a position that does not depend on p, and
whether the final position is.  Those parts (and the consumed count, if the final position is) must be equal for every p, kind and
form: anything else is a violation.  Only a difference confined to the remaining parts - members without a layout offset that are
read behind a misplaced aligned structure, elements 1.. of an array of misplaced aligned structures, the end of a value whose last
read is such a structure - is classified under F43.  Parsing the bytes from p onward on their own (buffer kinds, BytesIO at 0) is
position 0 by definition and must equal the reference exactly.
"""
from __future__ import annotations

import io

from . import defs, impl, s1_mixed
from .structprops import has_eof, rand_bytes

TAINT = "p-dependent"   # abstract stream position: int (offset from p) | UNK (data dependent, the same for every p) | TAINT
UNK = "unknown"
POSITIONS = (0, 1, 2, 3, 5, 8)

S = lambda n: ("sc", n)  # noqa: E731


# ------------------------------------------------------------------------------------------------ generators

SMALL = ["uint8", "char", "int24", "uint8", "uint16", "int8", "uint8"]
MIXED = ["uint8", "uint16", "uint32", "uint64", "int24", "char", "int16", "uint32", "float", "double", "uint48", "int64", "wchar", "float16"]
FIXED = ["uint8", "uint16", "uint32", "uint64", "int24", "char", "int32", "double", "uint8"]


def _fixed_field(rnd, g, pool=FIXED):
    r = rnd.random()
    if r < 0.12:
        return {"name": g.name(), "ty": ("enum", rnd.choice(list(defs.ENUMS))), "bits": None}
    if r < 0.24:
        return {"name": g.name(), "ty": ("arr", S(rnd.choice(pool)), ("fixed", rnd.randint(1, 3))), "bits": None}
    if r < 0.30:
        return {"name": g.name(), "ty": ("ptr", S("uint8")), "bits": None}
    return {"name": g.name(), "ty": S(rnd.choice(pool)), "bits": None}


def _aligned_inner(rnd, g):
    """fields of the structure that is loaded with align=True: mixed alignments, so that it has inner gaps and tail padding"""
    fs = []
    n = rnd.randint(1, 4)
    wide = rnd.choice(["uint16", "uint32", "uint32", "uint64", "double", "int24"])
    at = rnd.randrange(n)
    for i in range(n):
        fs.append({"name": g.name(), "ty": S(wide if i == at else rnd.choice(MIXED)), "bits": None})
    r = rnd.random()
    if r < 0.2:      # a run of bit-fields sharing a unit (the later ones have no layout offset) somewhere
        base = rnd.choice(["uint8", "uint16", "uint32", "int16"])
        w = {"uint8": 8, "uint16": 16, "uint32": 32, "int16": 16}[base]
        run = [{"name": g.name(), "ty": S(base), "bits": rnd.randint(1, w // 2)} for _ in range(2)]
        k = rnd.randint(0, len(fs))
        fs[k:k] = run
    elif r < 0.32:   # a packed / aligned structure of its own inside (inline: governed by the same flag)
        sub = ("struct", [{"name": g.name(), "ty": S(rnd.choice(MIXED)), "bits": None} for _ in range(rnd.randint(1, 3))])
        fs.insert(rnd.randint(0, len(fs)), {"name": g.name(), "ty": sub, "bits": None})
    elif r < 0.44:   # a dynamically sized member: what follows it is placed by stream position
        cnt = g.name()
        arr = ("arr", S(rnd.choice(["char", "uint8", "uint16", "uint32"])), ("expr", f"{cnt} & 3") if rnd.random() < 0.6 else ("null",))
        k = rnd.randint(0, len(fs))
        fs[k:k] = [{"name": cnt, "ty": S("uint8"), "bits": None}, {"name": g.name(), "ty": arr, "bits": None}]
    return fs


def directed_nest(rnd, g, levels):
    """-> (plan, tree2): `levels` wrappers (the outermost is T) around one structure loaded with align=True"""
    counter = [0]
    plan = []

    def hoisted(sub, a):
        counter[0] += 1
        name = f"N{counter[0]}"
        plan.append((name, sub, a))
        return name

    child = ("struct", _aligned_inner(rnd, g))
    child_align = True
    child_inline = False
    for lv in range(levels):
        top = lv == levels - 1
        a = (not top and rnd.random() < 0.12)           # mostly packed wrappers
        m = {"name": g.name(), "ty": child, "bits": None}
        if rnd.random() < (0.3 if lv else 0.15):
            m["ty"] = ("arr", child, ("fixed", rnd.choice([1, 2, 2, 3])))
        if not child_inline:
            m["ref"] = (hoisted(child, child_align), child_align)
        lead = [{"name": g.name(), "ty": S(rnd.choice(SMALL)), "bits": None} for _ in range(rnd.randint(1, 3))]
        if rnd.random() < 0.1:
            lead = []
        r = rnd.random()
        ntrail = 0 if (r < 0.12 and not top) else rnd.randint(1, 3)   # 0: the child is the LAST member of this wrapper
        trail = [_fixed_field(rnd, g) for _ in range(ntrail)]
        if rnd.random() < 0.1 and trail:
            # a dynamically sized member behind the child: the members after it have no layout offset
            trail.insert(rnd.randint(0, len(trail) - 1), {"name": g.name(), "ty": ("arr", S(rnd.choice(["char", "uint16"])), ("null",)), "bits": None})
        if rnd.random() < 0.1 and trail:
            base = rnd.choice(["uint8", "uint16", "uint32"])
            trail.insert(rnd.randint(0, len(trail)), {"name": g.name(), "ty": S(base), "bits": rnd.randint(1, 7)})
        child = ("struct", lead + [m] + trail)
        child_align = a
        # an inline wrapper is governed by its parent's flag: only a packed one under a packed parent keeps the intended shape
        child_inline = (not top) and (not a) and rnd.random() < 0.25
    plan.append(("T", child, False))
    tree2 = child
    _fix_eff(tree2, False)
    return plan, tree2


def _fix_eff(agg, own):
    """eff_align of inline aggregate members = the flag of the definition they are written in"""
    for f in agg[1]:
        inner = defs.innermost(f["ty"])
        if inner[0] in ("struct", "union"):
            if "ref" in f:
                f["eff_align"] = f["ref"][1]
            else:
                f["eff_align"] = own
            _fix_eff(inner, f["eff_align"])


def gen_case(rnd, tier):
    """-> (label, plan, tree2)"""
    g = defs.Gen(rnd, max_depth=rnd.choice([1, 2, 2, 3]))
    pick = rnd.random()
    if pick < 0.5:
        levels = rnd.choice([1, 2, 2, 2, 3, 3])
        plan, tree2 = directed_nest(rnd, g, levels)
        return f"nest:{levels + 1} levels", plan, tree2
    if pick < 0.6:
        plan, tree2 = s1_mixed.directed_dynamic(rnd, g)
        return "dynamic", plan, tree2
    if pick < 0.7:
        plan, tree2 = s1_mixed.directed_bits(rnd, g)
        return "bits", plan, tree2
    tree = s1_mixed.with_nested(rnd, g, g.struct(), dyn_p=0.3)
    if rnd.random() < 0.5:
        tree = s1_mixed.with_nested(rnd, g, tree, dyn_p=0.2)
    for _ in range(4):
        plan, tree2 = defs.hoist(tree, rnd, p=0.8, top_align=rnd.random() < 0.25, mixed=True)
        if s1_mixed.is_mixed(plan):
            break
    return "hoist", plan, tree2


# ------------------------------------------------------------------------------------------------ which parts must be position independent

class Walk:
    """Follows the structure reader over the real classes with an abstract stream position.  G: every start position used is a
    multiple of G (1: any position; the alignment of an aligned top-level structure otherwise), so aligning to `a` on the absolute
    position is the same as aligning the offset from p exactly when a divides G."""

    def __init__(self, G):
        m = impl.dc()
        self.G = max(1, G)
        self.SM, self.UM = m.types.structure.StructureMetaType, m.types.structure.UnionMetaType
        self.EM = m.types.enum.EnumMetaType
        self.misplaced = 0      # alignment steps on the absolute position that depend on p

    def align(self, st, a):
        if not a or a <= 1 or st == TAINT:
            return st
        if self.G % a == 0:
            return st if st == UNK else st + (-st & (a - 1))
        self.misplaced += 1
        return TAINT

    @staticmethod
    def add(st, n):
        if st in (TAINT, UNK):
            return st
        return st + n if n is not None else UNK

    @staticmethod
    def size(t):
        try:
            return len(t)
        except TypeError:
            return None

    def ty(self, t, v, st):
        """-> (mask in the shape of impl.canon(v), state behind the value)"""
        if type(v).__name__ == "UnionProxy":
            v = object.__getattribute__(v, "__target__")
        if isinstance(t, self.UM):
            return self.union(t, v, st)
        if isinstance(t, self.SM):
            return self.struct(t, v, st)
        if hasattr(t, "type") and hasattr(t, "num_entries"):
            et = t.type
            agg = isinstance(et, self.SM) or (hasattr(et, "type") and hasattr(et, "num_entries"))
            if agg and isinstance(v, list):
                masks = []
                for e in v:
                    mk, st = self.ty(et, e, st)
                    masks.append(mk)
                if not isinstance(t.num_entries, int) or getattr(t, "null_terminated", False):
                    # dynamic count: a terminator / the end of the input is looked at from wherever the last element stopped
                    st = TAINT if st == TAINT else UNK
                return ["list", *masks], st
            return st != TAINT, self.add(st, self.size(t))
        return st != TAINT, self.add(st, self.size(t))

    def struct(self, C, v, st):
        start = cur = st
        masks = []
        btype, bleft, bok = None, 0, True
        for f in C.__fields__:
            if f.offset is not None:
                cur = start if start in (TAINT, UNK) else start + f.offset      # the readers seek to a layout offset
            if C.__align__ and f.offset is None:
                cur = self.align(cur, f.alignment)
            if f.bits:
                ft = f.type.type if isinstance(f.type, self.EM) else f.type
                if bleft == 0 or btype != ft:
                    btype, bleft, bok = ft, (ft.size or 0) * 8, cur != TAINT       # a new storage unit is read here
                    cur = self.add(cur, ft.size)
                bleft -= f.bits
                masks.append(bok)
                continue
            btype, bleft = None, 0
            mk, cur = self.ty(f.type, getattr(v, f._name), cur)
            masks.append(mk)
        if C.__align__:
            cur = self.align(cur, C.alignment)
        return ["rec", *masks], cur

    def union(self, U, v, st):
        n = len(U.__fields__)
        if U.size is not None:
            # a fixed-size union reads len(U) bytes and parses its members from that buffer: positions inside are offsets in the buffer
            ok = st != TAINT
            return ["union", ok, *[ok] * n], self.add(st, U.size)
        masks, ends = [], []
        for f in U.__fields__:
            s0 = st if st in (TAINT, UNK) else st + (f.offset or 0)
            mk, e = self.ty(f.type, getattr(v, f._name), s0)
            masks.append(mk)
            ends.append(e)
        end = TAINT if (st == TAINT or TAINT in ends) else UNK
        return ["union", st != TAINT and end != TAINT, *masks], end


def all_true(mask):
    if isinstance(mask, list):
        return all(all_true(x) for x in mask[1:])
    return bool(mask)


def masked_eq(a, b, mask):
    """a == b on the parts of the canonical values that the mask marks; -> (marked parts equal, unmarked parts equal)"""
    if mask is True:
        return (a == b or impl.same_val(a, b, ignore_union_buf=True)), True
    if mask is False:
        return True, (a == b or impl.same_val(a, b, ignore_union_buf=True))
    if not (isinstance(a, list) and isinstance(b, list)) or len(a) != len(mask):
        return False, False                       # (the mask has the shape of a: the reference value)
    if len(b) != len(a):
        # a different number of elements / members: allowed only if nothing of this node is marked
        return (not any_true(mask)), False
    if str(a[0]) != str(b[0]):
        return False, False
    strict = loose = True
    lo = 1
    if str(a[0]) == "union":
        lo = 2                                     # ["union", buf, members...]: the raw buffer is not compared (as in props/c09.py:eq)
    for x, y, mk in zip(a[lo:], b[lo:], mask[lo:]):
        s, l = masked_eq(x, y, mk)
        strict, loose = strict and s, loose and l
    return strict, loose


def any_true(mask):
    if isinstance(mask, list):
        return any(any_true(x) for x in mask[1:])
    return bool(mask)


def describe(mask, t, path="T"):
    """paths of the parts of the value that are not marked (for messages)"""
    if mask is False:
        return [path]
    if not isinstance(mask, list):
        return []
    out = []
    try:
        if str(mask[0]) in ("rec", "union"):
            for f, mk in zip(t.__fields__, mask[1 if mask[0] == "rec" else 2:]):
                out += describe(mk, f.type, f"{path}.{f._name}")
        else:
            for i, mk in enumerate(mask[1:]):
                out += describe(mk, t.type, f"{path}[{i}]")
    except Exception:  # noqa: BLE001 - messages only
        pass
    return out


# ------------------------------------------------------------------------------------------------ the probe

def _c09():
    from .props import c09  # late: props/c09.py imports this module
    return c09


def stream_forms(T, cs, data, p):
    """every stream kind x call form of props/c09.py, the stream positioned at p; each -> (value, stream)"""
    MiniFile = _c09().MiniFile

    def bio():
        s = io.BytesIO(data)
        s.seek(p)
        return s

    def on(mk, call):
        def fn():
            s = mk()
            return call(s), s
        return fn
    mini = lambda: MiniFile(data, p)  # noqa: E731
    return {
        "T(BytesIO)": on(bio, lambda s: T(s)), "T.read(BytesIO)": on(bio, lambda s: T.read(s)), "cs.read(name, BytesIO)": on(bio, lambda s: cs.read("T", s)),
        "T(file-like)": on(mini, lambda s: T(s)), "T.read(file-like)": on(mini, lambda s: T.read(s)), "cs.read(name, file-like)": on(mini, lambda s: cs.read("T", s)),
    }


def buffer_forms(T, cs, data, p):
    """every buffer kind x call form of props/c09.py on the bytes from p onward"""
    rest = data[p:]
    return {
        "T(bytes[p:])": lambda: T(rest), "T(bytearray[p:])": lambda: T(bytearray(data)[p:]), "T(memoryview[p:])": lambda: T(memoryview(data)[p:]),
        "T.read(bytes[p:])": lambda: T.read(rest), "T.read(bytearray[p:])": lambda: T.read(bytearray(rest)), "T.read(memoryview[p:])": lambda: T.read(memoryview(data)[p:]),
        "T.reads(bytes[p:])": lambda: T.reads(rest), "T.reads(bytearray[p:])": lambda: T.reads(bytearray(rest)), "T.reads(memoryview[p:])": lambda: T.reads(memoryview(data)[p:]),
        "cs.read(name, bytes[p:])": lambda: cs.read("T", rest), "cs.read(name, memoryview[p:])": lambda: cs.read("T", memoryview(data)[p:]),
        "T(BytesIO(bytes[p:]))": lambda: T(io.BytesIO(rest)),
    }


def run_mixed(env, eng, res, rnd):
    tier = env["tier"]
    ncases = 130 if tier == "quick" else 4000
    for _ in range(ncases):
        label, plan, tree2 = gen_case(rnd, tier)
        endian, ptr = rnd.choice("<>"), rnd.choice(["uint64", "uint32", "uint16", "uint8"])
        bodies = None
        for compiled in (False, True):
            sess = impl.Session(endian=endian, pointer=ptr)
            try:
                L = s1_mixed.load_plan(sess, plan, compiled=compiled)
            except Exception as e:  # noqa: BLE001
                res.feat(f"mixed-pos:definition-rejected:{type(e).__name__}")
                continue
            T = L.T
            res.feat(f"mixed-pos:definitions:{label}" + ("" if s1_mixed.is_mixed(plan) else ":uniform"))
            res.feat("mixed-pos:" + ("compiled" if compiled else "interpreted"))
            try:
                top_aligned = bool(T.__align__)
                A = max(1, T.alignment or 1) if top_aligned else 1
                size = T.size
            except Exception as e:  # noqa: BLE001
                eng.report(f"mixed alignment: the class of T has no layout attributes ({type(e).__name__}: {e})", s1_mixed.case_data(sess), [])
                continue
            if bodies is None:   # the same inputs for both readers: bytes that the first reader accepts at position 0
                n = size if size is not None else 48
                bodies = []
                for _i in range(2 if tier == "quick" else 3):
                    for _try in range(4):
                        cand = rand_bytes(rnd, n + rnd.choice([0, 8, 24]))
                        if impl.parse(T, cand)[0] == "ok":
                            bodies.append(cand)
                            break
                    else:
                        res.feat("mixed-pos:no accepted input")
            for body in bodies:
                probe_mixed(eng, res, rnd, sess, L, tree2, body, A, label)
        if len(eng.lines) > 3000:
            eng.flush()
    eng.flush()


def probe_mixed(eng, res, rnd, sess, L, tree2, body, A, label):
    T, cs, compiled = L.T, L.cs, L.compiled
    c09 = _c09()
    s = io.BytesIO(body)
    try:
        obj0 = T(s)
        base = impl.canon(obj0)
        consumed = s.tell()
    except Exception as e:  # noqa: BLE001
        res.feat("mixed-pos:input-rejected:" + impl.err_class(e))
        return False
    # which parts of the value (and whether the end) are read at a position that cannot depend on p
    w = Walk(A)
    try:
        mask, end = w.ty(T, obj0, 0)
    except Exception as e:  # noqa: BLE001 - a class / value of an unexpected shape: everything is required to agree
        res.feat("mixed-pos:walk-failed:" + type(e).__name__)
        mask, end = True, 0
    strict_all = all_true(mask) and end != TAINT
    end_fixed = end != TAINT
    res.feat("mixed-pos:" + ("every part of the value and the end must agree" if strict_all else
                             "some part lies behind a misplaced aligned structure with no seek in between (F43 territory)"))
    if not strict_all:
        if not end_fixed:
            res.feat("mixed-pos:F43 territory: the value ends in a misplaced aligned structure (final position not fixed)")
        if not all_true(mask):
            res.feat("mixed-pos:F43 territory: members without a layout offset / later array elements behind a misplaced aligned structure")
    if w.misplaced and any_true(mask):
        res.feat("mixed-pos:aligned structure at a p-dependent alignment, later members with a layout offset checked")
    eof = has_eof(tree2)
    msigs = s1_mixed.sigs_mixed(tree2, bool(getattr(T, "__align__", False)), L.pointer, L.endian)
    model = "F23" not in msigs   # (the compiled reader is held against the model of the interpreted one, as in props/c03.py)
    if model:
        L.ty_sexp = lambda: s1_mixed.mixed_ty_sexp(tree2, T, bool(T.__align__))  # per-node align flags
    for p in [k * A for k in POSITIONS]:
        pre = bytes(rnd.randrange(256) for _ in range(p))
        payload = body
        if strict_all and not eof and rnd.random() < 0.5:
            # the bytes after the extent are replaced by noise of another length: they must not matter
            payload = body[:consumed].ljust(consumed, b"\x00") + bytes(rnd.randrange(256) for _ in range(rnd.choice([0, 1, 9])))
            res.feat("mixed-pos:bytes after the extent replaced")
        data = pre + payload
        forms = stream_forms(T, cs, data, p)
        names = sorted(forms) if p in (0, A) else rnd.sample(sorted(forms), 2)
        for name in names:
            v = None
            try:
                v, st = forms[name]()
                got = ("ok", impl.canon(v), st.tell() - p)
            except Exception as e:  # noqa: BLE001
                got = ("err", impl.err_class(e))
            if model and name == "T.read(BytesIO)":
                # correspondence: the Lean model of the reader (per-structure align flags, absolute stream positions) on the same case
                sizes = sorted((k, n) for k, n in v._sizes.items() if n) if got[0] == "ok" and hasattr(v, "_sizes") else []
                eng.model_read(L, data, p, ("ok", got[1], got[2] + p, sizes) if got[0] == "ok" else got, f"mixed alignment, read at start position {p}", msigs)
                res.feat("mixed-pos:model read compared")
            res.count(("mixed-pos", sess.script(), compiled, body, p, name), p > 0)
            res.feat("mixed-pos:start " + (f"{p // A}*alignment" if A > 1 else str(p)))
            res.feat("mixed-pos:form:" + name)
            cd = None
            if got[0] != "ok":
                cd = s1_mixed.case_data(sess, data=data, pos=p, form=name, compiled=compiled)
                eng.report(f"mixed alignment ({label}), {name} at start position {p}: raises {got[1]}; the same bytes at position 0 parse to "
                           f"{str(base)[:200]} consuming {consumed}", cd, [] if all_true(mask) else ["F43"])
                if all_true(mask):
                    return True   # one report per input
                continue
            strict, loose = masked_eq(base, got[1], mask)
            if not strict or (end_fixed and got[2] != consumed):
                cd = s1_mixed.case_data(sess, data=data, pos=p, form=name, compiled=compiled)
                eng.report(f"mixed alignment ({label}), {name} at start position {p} gives {str(got[1])[:240]} consuming {got[2]}; the same bytes "
                           f"at position 0 give {str(base)[:240]} consuming {consumed}"
                           + ("" if strict_all else f" (not required to agree: {', '.join(describe(mask, T)[:6]) or '-'}"
                                                    f"{'' if end_fixed else ', the final position'})"), cd, [])
                return True   # one report per input
            elif not loose or got[2] != consumed:
                # position dependent only where F43 says so: behind an aligned structure at a misaligned position, before the next seek
                cd = s1_mixed.case_data(sess, data=data, pos=p, form=name, compiled=compiled)
                res.feat("mixed-pos:F43 seen: " + ("value" if not loose else "final position") + " differs with the start position")
                eng.report(f"mixed alignment, start position {p}: F43 territory differs", cd, ["F43"])
        # the bytes from p onward on their own: position 0 by definition, everything must agree
        bforms = buffer_forms(T, cs, data, p)
        for name in (sorted(bforms) if p == A else rnd.sample(sorted(bforms), 2)):
            try:
                got = ("ok", impl.canon(bforms[name]()))
            except Exception as e:  # noqa: BLE001
                got = ("err", impl.err_class(e))
            res.count(("mixed-pos", sess.script(), compiled, body, p, name), True)
            res.feat("mixed-pos:form:" + name)
            if got[0] != "ok" or not c09.eq(base, got[1]):
                eng.report(f"mixed alignment ({label}), {name} with p = {p} gives {str(got)[:240]}; T(BytesIO(bytes)) gives {str(base)[:240]}",
                           s1_mixed.case_data(sess, data=data, pos=p, form=name, compiled=compiled), [])
