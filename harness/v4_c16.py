"""C16 (v4): dereferences that FAIL with something other than the end of the stream.

"Dereferencing returns what parsing the target type at that absolute stream offset returns, does not move the stream, and is
stable on repeated access" - also when parsing the target raises.  The end-of-stream failures are covered by the other probes of
C16; this family makes the read of the target fail in the ways a target's own definition or the user's stream can make it fail:

  data faults    the bytes found at the address make the target's definition raise:
                   invalid UTF-16 (lone surrogates) behind `wchar *`, `wchar s[k]`, `wchar s[]`, `wchar s[n]` members of a target
                   structure (UnicodeDecodeError); an array-size expression that divides by zero on the pointed-to bytes
                   (`d[C / n]`, `d[C % n]`, `d[C / (n - K)]`, `d[C / (n & M)]`, inside a nested structure, in the second element of
                   an array of structures: ZeroDivisionError); an expression naming an undefined identifier (ExpressionParserError)
  stream faults  a user stream (a BytesIO subclass, or a plain object with read/seek/tell only) whose read() raises OSError /
                 TimeoutError / RuntimeError / ValueError / an exception class of its own - or delivers nothing (the EOFError control) -
                 as soon as a read touches a region inside the target; armed for one dereference only.  Any target: scalars, char
                 strings, fixed and dynamic structures, pointers to pointers.

One generated definition per round: the target types, and a record structure REC holding pointers to them (`X *p`, `X *a[2]`,
`X **pp`, a pointer inside a nested structure, scalars in between, optionally a dynamically sized tail, optionally aligned).  The
stream holds [lead][REC 1][REC 2][targets]; REC 1 is parsed from the stream, then every pointer of it is followed (by
`.dereference()`, by attribute access through the pointer, by `str()`), in random order, some with a stream fault armed, the stream
sometimes parked elsewhere first.  Oracle per access: the outcome (value, or the exception class) is what parsing the target type of a
separately loaded (interpreted) copy of the definition at that offset of a fresh stream of the same kind (same fault armed) gives;
the stream position after the access is the position before it, whatever the outcome; a second access (fault disarmed) gives what
the target parses to without the fault.  Afterwards the next record is parsed from the stream: value, end position and what its
pointers dereference to must be what a fresh parse at that offset gives.  All seven pointer widths, both byte orders, both readers.
"""
from __future__ import annotations

import io

from . import defs, impl
from .common import A, sx
from .s2_ptr import ALL_PTRS
from .u4_c16 import pointers_in, typed_slots

INTS = {"uint8": 1, "uint16": 2, "uint32": 4, "int8": 1, "int16": 2, "uint24": 3}
ELEMS = ["char", "uint8", "uint16", "wchar", "int32"]
PLAIN = ["uint8", "uint16", "uint32", "int64", "double", "char", "char", "E8", "uint24", "wchar"]


class StreamFault(Exception):
    """an exception class of the user's stream (not an OSError)"""


FAULT_EXC = [OSError, OSError, TimeoutError, RuntimeError, ValueError, StreamFault]


# ------------------------------------------------------------------------------------------------ user streams

class _Faulting:
    """shared by both stream kinds: while armed, a read that touches [lo, hi) raises `exc` ('raise') or delivers nothing ('eof')"""

    fault = None
    fired = False

    def arm(self, lo, hi, mode, exc):
        self.fault, self.fired = (lo, hi, mode, exc), False

    def disarm(self):
        self.fault = None

    def _check(self, pos, n, size):
        if self.fault is None:
            return False
        lo, hi, mode, exc = self.fault
        end = size if n is None or n < 0 else pos + n
        if pos < hi and end > lo and end > pos:
            self.fired = True
            if mode == "raise":
                raise exc("injected fault while the pointer target is read")
            return True
        return False


class FaultBytesIO(_Faulting, io.BytesIO):
    def read(self, n=-1):
        if self._check(self.tell(), n, len(self.getbuffer())):
            return b""
        return super().read(n)


class PlainStream(_Faulting):
    """a user stream object that is not an io class: read / seek / tell and nothing else"""

    def __init__(self, data):
        self._data, self._pos = bytes(data), 0

    def read(self, n=-1):
        if self._check(self._pos, n, len(self._data)):
            return b""
        if n is None or n < 0:
            n = max(0, len(self._data) - self._pos)
        out = self._data[self._pos:self._pos + n]
        self._pos += len(out)
        return out

    def seek(self, pos, whence=0):
        pos = int(pos)
        self._pos = pos if whence == 0 else self._pos + pos if whence == 1 else len(self._data) + pos
        if self._pos < 0:
            raise ValueError("negative seek position")
        return self._pos

    def tell(self):
        return self._pos


STREAMS = {"BytesIO subclass": FaultBytesIO, "plain object (read/seek/tell)": PlainStream}


# ------------------------------------------------------------------------------------------------ target types

def benign(rnd, n):
    """filler that is valid UTF-16 in both byte orders, holds no NUL and no zero count"""
    return bytearray(rnd.randrange(1, 0x80) for _ in range(n))


def bad_units(rnd):
    """UTF-16 code units that cannot be decoded: a lone low surrogate, or a high surrogate followed by a unit that is not a low one"""
    r = rnd.random()
    if r < 0.5:
        return [rnd.randrange(0xDC00, 0xE000)]
    return [rnd.randrange(0xD800, 0xDC00), rnd.choice([0x41, 0x4141, rnd.randrange(0xD800, 0xDC00)])]


class Tgt:
    """one target type of a round: `name` is what the pointer members are declared with, `text` its definition ('' for a built-in
    type), `craft(RT, aim)` the bytes of one object - aimed at 'fail' (the definition raises on them) or 'ok'"""

    def __init__(self, name, text, kind, craft, fallible, attr=None):
        self.name, self.text, self.kind, self.craft, self.fallible, self.attr = name, text, kind, craft, fallible, attr


def gen_target(rnd, k, order, align):
    """a structure type whose definition can raise on the bytes it is read from"""
    name = f"X{k}"
    pre = [f"{rnd.choice(list(INTS))} f_a{i};" for i in range(rnd.randint(0, 2))]
    post = [f"{rnd.choice(list(INTS))} f_z{i};" for i in range(rnd.randint(0, 1))]
    ity = rnd.choice(["uint8", "uint8", "uint16", "uint32"])
    isz = INTS[ity]
    elem = rnd.choice(ELEMS)
    unit = lambda u: u.to_bytes(2, order)  # noqa: E731
    kinds = ["div", "div", "mod", "div-offset", "div-mask", "div-nested", "wstr-fixed", "wstr-null", "wstr-counted", "wchar-member", "undefined-name"]
    if not align:
        kinds.append("div-in-array")
    kind = rnd.choice(kinds)
    extra = ""

    def off(RT, f):
        return RT.fields[f].offset

    def put_int(buf, at, v, size=isz):
        buf[at:at + size] = (v % (1 << (8 * size))).to_bytes(size, order)

    def put_units(buf, at, units):
        for i, u in enumerate(units):
            buf[at + 2 * i:at + 2 * i + 2] = unit(u)

    if kind in ("div", "mod", "div-offset", "div-mask"):
        C = rnd.randint(1, 12)
        K = rnd.randint(1, 9)
        M = rnd.choice([1, 3, 6, 0x0C])
        expr = {"div": f"{C} / f_n", "mod": f"{C} % f_n", "div-offset": f"{C} / (f_n - {K})", "div-mask": f"{C} / (f_n & {M})"}[kind]
        body = pre + [f"{ity} f_n;", f"{elem} f_d[{expr}];"] + post

        def craft(RT, aim):
            buf = benign(rnd, off(RT, "f_n") + isz + 12 * 4 + 8)
            if aim == "fail":
                n = {"div": 0, "mod": 0, "div-offset": K, "div-mask": rnd.randrange(256) & ~M & 0xFF}[kind]
            else:
                n = {"div": rnd.randint(1, 12), "mod": rnd.randint(1, 12), "div-offset": K + rnd.randint(1, 6), "div-mask": M}[kind]
            put_int(buf, off(RT, "f_n"), n)
            return buf
    elif kind == "div-nested":
        C = rnd.randint(1, 8)
        body = pre + [f"struct {{ uint8 f_k; {elem} f_d[{C} / f_k]; }} f_in;"] + post

        def craft(RT, aim):
            buf = benign(rnd, off(RT, "f_in") + 1 + 8 * 4 + 8)
            buf[off(RT, "f_in")] = 0 if aim == "fail" else rnd.randint(1, 8)
            return buf
    elif kind == "div-in-array":
        # the first element is fine (f_n = 3: two entries), the second one divides by zero: the stream is well inside the target then
        extra = f"struct {name}_e {{ uint8 f_n; char f_d[6 / f_n]; }};\n"
        body = pre + [f"{name}_e f_es[2];"] + post

        def craft(RT, aim):
            at = off(RT, "f_es")
            buf = benign(rnd, at + 2 * 7 + 8)
            buf[at] = 3
            buf[at + 3] = 0 if aim == "fail" else rnd.choice([1, 2, 3, 6])
            return buf
    elif kind == "wstr-fixed":
        n = rnd.randint(1, 4)
        body = pre + [f"wchar f_s[{n}];"] + post

        def craft(RT, aim):
            buf = benign(rnd, RT.size + 4)
            if aim == "fail":
                bad = bad_units(rnd)[:n]
                if len(bad) == 1 and 0xD800 <= bad[0] < 0xDC00:
                    put_units(buf, off(RT, "f_s") + 2 * (n - 1), bad)           # a high surrogate at the very end
                else:
                    put_units(buf, off(RT, "f_s") + 2 * rnd.randint(0, n - len(bad)), bad)
            return buf
    elif kind == "wstr-null":
        body = pre + ["wchar f_s[];"] + post

        def craft(RT, aim):
            L = rnd.randint(0, 4)
            bad = bad_units(rnd) if aim == "fail" else []
            at = off(RT, "f_s")
            buf = benign(rnd, at + 2 * (L + len(bad) + 1) + 10)
            i = rnd.randint(0, L)
            put_units(buf, at + 2 * i, bad)
            put_units(buf, at + 2 * (L + len(bad)), [0])
            return buf
    elif kind == "wstr-counted":
        cnt = rnd.choice(["f_n", "f_n & 3", "f_n & 7"])
        body = pre + [f"{ity} f_n;", f"wchar f_s[{cnt}];"] + post

        def craft(RT, aim):
            n = rnd.randint(1, 3)
            buf = benign(rnd, off(RT, "f_n") + isz + 2 * 8 + 10)
            put_int(buf, off(RT, "f_n"), n)
            if aim == "fail":
                bad = bad_units(rnd)[:n]
                if len(bad) == 1 and 0xD800 <= bad[0] < 0xDC00:
                    put_units(buf, off(RT, "f_s") + 2 * (n - 1), bad)
                else:
                    put_units(buf, off(RT, "f_s") + 2 * rnd.randint(0, n - len(bad)), bad)
            return buf
    elif kind == "wchar-member":
        body = pre + ["wchar f_w;"] + post

        def craft(RT, aim):
            buf = benign(rnd, RT.size + 4)
            if aim == "fail":
                put_units(buf, off(RT, "f_w"), [rnd.randrange(0xD800, 0xE000)])
            return buf
    else:  # undefined-name: the expression cannot be evaluated whatever the bytes are
        body = pre + ["uint8 f_n;", f"{elem} f_d[f_n + UNDEFINED_{k}];"] + post

        def craft(RT, aim):
            return benign(rnd, off(RT, "f_n") + 1 + 16)
    first = body[0].split()[-1].rstrip(";").split("[")[0]
    return Tgt(name, extra + f"struct {name} {{ " + " ".join(body) + " };\n", kind, craft, True, attr=first)


def plain_target(rnd, k, order):
    """targets whose own definition does not raise on any bytes (wchar excepted): they fail through the stream only"""
    r = rnd.random()
    if r < 0.2:
        name = f"S{k}"
        return Tgt(name, f"struct {name} {{ uint8 f_x; uint16 f_y; char f_s[3]; }};\n", "fixed-struct", lambda RT, aim: benign(rnd, RT.size + 2), False, attr="f_y")
    if r < 0.35:
        name = f"S{k}"
        return Tgt(name, f"struct {name} {{ uint8 f_n; uint8 f_d[f_n & 3]; uint16 f_t; }};\n", "dynamic-struct", lambda RT, aim: benign(rnd, 1 + 3 + 2 + 2), False,
                   attr="f_n")
    b = rnd.choice(PLAIN)
    if b == "char":
        def craft(RT, aim):
            return benign(rnd, rnd.randint(0, 6)) + b"\x00"
    elif b == "wchar":
        def craft(RT, aim):
            return bytearray(rnd.randrange(0xD800, 0xE000).to_bytes(2, order)) if aim == "fail" else benign(rnd, 2)
    else:
        def craft(RT, aim):
            return benign(rnd, RT.size)
    return Tgt(b, "", b, craft, b == "wchar")


def gen_round(rnd, order, align, psz):
    """-> (definition text, {type name: Tgt})"""
    targets = []
    nt = rnd.randint(2, 4)
    for k in range(nt):
        targets.append(gen_target(rnd, k, order, align) if rnd.random() < 0.7 or k == 0 else plain_target(rnd, k, order))
    members = []
    c = [0]

    def nm(prefix):
        c[0] += 1
        return f"{prefix}{c[0]}"

    def t():
        return rnd.choice(targets).name

    nptr = 0
    for _ in range(rnd.randint(2, 5) if psz > 1 else rnd.randint(2, 3)):
        r = rnd.random()
        if r < 0.45 or not nptr:
            members.append(f"{t()} *{nm('p')};")
        elif r < 0.58:
            members.append(f"{t()} *{nm('a')}[2];")
        elif r < 0.70:
            members.append(f"{t()} **{nm('pp')};")
        elif r < 0.80:
            members.append(f"struct {{ uint16 f_t; {t()} *q; }} {nm('in')};")
        elif r < 0.92:
            members.append(f"{rnd.choice(['uint8', 'uint16', 'uint32', 'wchar'])} {nm('m')};")
            continue
        else:
            members.append(f"char {nm('c')}[3];")
            continue
        nptr += 1
    rnd.shuffle(members)
    tail = ["uint8 tail[id & 3];"] if not align and rnd.random() < 0.3 else []
    seen, text = set(), ""
    for tg in targets:
        if tg.text and tg.name not in seen:
            text += tg.text
        seen.add(tg.name)
    text += "struct REC { uint8 id; " + " ".join(members + tail) + " };\n"
    return text, {tg.name: tg for tg in targets}


# ------------------------------------------------------------------------------------------------ the memory image

def build_image(rnd, R, tgts, psz, order, align):
    """[lead][REC 1][REC 2][gap][targets][trail] -> (bytes, offset of REC 1, aims {slot offset: aim})"""
    m = impl.dc()
    top = (1 << (8 * psz)) - 1
    limit = min(top, 900)
    lead = rnd.choice([0, 16]) if align else rnd.choice([0, 0, 3, 7])
    fixed = R.size if R.size is not None else R.fields["tail"].offset
    buf = bytearray(rnd.randrange(256) for _ in range(lead))
    bases = []
    for _ in range(2):
        bases.append(len(buf))
        buf += benign(rnd, fixed)          # (a record may hold wchar members of its own: the record itself must parse)
        if R.size is None:
            buf += bytes(rnd.randrange(256) for _ in range(buf[bases[-1]] & 3))
    buf += bytes(rnd.randrange(256) for _ in range(rnd.choice([0, 1, 4])))
    aims = {}
    deferred = []

    def alloc(b):
        gap = rnd.randint(0, 2)
        addr = max(1, len(buf) + gap)
        if addr + len(b) > limit:
            return None
        buf.extend(rnd.randrange(256) for _ in range(addr - len(buf)))
        buf.extend(b)
        return addr

    def put(at, v):
        buf[at:at + psz] = v.to_bytes(psz, order)

    shared: dict = {}

    def place(at, P, aim):
        tt = P.type
        if aim == "null":
            put(at, 0)
        elif aim == "end":
            deferred.append(at)
        elif issubclass(tt, m.Pointer):
            slot = alloc(bytes(psz))
            if slot is None:
                put(at, 0)
                return "null"
            put(at, slot)
            place(slot, tt, aim)
        elif issubclass(tt, m.Void):
            put(at, rnd.randint(1, min(top, len(buf))))
        else:
            tg = tgts[tt.__name__]
            key = (tt.__name__, aim)
            if key in shared and rnd.random() < 0.25:
                put(at, shared[key])
                return aim
            addr = alloc(bytes(tg.craft(tt, aim)))
            if addr is None:
                put(at, 0)
                return "null"
            shared[key] = addr
            put(at, addr)
        return aim

    for i, base in enumerate(bases):
        for off, P in typed_slots(R):
            r = rnd.random()
            if i == 0:
                aim = "fail" if r < 0.62 else "ok" if r < 0.88 else "null" if r < 0.94 else "end"
            else:
                aim = "ok" if r < 0.6 else "fail" if r < 0.85 else "null" if r < 0.95 else "end"
            aims[base + off] = place(base + off, P, aim)
    buf += bytes(rnd.randrange(1, 256) for _ in range(rnd.randint(2, 6)))
    for at in deferred:
        put(at, min(top, len(buf) - rnd.choice([0, 1, 1, 2])))
    return bytes(buf), bases[0], aims


# ------------------------------------------------------------------------------------------------ oracle

def read_target(tt, stream, addr):
    """parse target class tt at addr of `stream` the way a dereference is defined: -> ('ok', value) | ('err', exception)"""
    m = impl.dc()
    try:
        stream.seek(addr)
        v = tt._read_0(stream, None) if issubclass(tt, m.Char) else tt._read(stream, None)
    except Exception as e:  # noqa: BLE001
        return ("err", e)
    return ("ok", v, stream.tell())


def view(route, v, attr):
    """what the access route shows of the dereferenced value v"""
    if route == "attr":
        return impl.canon(getattr(v, attr))
    if route == "str":
        return [A("str"), str(v)]
    return [A("void")] if v is None else impl.canon(v)


def show(o):
    return ("ok " + sx(o[1])[:140]) if o[0] == "ok" else " ".join(map(str, o[:2]))


def repro(cd, path, fault=None):
    """a stand-alone script for one access (first-hop pointers, stream standing behind the first record)"""
    mk = "io.BytesIO"
    pre = []
    if fault:
        mk = "S"
        pre = ["class S(io.BytesIO):",
               "    armed = False",
               "    def read(self, n=-1):",
               f"        if self.armed and self.tell() < {fault[1]} and self.tell() + n > {fault[0]}:",
               "            " + ("return b''" if fault[2] == "eof" else f"raise {'Exception' if fault[3] is StreamFault else fault[3].__name__}('injected fault')"),
               "        return super().read(n)"]
    return "\n".join([
        "import io; from dissect.cstruct import cstruct", *pre,
        f"cs = cstruct(endian={cd['endian']!r}, pointer={cd['pointer']!r}); cs.load({cd['definition']!r}, compiled={cd['compiled']}, align={cd['align']})",
        f"s = {mk}(bytes.fromhex({cd['data']!r})); s.seek({cd['rec1_at']}); o = cs.REC(s); pos = s.tell()",
        "s.armed = True",
        "try:",
        f"    print(o{path[3:]}.dereference())",
        "except Exception as e:",
        "    print(type(e).__name__, e)",
        "print('stream position before', pos, 'after', s.tell())"])


def failed_deref_round(m, pname, endian, compiled, rnd, tier, res, viol):
    NullPointerDereference = m.NullPointerDereference
    psz = ALL_PTRS[pname]
    order = "little" if endian == "<" else "big"
    align = psz in (1, 2, 4, 8) and rnd.random() < 0.25
    text, tgts = gen_round(rnd, order, align, psz)
    cd0 = {"definition": text, "endian": endian, "pointer": pname, "compiled": compiled, "align": align}
    try:
        cs = m.cstruct(endian=endian, pointer=pname)
        cs.load(defs.PREAMBLE + text, compiled=compiled, align=align)
        ref = m.cstruct(endian=endian, pointer=pname)
        ref.load(defs.PREAMBLE + text, compiled=False, align=align)
        T, R = cs.REC, ref.REC
    except Exception as e:  # noqa: BLE001
        viol(f"a definition of a record with pointers to structures with expression-sized / wchar members is rejected: {type(e).__name__}: {e}", cd0)
        return
    cd0["definition"] = defs.PREAMBLE + text
    res.feat(f"v4:failed-deref:ptr:{pname}")
    res.feat(f"v4:failed-deref:compiled-flag:{bool(T.__compiled__)}")
    if align:
        res.feat("v4:failed-deref:aligned")
    for _img in range(2 if tier == "quick" else 5):
        try:
            data, rec1_at, aims = build_image(rnd, R, tgts, psz, order, align)
        except Exception as e:  # noqa: BLE001 - the reference classes of a mutated library may not have the shape the builder expects
            viol(f"the classes loaded from the definition cannot be laid out ({type(e).__name__}: {e})", cd0)
            return
        skind = rnd.choice(list(STREAMS))
        mk = STREAMS[skind]
        cd = dict(cd0, data=data.hex(), rec1_at=rec1_at, stream=skind)
        stream = mk(data)
        stream.seek(rec1_at)
        try:
            o = T(stream)
        except Exception as e:  # noqa: BLE001
            viol(f"parsing the record raises {type(e).__name__}: {e}", cd)
            continue
        pos1 = stream.tell()
        want1 = impl.parse(R, data, rec1_at) if rec1_at else impl.parse(R, data)
        if want1[0] != "ok" or want1[2] != pos1 or not impl.same_val(impl.canon(want1[1]), impl.canon(o)):
            viol("the record does not read the unsigned integers stored in its pointer slots", cd)
            continue
        parking = rnd.random() < 0.3
        park = [pos1, 0, len(data), len(data) // 2, rec1_at + 1]
        try:
            ptrs = pointers_in(o, R, "rec", [])
        except Exception as e:  # noqa: BLE001
            viol(f"the parsed record cannot be walked ({type(e).__name__}: {e})", cd)
            continue
        rnd.shuffle(ptrs)
        todo = [(pp, p, RP, 1) for pp, p, RP in ptrs]
        moved = False
        while todo:
            ppath, p, RP, hop = todo.pop(0)
            if not isinstance(p, m.Pointer):
                viol(f"{ppath} is not a pointer: {p!r}", cd)
                continue
            addr, tt = int(p), RP.type
            tg = tgts.get(tt.__name__)
            is_void, is_ptr = issubclass(tt, m.Void), issubclass(tt, m.Pointer)
            if parking and rnd.random() < 0.6:
                stream.seek(rnd.choice(park))
            pos0 = stream.tell()
            # what the target parses to, without a fault
            plain = ("null",) if addr == 0 else ("ok", None, addr) if is_void else read_target(tt, mk(data), addr)
            # a stream fault for this access?
            fault = None
            if addr and not is_void and rnd.random() < (0.3 if plain[0] == "err" else 0.55):
                extent = plain[2] - addr if plain[0] == "ok" else 0
                j = 0 if align or extent <= 0 else rnd.randrange(extent)
                width = rnd.choice([1, 2, len(data)])
                mode = "eof" if rnd.random() < 0.12 else "raise"
                fault = (addr + j, addr + j + width, mode, rnd.choice(FAULT_EXC))
            if fault:
                rs = mk(data)
                rs.arm(*fault)
                want = read_target(tt, rs, addr)
            else:
                want = plain
            route = "deref"
            if tg is not None and tg.attr and rnd.random() < 0.25:
                route = "attr"
            elif not is_void and not is_ptr and rnd.random() < 0.12:
                route = "str"
            fdesc = None if not fault else {"read touching": [fault[0], fault[1]], "mode": fault[2], "raises": fault[3].__name__}
            cdp = dict(cd, pointer_path=ppath, addr=addr, target=tt.__name__, route=route, stream_fault=fdesc, hop=hop,
                       stream_position_before=pos0)
            if hop == 1 and pos0 == pos1:
                cdp["repro"] = repro(cd, ppath, fault)
            wclass = type(want[1]).__name__ if want[0] == "err" else None
            res.count(("v4-failed-deref", pname, endian, compiled, text, data, ppath, fdesc, route), want[0] == "err" and wclass != "EOFError")
            if want[0] == "err":
                res.feat(f"v4:failed-deref:target-raises:{wclass}" + (" (stream fault)" if fault else ""))
                res.feat(f"v4:failed-deref:target-kind:{tg.kind if tg else 'pointer' if is_ptr else tt.__name__}")
            else:
                res.feat(f"v4:failed-deref:target-{want[0]}")
            res.feat(f"v4:failed-deref:route:{route}")
            res.feat(f"v4:failed-deref:stream:{skind}")

            def access(expected, label, armed):
                """one access through `route`; -> the value when it succeeded"""
                nonlocal moved
                if armed:
                    stream.arm(*fault)
                val, g = None, None
                before = stream.tell()
                try:
                    if route == "attr":
                        g = ("ok", impl.canon(getattr(p, tg.attr)))
                    elif route == "str":
                        g = ("ok", [A("str"), str(p)])
                    else:
                        val = p.dereference()
                        g = ("ok", view("deref", val, None))
                except NullPointerDereference:
                    g = ("null",)
                except Exception as e:  # noqa: BLE001
                    g = ("err", e)
                finally:
                    stream.disarm()
                now = stream.tell()
                gclass = type(g[1]).__name__ if g[0] == "err" else None
                if now != before:
                    moved = True
                    how = f"that failed with {gclass}" if g[0] == "err" else "of a null pointer" if g[0] == "null" else "that succeeded"
                    viol(f"{label}{ppath} ({tt.__name__} @ {addr}{', stream fault armed' if armed else ''}): a dereference {how} moved the stream "
                         f"{before} -> {now} (must stay in place)", dict(cdp, stream_position_after=now))
                    if parking:
                        stream.seek(before)
                if expected[0] == "err":
                    ok = g[0] == "err" and type(g[1]) is type(expected[1]) if armed and fault[2] == "raise" and isinstance(expected[1], fault[3]) \
                        else g[0] == "err" and gclass == type(expected[1]).__name__
                    eshow = f"raises {type(expected[1]).__name__}"
                elif expected[0] == "null":
                    ok, eshow = g[0] == "null", "is a null dereference"
                else:
                    try:
                        ev = view(route, expected[1], tg.attr if tg else None)
                    except Exception as e:  # noqa: BLE001
                        ev = [A("unreadable"), type(e).__name__]
                    ok, eshow = g[0] == "ok" and impl.same_val(ev, g[1]), "gives " + sx(ev)[:140]
                if not ok:
                    gshow = f"raises {gclass}: {str(g[1])[:80]}" if g[0] == "err" else "raises NullPointerDereference" if g[0] == "null" else "gives " + sx(g[1])[:140]
                    viol(f"{label}{ppath} ({tt.__name__} @ {addr}, via {route}{', stream fault armed' if armed else ''}): the access {gshow}; parsing "
                         f"{tt.__name__} at offset {addr} of the same stream {eshow}", cdp)
                return val if g[0] == "ok" else None

            val = access(want, "", bool(fault))
            # repeated access, the fault gone: what the target parses to
            val2 = access(plain, "repeated access: ", False)
            v = val2 if val2 is not None else val
            if is_ptr and isinstance(v, m.Pointer) and hop < 3:
                todo.insert(0, (f"{ppath}.dereference()", v, tt, hop + 1))
        # ---- the next record, from where the stream stands
        if parking:
            stream.seek(pos1)
        res.feat("v4:failed-deref:next-record-parsed")
        want2 = impl.parse(R, data, pos1)
        try:
            o2 = T.read(stream) if rnd.random() < 0.5 else T(stream)
            got2 = ("ok", o2, stream.tell())
        except Exception as e:  # noqa: BLE001
            got2 = ("err", impl.err_class(e))
        same = got2[0] == want2[0] and (got2[1] == want2[1] if got2[0] == "err" else
                                        (got2[2] == want2[2] and impl.same_val(impl.canon(want2[1]), impl.canon(got2[1]))))
        if not same:
            g2 = f"{sx(impl.canon(got2[1]))[:160]} ending at {got2[2]}" if got2[0] == "ok" else f"raises {got2[1]}"
            w2 = f"{sx(impl.canon(want2[1]))[:160]} ending at {want2[2]}" if want2[0] == "ok" else f"raises {want2[1]}"
            viol(f"after following the pointers of the first record (some dereferences failed), the next record read from the stream is {g2}; "
                 f"the record at offset {pos1} is {w2}" + (" (the stream was moved by a dereference)" if moved else ""), cd)
            continue
        if got2[0] != "ok":
            continue
        for ppath, p, RP in pointers_in(got2[1], R, "rec2", []):
            addr, tt = int(p), RP.type
            if not isinstance(p, m.Pointer):
                continue
            wantp = ("null",) if addr == 0 else ("ok", None) if issubclass(tt, m.Void) else read_target(tt, mk(data), addr)
            before = stream.tell()
            try:
                g = ("ok", p.dereference())
            except NullPointerDereference:
                g = ("null",)
            except Exception as e:  # noqa: BLE001
                g = ("err", e)
            res.count(("v4-failed-deref-rec2", pname, endian, compiled, text, data, ppath), wantp[0] == "err")
            ok = g[0] == wantp[0] and (g[0] == "null" or (g[0] == "err" and type(g[1]).__name__ == type(wantp[1]).__name__)
                                       or (g[0] == "ok" and impl.same_val(view("deref", wantp[1], None), view("deref", g[1], None))))
            cdp = dict(cd, pointer_path=ppath, addr=addr, target=tt.__name__)
            if not ok:
                viol(f"{ppath} ({tt.__name__} @ {addr}) of the second record: dereference {'raises ' + type(g[1]).__name__ if g[0] == 'err' else g[0]}, "
                     f"parsing the target there {'raises ' + type(wantp[1]).__name__ if wantp[0] == 'err' else wantp[0]}", cdp)
            if stream.tell() != before:
                viol(f"{ppath} ({tt.__name__} @ {addr}) of the second record: the dereference moved the stream {before} -> {stream.tell()}", cdp)
                stream.seek(before)


def failed_derefs(m, env, res, viol, rnd):
    tier = env["tier"]
    for pname in ALL_PTRS:
        for endian in "<>":
            for compiled in (False, True):
                for _ in range(3 if tier == "quick" else 30):
                    failed_deref_round(m, pname, endian, compiled, rnd, tier, res, viol)
