"""C10 probe (v10): IDENTIFIERS BOUND TO EVERY VALUE CLASS, through every way a binding reaches the evaluator.

"... resolving identifiers first in the supplied field context and then in the constants."  The other probes of C10 bind identifiers to
plain Python ints (context dict, cs.consts through the API, `#define`).  In real use the evaluator meets values of the library's own
value classes: the field context of a structure holds what the earlier fields parsed to - cstruct integer instances (uint8 ... int128,
int24 / uint48, the Windows / Linux aliases), uleb128 / ileb128 values, members and non-member values of enums, FLAG values (IntFlag
subclasses, whose own ~ | & ^ are confined to the bits the flag type declares), pointers (whose own + - * / % << >> & ^ | build
pointers), bit-field values - and the members of an anonymous `enum { ... };` / `flag { ... };` sit in cs.consts as enum / flag members.
The property prescribes the C value computed on the plain INTEGERS the bindings stand for, whatever class carries them, for every
operator - in particular unary ~ and -, | & ^ with a negative other operand, << >>, / %.

Three families, every choice from the seeded PRNG handed in by props/c10.py (own stream):

  context  ONE Expression object, a history of 2-4 evaluations.  Each identifier of the text is bound, per step, in the context dict, in
           cs.consts (set through the API) or in both (the context shadows), to a value of a class drawn from
              plain int | Python bool | cstruct integer (14 widths x signedness, alias spellings BYTE / DWORD / __u16 / int16_t / ...)
              | uleb128 / ileb128 | member or non-member value of a named enum (bases uint8..int64) | value of a named flag (a member, a
              union of members, UNDECLARED bits, 0, all ones; the flag type declares a random subset of bits) | pointer obtained by parsing
              (pointer size 2 / 4 / 8) | the member object of an anonymous enum / flag under another name;
           the text also mentions members of anonymous enums / flags directly (they are constants by loading).  Context None / {} when
           every identifier is a constant.  Each step: same object vs fresh object vs the C value.
  loaded   PROGRAMS: anonymous enums / flags (optional base type, flags declare a random subset of bits), named flag / enum types,
           `#define D <expression over the anonymous members and earlier defines>`, `enum EN { Z0 = <expression>, Z1, ... }`, a structure
           whose array dimension is an expression over them, and usage expressions evaluated with context None / {} / unrelated /
           shadowing by value-class instances; loaded in one load() / one load() per definition / loadfile(), LF / CRLF, compiled or not.
           cs.D, the enum members, the structure's size + parse and every usage expression vs the C value.
  fields   STRUCTURES whose earlier fields have those classes - cstruct ints, enum- and flag-typed fields, pointers, uleb128 / ileb128,
           bit-field groups (uintN, flag- and enum-typed bit fields) - followed by `uint8 d[<expr>]; [uint16 g[<expr>];] uint8 t;` with
           dimension expressions over the fields, anonymous members and a #define; parsed through T(buf) / T.reads / T.read / cs.read from
           bytes / bytearray / memoryview / BytesIO / a real file, compiled x interpreted, endianness spellings < > ! @ =, packed or
           aligned (power-of-two header fields), also as a member of an outer structure.  The bindings are what the parsed structure
           shows for the fields (int(x.f)); d, g, t (and the outer structure's trailing member) have to be what the C value of the
           dimensions prescribes on the known buffer.

EXPRESSIONS (gen_vtree): total by construction - for ANY integer bindings the tree stays in the domain in which the property prescribes
a value: shift counts are literals 0..8 or `(sub) & 7`; the operands of / and % are `(sub) & mask` and `(sub) & mask | 1`
(non-negative, non-zero divisor); everything else (~ - | ^ & + - * and sizeof of basic and of the named types) is unrestricted, and about a
third of the | ^ & + - * nodes get a negated literal as one operand.  Rendering (blanks, redundant parentheses, literal spellings) is
props/c10.py's `render`.  Dimension expressions are wrapped `(T) & 7` / `(T) >> k & 3` / `((T) & 3) + 1` / `((T) & 0xFFFF) % 7` (every bit of T matters) so
that 0 <= count <= 7.

ORACLE: the property - the value of the tree computed by the evaluator `vev` below on plain ints (the int() of each binding),
context first, then constants.  Every call into the library is wrapped: an exception where the property says the call succeeds is a
violation, not a crash.  CORRESPONDENCE: every evaluated text, with the integer bindings, also goes to the Lean model's `expr` command;
the model's value has to equal the value the real evaluator returned.

Domain notes (what is excluded, and why):
  * chars: int(b'a') is not defined (and int(b'7') == 7 is a Python accident) - a char is not an integer binding; floats likewise;
  * the identifier `u` is not used (F2: collides with the internal unary-minus marker), nor member names size / alignment / dynamic /
    cs / type (F51); field names and constant names are disjoint (F45); enum / flag members stay on one line each (F20); flag VALUES are
    non-negative also over signed bases (F22);
  * the legacy parser is not an entry point here (v9_c10.py documents why its constants are out of the property's reach);
  * align=True only with header fields whose size is a power of two <= 8 (the alignment of int24 / int48 / leb128 / bit fields is
    another property's subject), one array, not nested.
"""
from __future__ import annotations

import io
import sys
import tempfile
from pathlib import Path

from . import common
from .common import A, Case, sx

REPLAY_KIND = "valueclass"

INTS = {"uint8": (1, False), "int8": (1, True), "uint16": (2, False), "int16": (2, True), "uint24": (3, False), "int24": (3, True),
        "uint32": (4, False), "int32": (4, True), "uint48": (6, False), "int48": (6, True), "uint64": (8, False), "int64": (8, True),
        "uint128": (16, False), "int128": (16, True),
        # alias spellings of the same classes
        "BYTE": (1, False), "uchar": (1, False), "u1": (1, False), "WORD": (2, False), "__u16": (2, False), "int16_t": (2, True),
        "SHORT": (2, True), "DWORD": (4, False), "u4": (4, False), "LONG": (4, True), "ULONG": (4, False), "QWORD": (8, False),
        "ULONGLONG": (8, False), "__int64": (8, True)}
POW2 = [n for n, (s, _) in INTS.items() if s in (1, 2, 4, 8)]
BASES = {"uint8": (1, False), "int8": (1, True), "uint16": (2, False), "int16": (2, True), "uint32": (4, False), "int32": (4, True),
         "uint64": (8, False), "int64": (8, True)}
BASIC_SIZES = {"uint8": 1, "uint32": 4, "int128": 16, "wchar": 2, "int24": 3}
# no `u` (F2), nothing the structure classes use themselves
NAMES = ["p", "q", "k", "n", "m", "fl", "md", "cnt", "len_", "a0", "w", "ix", "pos", "h2", "x1", "_y", "b1", "sz", "l", "U", "sizeofx", "L"]
OPS = ["|"] * 3 + ["^"] * 3 + ["&"] * 3 + ["+"] * 2 + ["-"] * 2 + ["*"] + ["<<", ">>"] * 2 + ["/", "%"]
LIT_VALUES = [0, 1, 2, 3, 4, 5, 7, 8, 15, 16, 63, 64, 127, 128, 255, 256, 0xFFFF, 2 ** 31, 2 ** 32 - 1, 2 ** 64 - 1]
ENDIANS = ["<", ">", "<", ">", "!", "@", "="]


def P():
    from .props import c10  # late: props/c10.py imports this module

    return c10


def byteorder(endian: str) -> str:
    return {"<": "little", ">": "big", "!": "big"}.get(endian, sys.byteorder)


# ------------------------------------------------------------------------------------------------ expressions

def vnum(rnd, v=None):
    c10 = P()
    return ["num", rnd.choice(LIT_VALUES) if v is None else v, rnd.choice(c10.LIT_FORMS), rnd.choice(c10.SUFFIXES)]


def gen_vtree(rnd, d, idents, sizes):
    """a tree that is in the property's domain for ANY integer bindings of its identifiers"""
    if d <= 0 or rnd.random() < 0.22:
        r = rnd.random()
        if idents and r < 0.62:
            return ["id", rnd.choice(idents)]
        if r < 0.70:
            return ["sizeof", rnd.choice(sizes)]
        return vnum(rnd)
    if rnd.random() < 0.30:
        return ["un", "~" if rnd.random() < 0.6 else "-", gen_vtree(rnd, d - 1, idents, sizes)]
    op = rnd.choice(OPS)

    def sub():
        return gen_vtree(rnd, d - 1, idents, sizes)

    if op in ("<<", ">>"):
        cnt = vnum(rnd, rnd.randint(0, 8)) if rnd.random() < 0.6 else ["bin", "&", sub(), vnum(rnd, 7)]
        return ["bin", op, sub(), cnt]
    if op in ("/", "%"):
        left = ["bin", "&", sub(), vnum(rnd, rnd.choice([0x7F, 0xFF, 0xFFFF, 0xFFFFFFFF]))]
        right = ["bin", "|", ["bin", "&", sub(), vnum(rnd, rnd.choice([0xF, 0xFF]))], vnum(rnd, 1)]
        return ["bin", op, left, right]
    left, right = sub(), sub()
    if rnd.random() < 0.3:
        neg = ["un", "-", vnum(rnd, rnd.choice([1, 2, 8, 9, 256]))]
        if rnd.random() < 0.5:
            left = neg
        else:
            right = neg
    return ["bin", op, left, right]


def gen_expr(rnd, idents, sizes, depth=None):
    """-> tree that mentions at least one identifier (when there is one)"""
    for _ in range(40):
        t = gen_vtree(rnd, depth or rnd.randint(1, 4), idents, sizes)
        if not idents or ids_of(t, set()):
            return t
    return ["un", "~", ["id", idents[0]]]


def gen_dim(rnd, idents, sizes):
    """a dimension 0..7 for any bindings"""
    t = gen_expr(rnd, idents, sizes, rnd.randint(1, 3))
    r = rnd.random()
    if r < 0.3:
        return ["bin", "&", t, vnum(rnd, 7)]
    if r < 0.45:
        return ["bin", "&", ["bin", ">>", t, vnum(rnd, rnd.randint(0, 4))], vnum(rnd, 3)]
    if r < 0.58:
        return ["bin", "+", ["bin", "&", t, vnum(rnd, 3)], vnum(rnd, 1)]
    # every bit of the value matters: (T & 0xFFFF) % 7
    return ["bin", "%", ["bin", "&", t, vnum(rnd, rnd.choice([0xFF, 0xFFFF, 0xFFFFFFFF, 2 ** 64 - 1]))], vnum(rnd, rnd.choice([5, 7, 8, 6]))]


def ids_of(t, acc):
    if t[0] == "id":
        acc.add(t[1])
    elif t[0] in ("un", "bin"):
        for x in t[2:]:
            ids_of(x, acc)
    return acc


def ops_of(t, acc):
    if t[0] == "un":
        acc.add("unary" + t[1])
        ops_of(t[2], acc)
    elif t[0] == "bin":
        acc.add(t[1])
        ops_of(t[2], acc)
        ops_of(t[3], acc)
    return acc


def vev(t, env, sizes):
    """the C value of the tree over unbounded integers (independent of the library and of props/c10.py's evaluator)"""
    k = t[0]
    if k == "num":
        return t[1]
    if k == "id":
        return env[t[1]]
    if k == "sizeof":
        return sizes[t[1]]
    if k == "un":
        v = vev(t[2], env, sizes)
        return -v if t[1] == "-" else -v - 1
    a, b = vev(t[2], env, sizes), vev(t[3], env, sizes)
    op = t[1]
    if op in ("/", "%"):
        if a < 0 or b <= 0:
            raise common.Infra(f"v10_c10: generated a division outside the property's domain ({a} {op} {b})")
        return a // b if op == "/" else a - (a // b) * b
    if op in ("<<", ">>"):
        if not 0 <= b <= 8:
            raise common.Infra(f"v10_c10: generated a shift count outside 0..8 ({b})")
        return a * (1 << b) if op == "<<" else a // (1 << b)
    if op == "+":
        return a + b
    if op == "-":
        return a - b
    if op == "*":
        return a * b
    return a | b if op == "|" else a ^ b if op == "^" else a & b


def render(rnd, t):
    return P().render(rnd, tuple_tree(t), 0, rnd.choice([0.0, 0.1, 0.3]))


def tuple_tree(t):
    return tuple(tuple_tree(x) if isinstance(x, list) else x for x in t)


# ------------------------------------------------------------------------------------------------ declarations and bindings

def gen_named(rnd, name, kind):
    """a named enum / flag type -> {"kind", "name", "base", "members": [[m, v]], "lines"}"""
    base = rnd.choice(list(BASES)) if (name is None or rnd.random() < 0.85) else None
    if name is None and rnd.random() < 0.4:
        base = None
    size, signed = BASES[base] if base else (4, False)
    nbits = 8 * size - (1 if signed else 0)
    prefix = (name or f"AN{rnd.randrange(1000)}") + "_"
    if kind == "flag":
        lowest = min(nbits, 8)
        bits = set(rnd.sample(range(lowest), rnd.randint(1, min(4, lowest))))
        if rnd.random() < 0.25:
            bits.add(nbits - 1)
        vals = [1 << b for b in sorted(bits)]
    else:
        lo, hi = (-(1 << (8 * size - 1)), (1 << (8 * size - 1)) - 1) if signed else (0, (1 << (8 * size)) - 1)
        cand = [0, 1, 2, 3, 5, 9, 100, 127, 200, 255, 300, 65535, hi, hi - 1, lo, -1, -2, -7, -100]
        cand = sorted({v for v in cand if lo <= v <= hi})
        vals = rnd.sample(cand, rnd.randint(2, min(5, len(cand))))
    members = [[f"{prefix}{chr(97 + j)}", v] for j, v in enumerate(vals)]
    head = kind + (f" {name}" if name else "") + (f" : {base}" if base else "") + " {"
    ms = [f"{m} = {spell(rnd, v)}" for m, v in members]
    if rnd.random() < 0.7:
        lines = [head + " " + ", ".join(ms) + " };"]
    else:
        lines = [head] + ["    " + m + "," for m in ms[:-1]] + ["    " + ms[-1]] + ["};"]
    return {"kind": kind, "name": name, "base": base, "size": size, "signed": signed, "members": members, "lines": lines}


def spell(rnd, v):
    if v < 0:
        return "-" + spell(rnd, -v)
    return rnd.choice([str(v), hex(v), str(v), "0X%X" % v, "0b" + bin(v)[2:]])


def flag_value(rnd, decl):
    nbits = 8 * decl["size"] - (1 if decl["signed"] else 0)
    vals = [v for _, v in decl["members"]]
    r = rnd.random()
    if r < 0.3:
        return rnd.choice(vals)
    if r < 0.5:
        v = 0
        for x in rnd.sample(vals, rnd.randint(1, len(vals))):
            v |= x
        return v
    if r < 0.7:
        return (rnd.choice(vals) | (1 << rnd.randrange(nbits))) & ((1 << nbits) - 1)      # an undeclared bit (most of the time)
    if r < 0.78:
        return 0
    if r < 0.86:
        return (1 << nbits) - 1
    return rnd.randrange(1 << min(nbits, 10))


def enum_value(rnd, decl):
    if rnd.random() < 0.6:
        return rnd.choice(decl["members"])[1]
    lo, hi = (-(1 << (8 * decl["size"] - 1)), (1 << (8 * decl["size"] - 1)) - 1) if decl["signed"] else (0, (1 << (8 * decl["size"])) - 1)
    return rnd.choice([lo, hi, max(lo, -1), min(hi, 77), rnd.randint(max(lo, -300), min(hi, 300))])


def int_value(rnd, size, signed):
    lo, hi = (-(1 << (8 * size - 1)), (1 << (8 * size - 1)) - 1) if signed else (0, (1 << (8 * size)) - 1)
    r = rnd.random()
    if r < 0.45:
        return rnd.randint(max(lo, -9), min(hi, 20))
    if r < 0.7:
        return rnd.choice([lo, hi, hi - 1, lo + 1, hi // 2, max(lo, -1)])
    return rnd.randint(lo, hi)


def gen_world(rnd):
    """the declarations a case can draw value classes from"""
    flags = [gen_named(rnd, f"F{j}", "flag") for j in range(rnd.randint(1, 2))]
    enums = [gen_named(rnd, "E0", "enum")]
    ptr = rnd.choice(["uint16", "uint32", "uint64"])
    tgt = rnd.choice(["uint8", "uint32", "char", "void", "int64"])
    anons = [gen_named(rnd, None, rnd.choice(["flag", "flag", "enum"])) for _ in range(rnd.randint(0, 2))]
    names = set()
    for a in list(anons):                      # member prefixes are random: keep them distinct
        if any(m in names for m, _ in a["members"]):
            anons.remove(a)
        else:
            names.update(m for m, _ in a["members"])
    sizes = dict(BASIC_SIZES)
    for d in flags + enums:
        sizes[d["name"]] = d["size"]
    sizes["PH0"] = BASES[ptr][0]
    return {"flags": flags, "enums": enums, "anons": anons, "ptr": ptr, "ptr_target": tgt, "sizes": sizes,
            "holder": [f"struct PH0 {{ {tgt} *p; }};"]}


def world_lines(world, with_anons=True):
    out = []
    for d in world["flags"] + world["enums"]:
        out.extend(d["lines"])
    out.extend(world["holder"])
    if with_anons:
        for d in world["anons"]:
            out.extend(d["lines"])
    return out


def anon_members(world):
    return {m: v for d in world["anons"] for m, v in d["members"]}


def gen_binding(rnd, world, name):
    """-> {"name", "cls", "type", "value"}: the identifier bound to a value of some class"""
    r = rnd.random()
    if r < 0.10:
        return {"name": name, "cls": "int", "type": None, "value": rnd.choice([0, 1, 2, 5, 8, 255, 1000, -1, -7, 2 ** 40])}
    if r < 0.15:
        return {"name": name, "cls": "bool", "type": None, "value": rnd.randint(0, 1)}
    if r < 0.38:
        t = rnd.choice(list(INTS))
        return {"name": name, "cls": "cint", "type": t, "value": int_value(rnd, *INTS[t])}
    if r < 0.43:
        t = rnd.choice(["uleb128", "ileb128"])
        return {"name": name, "cls": "leb", "type": t, "value": int_value(rnd, rnd.choice([1, 2, 5]), t == "ileb128")}
    if r < 0.58:
        d = rnd.choice(world["enums"])
        return {"name": name, "cls": "enum", "type": d["name"], "value": enum_value(rnd, d)}
    if r < 0.85 or not world["anons"]:
        if r >= 0.78 and r < 0.85:
            return {"name": name, "cls": "pointer", "type": "PH0", "value": int_value(rnd, BASES[world["ptr"]][0], False)}
        d = rnd.choice(world["flags"])
        return {"name": name, "cls": "flag", "type": d["name"], "value": flag_value(rnd, d)}
    m, v = rnd.choice(sorted(anon_members(world).items()))
    return {"name": name, "cls": "anon", "type": m, "value": v}


def build_value(cs, b, world, endian):
    cls, v = b["cls"], b["value"]
    if cls == "int":
        return v
    if cls == "bool":
        return bool(v)
    if cls == "pointer":
        return cs.resolve(b["type"])(v.to_bytes(BASES[world["ptr"]][0], byteorder(endian))).p
    if cls == "anon":
        return cs.consts[b["type"]]
    return cs.resolve(b["type"])(v)


def build_bindings(cs, bindings, world, endian, fails, how):
    """-> ({name: object}, {name: int}) | None"""
    objs, ints = {}, {}
    for b in bindings:
        try:
            o = build_value(cs, b, world, endian)
            i = int(o)
        except Exception as ex:  # noqa: BLE001
            fails.append(f"{how} building the binding {b['name']} = {b['cls']} {b['type']}({b['value']}) raises {type(ex).__name__}: {str(ex)[:120]}")
            return None
        objs[b["name"]] = o
        ints[b["name"]] = i          # the integer the binding stands for, as the library shows it
    return objs, ints


def describe(bindings):
    return "{" + ", ".join(f"{b['name']}: {b['cls']}" + (f" {b['type']}" if b["type"] else "") + f"({b['value']})" for b in bindings) + "}"


def new_cs(dc, case):
    return dc.cstruct(endian=case["endian"], pointer=case["world"]["ptr"])


def py_binding(b, world, endian):
    if b["cls"] in ("int", "bool"):
        return repr(b["value"] if b["cls"] == "int" else bool(b["value"]))
    if b["cls"] == "pointer":
        return f"cs.PH0(({b['value']}).to_bytes({BASES[world['ptr']][0]}, {byteorder(endian)!r})).p"
    if b["cls"] == "anon":
        return f"cs.consts[{b['type']!r}]"
    return f"cs.resolve({b['type']!r})({b['value']})"


def py_dict(bindings, world, endian):
    if bindings is None:
        return "None"
    return "{" + ", ".join(f"{b['name']!r}: {py_binding(b, world, endian)}" for b in bindings) + "}"


# ------------------------------------------------------------------------------------------------ family "context"

def gen_context_case(rnd, tier):
    world = gen_world(rnd)
    endian = rnd.choice(ENDIANS)
    anon = anon_members(world)
    names = rnd.sample(NAMES, rnd.randint(1, 4))
    direct = rnd.sample(sorted(anon), min(len(anon), rnd.randint(0, 2)))
    tree = gen_expr(rnd, names + direct, sorted(world["sizes"]))
    used = sorted(ids_of(tree, set()))
    text = render(rnd, tree)
    steps = []
    for k in range(rnd.randint(2, 4 if tier == "quick" else 6)):
        if k and rnd.random() < 0.2:
            steps.append({"ctx": None if steps[-1]["ctx"] is None else list(steps[-1]["ctx"]), "consts": list(steps[-1]["consts"])})   # the same again
            continue
        ctx, consts = [], []
        all_consts = rnd.random() < 0.25
        for n in used:
            if n in anon:
                if rnd.random() < 0.25:
                    ctx.append(gen_binding(rnd, world, n))               # a field shadows the anonymous member
                continue
            r = rnd.random()
            if all_consts or r < 0.3:
                consts.append(gen_binding(rnd, world, n))
            elif r < 0.45:
                consts.append(gen_binding(rnd, world, n))
                ctx.append(gen_binding(rnd, world, n))                   # the context shadows the constant
            else:
                ctx.append(gen_binding(rnd, world, n))
        if not ctx:
            ctx = rnd.choice([None, []])
        elif rnd.random() < 0.2:
            ctx.append({"name": "zz", "cls": "cint", "type": "uint8", "value": 9})       # a field the text does not mention
        steps.append({"ctx": ctx, "consts": consts})
    return {"kind": REPLAY_KIND, "family": "context", "endian": endian, "world": world, "tree": tree, "text": text, "steps": steps,
            "opts": {"compiled": rnd.random() < 0.5}}


def context_repro(case):
    w, e = case["world"], case["endian"]
    lines = [f"from dissect.cstruct import cstruct; from dissect.cstruct.expression import Expression; cs = cstruct(endian={e!r}, pointer={w['ptr']!r})",
             f"cs.load({chr(10).join(world_lines(w))!r}); base = dict(cs.consts); ex = Expression(cs, {case['text']!r})"]
    for st in case["steps"]:
        lines.append(f"cs.consts = dict(base); cs.consts.update({py_dict(st['consts'], w, e)}); print(ex.evaluate({py_dict(st['ctx'], w, e)}))")
    return "; ".join(lines)


def check_context(dc, case, obs=None):
    from dissect.cstruct.expression import Expression

    fails = []
    world, endian, text, tree = case["world"], case["endian"], case["text"], case["tree"]
    how = f"[context, endian {endian}]"
    try:
        cs = new_cs(dc, case)
        cs.load("\n".join(world_lines(world)) + "\n", **case["opts"])
        base = dict(cs.consts)
    except Exception as ex:  # noqa: BLE001
        return [f"{how} loading the declarations raises {type(ex).__name__}: {str(ex)[:200]} (every definition is well-formed)"]
    try:
        base_ints = {k: int(v) for k, v in base.items()}
    except Exception as ex:  # noqa: BLE001
        return [f"{how} a constant defined by an anonymous enum / flag has no integer value ({type(ex).__name__}: {str(ex)[:120]})"]
    for m, v in anon_members(world).items():
        if base_ints.get(m) != v:
            return [f"{how} the anonymous member {m} is {base.get(m)!r} in cs.consts, C numbering gives {v}"]
    try:
        shared = Expression(cs, text)
    except Exception as ex:  # noqa: BLE001
        return [f"{how} Expression(cs, {text!r}) raises {type(ex).__name__}: {str(ex)[:120]} (the text is well-formed)"]
    for k, st in enumerate(case["steps"]):
        built_c = build_bindings(cs, st["consts"], world, endian, fails, how)
        built_x = build_bindings(cs, st["ctx"] or [], world, endian, fails, how)
        if built_c is None or built_x is None:
            return fails
        env = dict(base_ints)
        env.update(built_c[1])
        env.update(built_x[1])
        want = vev(tree, env, world["sizes"])
        ctx = None if st["ctx"] is None else built_x[0]
        where = f"context {'None' if st['ctx'] is None else describe(st['ctx'])}, constants {describe(st['consts'])}"
        got = {}
        for label, make in (("same", lambda: shared), ("fresh", lambda: Expression(cs, text))):
            try:
                cs.consts = dict(base)
                cs.consts.update(built_c[0])
                got[label] = int(make().evaluate(None if ctx is None else dict(ctx)))
            except Exception as ex:  # noqa: BLE001
                got[label] = f"{type(ex).__name__}: {str(ex)[:100]}"
        if obs is not None:
            obs.append((text, {n: env[n] for n in built_x[1]}, {n: v for n, v in env.items() if n not in built_x[1] and n in ids_of(tree, set())},
                        got["same"], f"step {k}: {where}"))
        if got["fresh"] != want:
            fails.append(f"{how} {text!r} with {where}: a fresh Expression evaluates to {got['fresh']!r}, C semantics on the integers "
                         f"{ {n: env[n] for n in sorted(ids_of(tree, set()))} } give {want}")
            break
        if got["same"] != want:
            fails.append(f"{how} {text!r}, step {k} on the same Expression object with {where}: {got['same']!r}; a fresh object and C semantics give {want}")
            break
    cs.consts = base
    return fails


# ------------------------------------------------------------------------------------------------ family "loaded"

def gen_loaded_case(rnd, tier):
    world = gen_world(rnd)
    while not world["anons"]:
        world = gen_world(rnd)
    endian = rnd.choice(ENDIANS)
    scope = dict(anon_members(world))
    sizes = sorted(world["sizes"])
    items = []
    dnames = rnd.sample(["D0", "LIMIT", "K_MASK", "dd", "N2"], rnd.randint(1, 3))
    plan = [("define", n) for n in dnames] + [("enum", "EN")] * rnd.randint(0, 1) + [("struct", "T0")] * rnd.randint(0, 1)
    rnd.shuffle(plan)
    for what, n in plan:
        idents = rnd.sample(sorted(scope), min(len(scope), rnd.randint(1, 3)))
        if what == "define":
            t = gen_expr(rnd, idents, sizes)
            v = vev(t, scope, world["sizes"])
            body = render(rnd, t)
            s1, s2 = rnd.choice([" ", " ", "\t", "  "]), rnd.choice([" ", " ", "\t", "  "])
            items.append({"type": "define", "name": n, "tree": t, "body": body, "want": v, "lines": [f"#define{s1}{n}{s2}{body}"],
                          "scope": {i: scope[i] for i in ids_of(t, set())}})
            scope[n] = v
        elif what == "enum":
            members, prev = [], None
            for j in range(rnd.randint(2, 4)):
                if prev is not None and rnd.random() < 0.3:
                    members.append([f"Z{j}", None, None, prev + 1])
                    prev += 1
                    continue
                t = ["bin", "&", gen_expr(rnd, idents, sizes, rnd.randint(1, 3)), vnum(rnd, rnd.choice([0xFF, 0xFFFF, 0x7F]))]
                v = vev(t, scope, world["sizes"])
                members.append([f"Z{j}", t, render(rnd, t), v])
                prev = v
            line = "enum EN : uint32 { " + ", ".join(m + (f" = {txt}" if txt is not None else "") for m, _, txt, _ in members) + " };"
            items.append({"type": "enum", "name": "EN", "members": members, "lines": [line]})
        else:
            t = gen_dim(rnd, idents, sizes)
            nd = vev(t, scope, world["sizes"])
            data = bytes(rnd.randrange(256) for _ in range(nd + 2 + rnd.choice([0, 2])))
            items.append({"type": "struct", "name": "T0", "tree": t, "dim": nd, "data": data.hex(),
                          "lines": [f"struct T0 {{ uint8 h; uint8 d[{render(rnd, t)}]; uint8 t; }};"], "call": rnd.choice(["call", "reads", "read", "cs.read"])})
    exprs = []
    for _ in range(rnd.randint(2, 4)):
        idents = rnd.sample(sorted(scope), min(len(scope), rnd.randint(1, 3)))
        t = gen_expr(rnd, idents, sizes)
        used = sorted(ids_of(t, set()))
        r = rnd.random()
        if r < 0.3:
            ctx = None
        elif r < 0.45:
            ctx = []
        elif r < 0.55:
            ctx = [{"name": "zz", "cls": "flag", "type": world["flags"][0]["name"], "value": 1}]
        else:
            ctx = [gen_binding(rnd, world, n) for n in rnd.sample(used, rnd.randint(1, len(used)))]
        exprs.append({"tree": t, "text": render(rnd, t), "ctx": ctx, "consts": {i: scope[i] for i in used}})
    return {"kind": REPLAY_KIND, "family": "loaded", "endian": endian, "world": world, "items": items, "exprs": exprs,
            "opts": {"compiled": rnd.random() < 0.5},
            "present": {"mode": rnd.choice(["one-text", "one-text", "per-definition", "loadfile"]), "eol": rnd.choice(["\n", "\n", "\r\n"])}}


def loaded_chunks(case):
    eol = case["present"]["eol"]
    blocks = [[l] for l in world_lines(case["world"], with_anons=False)]
    blocks = [[l for b in blocks for l in b]]
    for d in case["world"]["anons"]:
        blocks.append(d["lines"])
    for it in case["items"]:
        blocks.append(it["lines"])
    if case["present"]["mode"] == "per-definition":
        return [eol.join(b) + eol for b in blocks]
    return [eol.join(l for b in blocks for l in b) + eol]


def loaded_repro(case):
    w = case["world"]
    head = (f"from dissect.cstruct import cstruct; from dissect.cstruct.expression import Expression; "
            f"cs = cstruct(endian={case['endian']!r}, pointer={w['ptr']!r}); ")
    opts = ", ".join(f"{k}={v!r}" for k, v in case["opts"].items())
    if case["present"]["mode"] == "loadfile":
        return head + f"open('/tmp/defs.h', 'w', newline='').write({loaded_chunks(case)[0]!r}); cs.loadfile('/tmp/defs.h', {opts})"
    return head + "; ".join(f"cs.load({c!r}, {opts})" for c in loaded_chunks(case))


def parse_with(cs, T, name, data, call, container, tmpdir):
    """one of the public ways to parse `data` as T"""
    fh = None
    try:
        if container == "bytearray":
            src = bytearray(data)
        elif container == "memoryview":
            src = memoryview(data)
        elif container == "BytesIO":
            src = io.BytesIO(data)
        elif container == "file":
            p = Path(tmpdir) / "buf.bin"
            p.write_bytes(data)
            src = fh = open(p, "rb")
        else:
            src = data
        if call == "call":
            return T(src)
        if call == "reads":
            return T.reads(src)
        if call == "read":
            return T.read(src)
        return cs.read(name, src)
    finally:
        if fh is not None:
            fh.close()


def check_loaded(dc, case, tmpdir, obs=None):
    from dissect.cstruct.expression import Expression

    fails = []
    world, endian = case["world"], case["endian"]
    pres = case["present"]
    how = f"[loaded, {pres['mode']}, eol {pres['eol']!r}, {case['opts']}, endian {endian}]"
    try:
        cs = new_cs(dc, case)
        chunks = loaded_chunks(case)
        if pres["mode"] == "loadfile":
            p = Path(tmpdir) / "defs.h"
            with open(p, "w", newline="") as fh:
                fh.write(chunks[0])
            cs.loadfile(str(p), **case["opts"])
        else:
            for c in chunks:
                cs.load(c, **case["opts"])
    except Exception as ex:  # noqa: BLE001
        return [f"{how} loading the definitions raises {type(ex).__name__}: {str(ex)[:200]} (every definition is well-formed)"]
    for m, v in anon_members(world).items():
        try:
            got = int(cs.consts[m])
        except Exception as ex:  # noqa: BLE001
            got = f"{type(ex).__name__}: {str(ex)[:80]}"
        if got != v:
            return [f"{how} the anonymous member {m} is {got!r} in cs.consts, C numbering gives {v}"]
    for it in case["items"]:
        decl = " ".join(it["lines"])
        if it["type"] == "define":
            try:
                got = getattr(cs, it["name"])
                if isinstance(got, int):
                    got = int(got)
            except Exception as ex:  # noqa: BLE001
                got = f"{type(ex).__name__}: {str(ex)[:100]}"
            if obs is not None:
                obs.append((it["body"], {}, it["scope"], got, f"`{decl}`"))
            if got != it["want"]:
                fails.append(f"{how} `{decl}`: cs.{it['name']} is {got!r}; the members' integers {it['scope']} give the C value {it['want']}")
        elif it["type"] == "enum":
            for m, _, txt, want in it["members"]:
                try:
                    got = int(getattr(cs.EN, m))
                except Exception as ex:  # noqa: BLE001
                    got = f"{type(ex).__name__}: {str(ex)[:100]}"
                if got != want:
                    fails.append(f"{how} `{decl}`: member {m} is {got!r}, C numbering gives {want}")
                    break
        else:
            data = bytes.fromhex(it["data"])
            nd = it["dim"]
            try:
                T = cs.T0
                x = parse_with(cs, T, "T0", data, it["call"], "BytesIO" if it["call"] == "read" else "bytes", tmpdir)
                got = (int(x.h), [int(e) for e in x.d], int(x.t))
            except Exception as ex:  # noqa: BLE001
                got = f"{type(ex).__name__}: {str(ex)[:100]}"
            want = (data[0], list(data[1:1 + nd]), data[1 + nd])
            if got != want:
                fails.append(f"{how} `{decl}`: {it['data']} parses ({it['call']}) to (h, d, t) = {got!r}; the dimension's C value {nd} prescribes {want!r}")
    for ex_ in case["exprs"]:
        built = build_bindings(cs, ex_["ctx"] or [], world, endian, fails, how)
        if built is None:
            break
        env = dict(ex_["consts"])
        env.update(built[1])
        want = vev(ex_["tree"], env, world["sizes"])
        ctx = None if ex_["ctx"] is None else built[0]
        try:
            got = int(Expression(cs, ex_["text"]).evaluate(ctx))
        except Exception as ex:  # noqa: BLE001
            got = f"{type(ex).__name__}: {str(ex)[:100]}"
        what = f"Expression(cs, {ex_['text']!r}).evaluate({'None' if ex_['ctx'] is None else describe(ex_['ctx'])})"
        if obs is not None:
            obs.append((ex_["text"], built[1], {n: v for n, v in ex_["consts"].items() if n not in built[1]}, got, what))
        if got != want:
            fails.append(f"{how} {what} gives {got!r} after the constants were defined by the loaded text; the integers "
                         f"{ {n: env[n] for n in sorted(ex_['consts'])} } give the C value {want}")
    return fails


# ------------------------------------------------------------------------------------------------ family "fields"

def leb_encode(v, signed):
    out = bytearray()
    while True:
        b = v & 0x7F
        v >>= 7
        done = (v == 0 and not b & 0x40) or (v == -1 and b & 0x40) if signed else v == 0
        out.append(b | (0 if done else 0x80))
        if done:
            return bytes(out)


def gen_fields_case(rnd, tier):
    world = gen_world(rnd)
    endian = rnd.choice(ENDIANS)
    bo = byteorder(endian)
    align = rnd.random() < 0.25
    anon = anon_members(world)
    names = rnd.sample(NAMES, len(NAMES))
    fields, decls, header = [], [], bytearray()
    psize = BASES[world["ptr"]][0]

    def put(raw, alignment):
        if align:
            while len(header) % alignment:
                header.append(rnd.randrange(256))
        header.extend(raw)

    for _ in range(rnd.randint(1, 4)):
        r = rnd.random()
        name = names.pop()
        if r < 0.27:
            t = rnd.choice(POW2 if align else list(INTS))
            size, signed = INTS[t]
            v = int_value(rnd, size, signed)
            decls.append(f"{t} {name};")
            put(v.to_bytes(size, bo, signed=signed), size)
            fields.append({"name": name, "cls": "cint", "type": t, "value": v})
        elif r < 0.55:
            d = rnd.choice(world["flags"])
            v = flag_value(rnd, d)
            decls.append(f"{d['name']} {name};")
            put(v.to_bytes(d["size"], bo, signed=d["signed"]), d["size"])
            fields.append({"name": name, "cls": "flag", "type": d["name"], "value": v})
        elif r < 0.68:
            d = rnd.choice(world["enums"])
            v = enum_value(rnd, d)
            decls.append(f"{d['name']} {name};")
            put(v.to_bytes(d["size"], bo, signed=d["signed"]), d["size"])
            fields.append({"name": name, "cls": "enum", "type": d["name"], "value": v})
        elif r < 0.78:
            v = int_value(rnd, psize, False)
            decls.append(f"{world['ptr_target']} *{name};")
            put(v.to_bytes(psize, bo), psize)
            fields.append({"name": name, "cls": "pointer", "type": world["ptr_target"] + "*", "value": v})
        elif r < 0.86 and not align:
            t = rnd.choice(["uleb128", "ileb128"])
            v = int_value(rnd, rnd.choice([1, 2, 5]), t == "ileb128")
            decls.append(f"{t} {name};")
            put(leb_encode(v, t == "ileb128"), 1)
            fields.append({"name": name, "cls": "leb", "type": t, "value": v})
        elif not align:
            # a bit-field group that fills its storage unit exactly; the values are whatever the library reads from random bytes
            cands = [(n, BASES[n][0]) for n in ("uint8", "uint16", "uint32")]
            cands += [(d["name"], d["size"]) for d in world["flags"] + world["enums"] if not d["signed"] and d["base"] and d["size"] <= 4]
            t, size = rnd.choice(cands)
            left, group = 8 * size, [name]
            while left:
                nm = group.pop() if group else (names.pop() if names else None)
                if nm is None:
                    nm = f"bf{left}"
                bits = left if (rnd.random() < 0.35 or len(fields) > 6) else rnd.randint(1, left)
                decls.append(f"{t} {nm} : {bits};")
                fields.append({"name": nm, "cls": "bits", "type": f"{t}:{bits}", "value": None})
                left -= bits
            put(bytes(rnd.randrange(256) for _ in range(size)), 1)
        else:
            t = rnd.choice(POW2)
            size, signed = INTS[t]
            v = int_value(rnd, size, signed)
            decls.append(f"{t} {name};")
            put(v.to_bytes(size, bo, signed=signed), size)
            fields.append({"name": name, "cls": "cint", "type": t, "value": v})
    fnames = [f["name"] for f in fields]
    define = None
    consts = dict(anon)
    if rnd.random() < 0.4:
        define = ["KK", rnd.choice([3, 5, 0x10, 255])]
        consts["KK"] = define[1]
    sizes = sorted(world["sizes"])

    def dim():
        ids = rnd.sample(fnames, rnd.randint(1, min(3, len(fnames)))) + rnd.sample(sorted(consts), min(len(consts), rnd.randint(0, 1)))
        for _ in range(30):
            t = gen_dim(rnd, ids, sizes)
            if ids_of(t, set()) & set(fnames):
                return t
        return ["bin", "&", ["un", "~", ["id", fnames[0]]], vnum(rnd, 7)]

    dims = [dim()]
    dim_texts = [render(rnd, dims[0])]
    arrays = [f"uint8 d[{dim_texts[0]}];"]
    if not align and rnd.random() < 0.35:
        dims.append(dim())
        dim_texts.append(render(rnd, dims[1]))
        arrays.append(f"uint16 g[{dim_texts[1]}];")
    body = decls + arrays + ["uint8 t;"]
    if rnd.random() < 0.6:
        lines = ["struct T0 { " + " ".join(body) + " };"]
    else:
        lines = ["struct T0 {"] + ["    " + b for b in body] + ["};"]
    nested = (not align) and rnd.random() < 0.25
    if nested:
        lines.append("struct O { uint8 pre; T0 in; uint8 post; };")
    payload = bytes(rnd.randrange(256) for _ in range(7 + 14 + 2 + rnd.choice([0, 3])))
    buf = (b"\xA5" if nested else b"") + bytes(header) + payload
    call = rnd.choice(["call", "call", "reads", "read", "cs.read"])
    container = rnd.choice({"call": ["bytes", "bytearray", "memoryview", "BytesIO", "file"], "reads": ["bytes", "bytearray", "memoryview"],
                            "read": ["BytesIO", "file"], "cs.read": ["bytes", "bytearray", "memoryview", "BytesIO", "file"]}[call])
    opts = {"compiled": rnd.random() < 0.5}
    if align or rnd.random() < 0.3:
        opts["align"] = align
    return {"kind": REPLAY_KIND, "family": "fields", "endian": endian, "world": world, "fields": fields, "dims": dims, "dim_texts": dim_texts, "lines": lines,
            "define": define, "nested": nested, "hdr_len": len(header), "buf": buf.hex(), "call": call, "container": container, "opts": opts}


def fields_text(case):
    w = case["world"]
    lines = world_lines(w) + ([f"#define {case['define'][0]} {case['define'][1]}"] if case["define"] else []) + case["lines"]
    return "\n".join(lines) + "\n"


def fields_repro(case):
    name = "O" if case["nested"] else "T0"
    opts = ", ".join(f"{k}={v!r}" for k, v in case["opts"].items())
    return (f"from dissect.cstruct import cstruct; cs = cstruct(endian={case['endian']!r}, pointer={case['world']['ptr']!r}); "
            f"cs.load({fields_text(case)!r}, {opts}); print(cs.{name}(bytes.fromhex({case['buf']!r})))   # entry {case['call']} from {case['container']}")


def check_fields(dc, case, tmpdir, obs=None):
    fails = []
    world, endian = case["world"], case["endian"]
    how = f"[fields, {case['call']} from {case['container']}, {case['opts']}, endian {endian}{', nested' if case['nested'] else ''}]"
    decl = " ".join(case["lines"])
    try:
        cs = new_cs(dc, case)
        cs.load(fields_text(case), **case["opts"])
        name = "O" if case["nested"] else "T0"
        T = getattr(cs, name)
    except Exception as ex:  # noqa: BLE001
        return [f"{how} loading {decl} raises {type(ex).__name__}: {str(ex)[:200]} (every definition is well-formed)"]
    buf = bytes.fromhex(case["buf"])
    try:
        outer = parse_with(cs, T, name, buf, case["call"], case["container"], tmpdir)
        x = getattr(outer, "in") if case["nested"] else outer
        seen = {f["name"]: int(getattr(x, f["name"])) for f in case["fields"]}
        got_d = [int(e) for e in x.d]
        got_g = [int(e) for e in x.g] if len(case["dims"]) > 1 else None
        got_t = int(x.t)
        got_post = int(outer.post) if case["nested"] else None
    except Exception as ex:  # noqa: BLE001
        return [f"{how} {decl}: parsing {case['buf']} raises {type(ex).__name__}: {str(ex)[:160]}; every dimension is in 0..7 for any field values "
                f"and the buffer holds enough bytes"]
    env = dict(anon_members(world))
    if case["define"]:
        env[case["define"][0]] = case["define"][1]
    env.update(seen)
    off = case["hdr_len"] + (1 if case["nested"] else 0)
    n1 = vev(case["dims"][0], env, world["sizes"])
    want_d = list(buf[off:off + n1])
    off += n1
    want_g = None
    if len(case["dims"]) > 1:
        n2 = vev(case["dims"][1], env, world["sizes"])
        want_g = [int.from_bytes(buf[off + 2 * i:off + 2 * i + 2], byteorder(endian)) for i in range(n2)]
        off += 2 * n2
    want_t = buf[off]
    want_post = buf[off + 1] if case["nested"] else None
    if obs is not None:
        used = ids_of(case["dims"][0], set())
        obs.append((case["dim_texts"][0], {n: v for n, v in seen.items() if n in used},
                    {n: v for n, v in env.items() if n not in seen and n in used}, len(got_d), f"the dimension of d in {decl}"))
    if (got_d, got_g, got_t, got_post) != (want_d, want_g, want_t, want_post):
        fails.append(f"{how} {decl}: {case['buf']} parses to fields {seen} d={got_d} g={got_g} t={got_t} post={got_post}; the C values of the "
                     f"dimensions on those field values prescribe d={want_d} g={want_g} t={want_t} post={want_post}")
    return fails


# ------------------------------------------------------------------------------------------------ model lines

def model_line(text, ctx, consts, sizes):
    c = [[A(k), v] for k, v in (ctx or {}).items()]
    return sx([A("expr"), text, c, [[A(k), v] for k, v in consts.items()], [[A(k), v] for k, v in sizes.items()], c])


# ------------------------------------------------------------------------------------------------ entry points

def check_case(dc, case, tmpdir, obs=None):
    fam = case["family"]
    if fam == "context":
        return check_context(dc, case, obs)
    if fam == "loaded":
        return check_loaded(dc, case, tmpdir, obs)
    return check_fields(dc, case, tmpdir, obs)


def repro_of(case):
    return {"context": context_repro, "loaded": loaded_repro, "fields": fields_repro}[case["family"]](case)


def features(res, case):
    fam = case["family"]
    res.feat(f"kind:valueclass-{fam}")
    res.feat("valueclass:options=" + ",".join(f"{k}={v}" for k, v in sorted(case["opts"].items())))
    res.feat(f"valueclass:endian={case['endian']}")
    trees, bindings = [], []
    if fam == "context":
        trees = [case["tree"]]
        for st in case["steps"]:
            bindings += [("context", b) for b in (st["ctx"] or [])] + [("consts-API", b) for b in st["consts"]]
            res.feat("valueclass:context=" + ("None" if st["ctx"] is None else "empty" if not st["ctx"] else "bound"))
        if ids_of(case["tree"], set()) & set(anon_members(case["world"])):
            bindings.append(("consts-loaded", {"cls": "anon"}))
        res.feat(f"valueclass:history-length={len(case['steps'])}")
    elif fam == "loaded":
        res.feat(f"valueclass:entry={case['present']['mode']}")
        for it in case["items"]:
            res.feat(f"valueclass:loaded-item={it['type']}")
            if it["type"] != "enum":
                trees.append(it["tree"])
        for ex_ in case["exprs"]:
            trees.append(ex_["tree"])
            bindings += [("context", b) for b in (ex_["ctx"] or [])]
            res.feat("valueclass:context=" + ("None" if ex_["ctx"] is None else "empty" if not ex_["ctx"] else "bound"))
        bindings.append(("consts-loaded", {"cls": "anon"}))
        for d in case["world"]["anons"]:
            res.feat(f"valueclass:anonymous-{d['kind']}" + ("" if d["base"] else "-no-base"))
    else:
        trees = case["dims"]
        bindings = [("field", f) for f in case["fields"]]
        res.feat(f"valueclass:entry={case['call']}-from-{case['container']}")
        if case["nested"]:
            res.feat("valueclass:nested-in-outer-structure")
        res.feat(f"valueclass:arrays={len(case['dims'])}")
    for route, b in bindings:
        res.feat(f"valueclass:binding={route}:{b['cls']}")
    ops = set()
    for t in trees:
        ops_of(t, ops)
    for o in ops:
        res.feat(f"valueclass:operator={o}")


def run(env, res, rnd):
    dc = common.import_repo()
    tier = env["tier"]
    nq = {"context": 450, "loaded": 130, "fields": 380}
    mult = 1 if tier == "quick" else 14
    gens = {"context": gen_context_case, "loaded": gen_loaded_case, "fields": gen_fields_case}
    lines, metas, found = [], [], []
    with tempfile.TemporaryDirectory(prefix="v10c10-") as tmpdir:
        for fam in ("context", "loaded", "fields"):
            for _ in range(nq[fam] * mult):
                case = gens[fam](rnd, tier)
                obs = []
                fails = check_case(dc, case, tmpdir, obs)
                features(res, case)
                if fam == "context":
                    for k, st in enumerate(case["steps"]):
                        res.count(("valueclass", case["text"], k, repr(st)), True)
                elif fam == "loaded":
                    for it in case["items"]:
                        res.count(("valueclass", tuple(it["lines"])), True)
                    for ex_ in case["exprs"]:
                        res.count(("valueclass", ex_["text"], repr(ex_["ctx"]), repr(ex_["consts"])), True)
                else:
                    res.count(("valueclass", tuple(case["lines"]), case["buf"], case["call"], case["container"]), True)
                if fails:
                    data = dict(case)
                    data["failures"] = fails[:6]
                    data["repro"] = repro_of(case)
                    found.append(Case("property", "identifiers bound to value classes: " + fails[0], data))
                    continue
                if fam == "context":
                    res.sample({"text": case["text"], "steps": [[None if st["ctx"] is None else describe(st["ctx"]), describe(st["consts"])]
                                                                for st in case["steps"]], "values": [o[3] for o in obs]}, 14)
                if env["driver_ok"]:
                    for o in obs:
                        lines.append(model_line(o[0], o[1], o[2], case["world"]["sizes"]))
                        metas.append((case, o[0], o[3], o[4]))
    res.violations.extend(sorted(found, key=lambda c: len(c.what)))        # the shortest failing input first
    if lines:
        res.feat("valueclass:texts-sent-to-the-model", len(lines))
        c10 = P()
        for (case, text, real, what), ans in zip(metas, common.run_driver(lines)):
            m1, m2, _ = c10.parse_driver(ans)
            if m1 != ("ok", real) or m2 != ("ok", real):
                data = dict(case)
                data["repro"] = repro_of(case)
                res.disagreements.append(Case("corr", f"identifiers bound to value classes: the model's evaluator gives {c10.show(m1)} / {c10.show(m2)} "
                                              f"for {text!r} ({what}) on the integer bindings; the implementation gives {real!r}", data))


def replay(body) -> int:
    """re-run the recorded case on the current tree: 1 if the property still fails on it"""
    dc = common.import_repo()
    case = body["case"]
    with tempfile.TemporaryDirectory(prefix="v10c10-") as tmpdir:
        fails = check_case(dc, case, tmpdir)
    print("replay:", case["family"], "|", (case.get("repro") or "")[:700])
    for f in fails[:6]:
        print("replay: still fails:", f[:500])
    if not fails:
        print("replay: the recorded case passes every check on the current tree |", (body.get("what") or "")[:300])
    return 1 if fails else 0
