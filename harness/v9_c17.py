"""C17 probe (v9): truth value of unions that have structure members, and of structures that contain such unions.

"An instance is falsy exactly when all its fields are."  Structure-typed members of a union are handed out wrapped (a proxy
that rebuilds the union on assignment); the truth value of the wrapper has to be the truth value of the structure it stands
for, otherwise an all-zero union with a nested structure is truthy although every field is zero (defect F79, fixed).

Definitions: a union U of 2..4 members of which 1..2 are structures (plain integers, char[k], a nested structure one level
deeper), optionally inside a structure W { uint8 pre; U u; uint16 post; } and inside an array member U us[2]; packed / aligned x
compiled / interpreted x endianness.  Instances: default-constructed, parsed from zero bytes, parsed from bytes with exactly one
non-zero byte (every position), parsed from random bytes, and after assigning zero / non-zero through the nested structure.

Oracle (the property, on observable values): truth(v) for a structure-like value (Structure, Union, or the wrapper) is
any(truth(field value) for its declared fields); for every other value Python's own truth value.  bool(x) has to equal truth(x)
for the instance and for every structure-like member reached from it; a structure-like value and its twin parsed on its own
from the same bytes agree on bool().
"""
from __future__ import annotations

from . import impl

INNER = ["uint8 a; uint8 b;", "uint16 x; uint16 y;", "char t[2]; uint8 k;", "uint8 p; struct { uint8 q; uint8 r; } in; "]
PLAIN = [("uint8", ""), ("uint16", ""), ("uint32", ""), ("uint8", "[4]"), ("char", "[3]")]


def fields_of(v):
    cls = getattr(v, "__target__", v).__class__
    return getattr(cls, "__fields__", None)


def truth(v):
    if not struct_like(v):
        return bool(v)
    return any(truth(getattr(v, f._name)) for f in fields_of(v))


def struct_like(v):
    return fields_of(v) is not None and hasattr(v, "dumps")


def walk(v, path="x"):
    yield path, v
    for f in fields_of(v) or []:
        w = getattr(v, f._name)
        if struct_like(w):
            yield from walk(w, path + "." + f._name)


def run(env, res, viol, rnd, reps):
    dc = impl.dc()
    for _ in range(reps):
        endian = rnd.choice("<>")
        align = rnd.random() < 0.4
        compiled = rnd.random() < 0.5
        nin = rnd.choice([1, 1, 2])
        members = [("S%d" % i, rnd.choice(INNER)) for i in range(nin)]
        plain = rnd.sample(PLAIN, rnd.choice([1, 2]))
        order = [("s", m) for m in members] + [("p", p) for p in plain]
        rnd.shuffle(order)
        text = "".join(f"struct {n} {{ {body} }};\n" for n, body in members)
        text += "union U { " + " ".join(f"{m[0]} m{i};" if k == "s" else f"{m[0]} f{i}{m[1]};" for i, (k, m) in enumerate(order)) + " };\n"
        text += "struct W { uint8 pre; U u; uint16 post; };\nstruct V { U us[2]; };\n"
        cs = dc.cstruct(endian=endian)
        cd = {"definition": text, "endian": endian, "align": align, "compiled": compiled}
        try:
            cs.load(text, align=align, compiled=compiled)
        except Exception as e:  # noqa: BLE001
            viol(f"definition rejected: {type(e).__name__}: {e}", cd)
            continue
        res.feat("v9:" + ("aligned" if align else "packed") + "," + ("compiled" if compiled else "interpreted"))
        for tname in ("U", "W", "V"):
            T = getattr(cs, tname)
            size = len(T)
            datas = [bytes(size)] + [bytes(size)[:i] + bytes([rnd.choice([1, 0x80, 0xff])]) + bytes(size)[i + 1:] for i in range(size)]
            datas += [bytes(rnd.getrandbits(8) for _ in range(size)) for _ in range(2)]
            insts = [("default", None, T())]
            for d in datas:
                try:
                    insts.append(("parsed", d, T(d)))
                except Exception as e:  # noqa: BLE001
                    viol(f"parse raises {type(e).__name__}: {e}", {**cd, "type": tname, "data": d.hex()})
            # assignment through a nested structure of the (first) union
            try:
                x = T(bytes(size))
                u = x if tname == "U" else (x.u if tname == "W" else x.us[0])
                sm = next(f for f in u.__class__.__fields__ if struct_like(getattr(u, f._name)))
                inner_f = next(f for f in fields_of(getattr(u, sm._name)) if isinstance(getattr(getattr(u, sm._name), f._name), int))
                setattr(getattr(u, sm._name), inner_f._name, 1)
                insts.append(("assigned 1 through ." + sm._name + "." + inner_f._name, None, x))
                res.count((text, tname, "assign"), True)
            except StopIteration:
                pass
            except Exception as e:  # noqa: BLE001
                viol(f"assignment through a nested structure raises {type(e).__name__}: {e}", {**cd, "type": tname})
            for how, d, x in insts:
                res.count((text, tname, how, d), True)
                for path, v in walk(x):
                    try:
                        got, want = bool(v), truth(v)
                    except Exception as e:  # noqa: BLE001
                        viol(f"bool() of {path} raises {type(e).__name__}: {e}", {**cd, "type": tname, "how": how, "data": d.hex() if d else None})
                        continue
                    if got != want:
                        viol(f"bool({path}) is {got} but any(bool(field)) over its fields is {want} ({tname}, {how})",
                             {**cd, "type": tname, "how": how, "data": d.hex() if d else None, "path": path})
                        break
