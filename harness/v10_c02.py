"""C02 probes of round 10: LONG INPUTS AND BLOCK BOUNDARIES, walked over the public entry points.

Two families, both driven by the module's seeded PRNG:

  long_members   : generated structure definitions  { static head ; [length field] ; LONG dynamically sized member ;
                   [second dynamic member] ; static tail }  (optionally the long member sits in a nested structure), the long
                   member being  char x[] / wchar x[] / T x[] (null-terminated; T = integer, enum, flag, small structure)  or
                   x[expr] (char / wchar / T; expr over a length field: n, n + 1, n * 2, n + K2, (n << 1) | 1 ...).  The encoded
                   length of the member (content, content + terminator, or its end offset in the structure) is placed on
                   and around the block sizes 255/256, 511/512, 1023/1024/1025, 2047/2048, 4095/4096/4097, 8191/8192/8193,
                   16 K, 32 K, 65535/65536/65537.  x {<,>} x {packed, aligned} x {interpreted, compiled}.
                   The SAME input is then parsed through every public entry point (class call on BytesIO / bytes /
                   bytearray / memoryview / real file objects buffered and unbuffered / mmap / BufferedReader / a minimal
                   read-seek-tell object, T.read, T.reads, T._read and cs.read at a non-zero stream offset, a class loaded
                   with cs.loadfile) and dumped through every dump spelling (v.dumps(), T.dumps(v), bytes(v), v.write(f),
                   T.write(f, v) into a real file).
  long_arrays    : standalone array types built through the API (cs.char[None], cs.wchar[None], cs.<int>[None],
                   cs.<enum>[None], cs.<t>[count]) on the same sizes, parsed from streams / buffers with data following.

Oracle (the property as stated): the number of bytes the parse consumed (stream position after - before; observable on
every stream entry point) equals the length of the dump and equals the extent the independent reference parser (refimpl)
assigns to the value; the dump equals the input under the reference parser's data mask (padding written as zero).  For the
standalone arrays the expected extent is the length of the encoding the harness itself produced.  An entry point that rejects an
input another entry point parses, or that yields another value, is reported as well (the property quantifies over all of them).
Cases of at most MODEL_MAX consumed bytes also go to the Lean model (correspondence of read and write).
"""
from __future__ import annotations

import io
import mmap
import os
import tempfile

from . import defs, impl, refimpl
from .structprops import load, real_parse

BOUNDS_SMALL = [255, 256, 257, 511, 512, 513, 1023, 1024, 1025, 2047, 2048, 2049, 4095, 4096, 4097]
BOUNDS_MID = [8191, 8192, 8193, 16383, 16384, 16385]
BOUNDS_BIG = [32767, 32768, 32769, 65535, 65536, 65537]
MODEL_MAX = 1100          # cases up to this many consumed bytes are also sent to the model
ALL_ENTRIES_MAX = 9000    # above this size a random subset of the entry points is walked (time)

# element types of the long member: (tree type, kind)
INT_ELEMS = ["uint8", "int8", "uint16", "int16", "uint24", "int24", "uint32", "int32", "uint48", "uint64", "int64", "int128",
             "BYTE", "WORD", "unsigned int", "u2"]
ENUM_ELEMS = ["E8", "F16", "E32", "E24"]


def pick_size(rnd, tier):
    r = rnd.random()
    if tier == "quick":
        pool = BOUNDS_SMALL if r < 0.80 else BOUNDS_MID if r < 0.96 else BOUNDS_BIG
    else:
        pool = BOUNDS_SMALL if r < 0.60 else BOUNDS_MID if r < 0.85 else BOUNDS_BIG
    b = rnd.choice(pool)
    if rnd.random() < 0.15:
        b += rnd.choice([-3, -2, 2, 3, 5, 100])
    if rnd.random() < 0.08:
        b = rnd.randrange(200, max(pool) + 50)     # in between the boundaries
    return b


def fld(name, ty, bits=None):
    return {"name": name, "ty": ty, "bits": bits}


def elem_choice(rnd, null):
    r = rnd.random()
    if r < 0.34:
        return ("sc", "char")
    if r < 0.50:
        return ("sc", "wchar")
    if r < 0.80:
        return ("sc", rnd.choice(INT_ELEMS))
    if r < 0.92:
        return ("enum", rnd.choice(ENUM_ELEMS))
    return ("struct", [fld("a", ("sc", rnd.choice(["uint8", "uint16"]))), fld("b", ("sc", rnd.choice(["uint16", "uint8", "uint32"])))])


def enc_int(v, size, endian, signed=False):
    return int(v).to_bytes(size, "little" if endian == "<" else "big", signed=signed)


def elem_bytes(rnd, et, cfg_endian, cfg, nonzero):
    """the encoding of one random element (non-zero = not a terminator when `nonzero`)"""
    if et[0] == "struct":
        if cfg.align:
            # padding inside an element is random garbage too: the reference parser's mask says what must come back
            size, _ = refimpl.size_align(et, cfg)
            lay = refimpl.struct_layout(et[1], cfg)
            buf = bytearray(rnd.randrange(256) for _ in range(size))
            for f, off in zip(et[1], lay["offsets"]):
                s, _ = refimpl.size_align(f["ty"], cfg)
                buf[off:off + s] = enc_int(rnd.randrange(1, 1 << (8 * s)), s, cfg_endian)
            return bytes(buf)
        return b"".join(elem_bytes(rnd, f["ty"], cfg_endian, cfg, True) for f in et[1])
    name = et[1] if et[0] == "sc" else defs.ENUMS[et[1]][1]
    kind, size, signed, _ = refimpl.sc(name)
    if kind == "char":
        return bytes([rnd.randrange(1 if nonzero else 0, 256)])
    if kind == "wchar":
        while True:
            u = rnd.choice([rnd.randrange(1, 0x80), rnd.randrange(0x80, 0xD800), rnd.randrange(0xE000, 0x10000), 0x100, 0xFF, 0xFFFF])
            if u or not nonzero:
                return enc_int(u, 2, cfg_endian)
    lo = 1 if nonzero else 0
    r = rnd.random()
    if r < 0.6:
        v = rnd.randrange(lo, 1 << (8 * size))
    elif r < 0.8:
        v = rnd.choice([1, 0x7F, 0x80, 0xFF, (1 << (8 * size)) - 1, 1 << (8 * size - 1), 0x100 % (1 << (8 * size)) or 1])
    else:
        v = rnd.randrange(lo, 256)                   # small values: most bytes of a wide element are zero
        if size > 1 and rnd.random() < 0.5:
            v <<= 8 * (size - 1)                      # ... or only the top byte is not
    return enc_int(v % (1 << (8 * size)) or 1, size, cfg_endian)


def content_bytes(rnd, et, count, endian, cfg, nonzero):
    s = len(elem_bytes(rnd, et, endian, cfg, True))
    if et == ("sc", "char"):
        r = rnd.random()
        if r < 0.5:
            b = rnd.randbytes(count)
            return b.replace(b"\x00", bytes([rnd.randrange(1, 256)])) if nonzero else b
        if r < 0.75:
            return bytes(rnd.choice(b"abcdefghijklmnopqrstuvwxyz /._-0123456789") for _ in range(count))
        return bytes([rnd.randrange(1, 256)]) * count
    if count > 3000 and rnd.random() < 0.7:
        # long runs: a few distinct elements repeated (the same territory at a fraction of the generation time)
        pool = [elem_bytes(rnd, et, endian, cfg, nonzero) for _ in range(7)]
        return b"".join(rnd.choice(pool) for _ in range(count))
    out = b"".join(elem_bytes(rnd, et, endian, cfg, nonzero) for _ in range(count))
    assert len(out) == s * count
    return out


EXPRS = [("n", lambda c: c, lambda n: n), ("n + 1", lambda c: c - 1, lambda n: n + 1), ("n * 2", lambda c: c // 2, lambda n: n * 2),
         ("n + K2", lambda c: c - 2, lambda n: n + 2), ("(n << 1) | 1", lambda c: (c - 1) // 2, lambda n: (n << 1) | 1),
         ("n - 1", lambda c: c + 1, lambda n: n - 1), ("n & 0xfffff", lambda c: c, lambda n: n & 0xFFFFF), ("2 * n + K0", lambda c: c // 2, lambda n: 2 * n)]


def make_spec(rnd, tier):
    """a definition tree with one long dynamically sized member; -> spec dict"""
    g = defs.Gen(rnd, allow_dynamic=False, allow_wchar=False, allow_eof=False, max_depth=1, max_fields=3)
    null = rnd.random() < 0.55
    et = elem_choice(rnd, null)
    target = pick_size(rnd, tier)
    spec = {"null": null, "elem": et, "target": target, "measure": rnd.choice(["content", "content+terminator", "end-offset"])}
    core = []
    if not null:
        ex = rnd.choice(EXPRS)
        spec["expr"] = ex
        core.append(fld("n", ("sc", "uint32")))          # (the width is narrowed in make_input's caller when the value fits)
        if rnd.random() < 0.4:
            core.append(fld(g.name(), ("sc", rnd.choice(["uint8", "uint16", "char"]))))
        core.append(fld("x", ("arr", et, ("expr", ex[0]))))
    else:
        core.append(fld("x", ("arr", et, ("null",))))
    second = None
    if rnd.random() < 0.35:
        # a second dynamically sized member right behind the long one (short or long itself)
        et2 = rnd.choice([("sc", "char"), ("sc", "wchar"), ("sc", "uint16"), ("sc", "uint32"), ("enum", "E8"), ("sc", "uint8")])
        second = {"elem": et2, "count": rnd.choice([0, 1, 3, 17, 255, 256, 1023, 1024, 1025])}
        core.append(fld("y", ("arr", et2, ("null",))))
    spec["second"] = second
    head = g.fields(1, dyn=False, top=False) if rnd.random() < 0.8 else []
    tail = g.fields(1, dyn=False, top=False) if rnd.random() < 0.9 else []
    if rnd.random() < 0.5:
        tail.append(fld(g.name(), ("sc", rnd.choice(["uint32", "uint16", "uint8", "uint64", "int24"]))))
    spec["nested"] = nested = rnd.random() < 0.3
    if nested:
        ihead = [fld(g.name(), ("sc", rnd.choice(["uint8", "uint16", "uint32", "int64"])))] if rnd.random() < 0.7 else []
        itail = [fld(g.name(), ("sc", rnd.choice(["uint8", "uint16", "uint32"])))] if rnd.random() < 0.6 else []
        inner = ("struct", ihead + core + itail)
        spec["inner"] = inner
        fields = head + [fld("s", inner)] + tail
    else:
        fields = head + core + tail
    spec["tree"] = ("struct", fields)
    return spec


def _offsets(fields, cfg):
    return refimpl.struct_layout(fields, cfg)["offsets"]


def _index(fields, name):
    return next(i for i, f in enumerate(fields) if f["name"] == name)


def make_input(rnd, spec, endian, cfg, prefix_len=0):
    """an input for the definition: random bytes everywhere (padding is not zero), the long member and its length field
    written at the offsets the C layout rule gives them.  -> bytes or None (length value does not fit)"""
    tree = spec["tree"]
    fields = tree[1]
    base = 0
    if spec["nested"]:
        base = _offsets(fields, cfg)[_index(fields, "s")]
        fields = spec["inner"][1]
    offs = _offsets(fields, cfg)
    ix = _index(fields, "x")
    xoff = base + offs[ix]
    et = spec["elem"]
    es, eal = refimpl.size_align(et, cfg)
    tsize = es if spec["null"] else 0
    want = spec["target"]
    if spec["measure"] == "content+terminator":
        want -= tsize
    elif spec["measure"] == "end-offset":
        want -= xoff + tsize
    count = max(1, (want + rnd.choice([0, 0, es - 1])) // es)
    buf = bytearray(rnd.randrange(256) for _ in range(xoff))
    if not spec["null"]:
        text, inv, fwd = spec["expr"]
        n = inv(count)
        if n < 0:
            return None
        count = fwd(n)
        nt = fields[_index(fields, "n")]["ty"][1]
        nsize = refimpl.sc(nt)[1]
        if n >= 1 << (8 * nsize) or count < 0:
            return None
        noff = base + offs[_index(fields, "n")]
        buf[noff:noff + nsize] = enc_int(n, nsize, endian)
    buf += content_bytes(rnd, et, count, endian, cfg, nonzero=spec["null"])
    if spec["null"]:
        buf += bytes(es)
    spec["count"] = count
    if spec["second"]:
        e2 = spec["second"]["elem"]
        s2, a2 = refimpl.size_align(e2, cfg)
        if cfg.align:
            pad = -(prefix_len + len(buf)) % a2
            buf += rnd.randbytes(pad)
        buf += content_bytes(rnd, e2, spec["second"]["count"], endian, cfg, nonzero=True) + bytes(s2)
    buf += rnd.randbytes(96)
    return bytes(buf)


class MinimalStream:
    """the least a caller may hand in: an object with read / seek / tell and nothing else"""

    def __init__(self, data, pos=0):
        self._f = io.BytesIO(data)
        self._f.seek(pos)

    def read(self, n=-1):
        return self._f.read(n)

    def seek(self, pos, whence=0):
        return self._f.seek(pos, whence)

    def tell(self):
        return self._f.tell()


class Files:
    """real file objects in one scratch directory (removed at the end)"""

    def __init__(self):
        self.dir = tempfile.mkdtemp(prefix="c02long-")
        self.n = 0

    def path(self, data=None):
        self.n += 1
        p = os.path.join(self.dir, f"f{self.n % 8}.bin")
        if data is not None:
            with open(p, "wb") as f:
                f.write(data)
        return p

    def close(self):
        import shutil
        shutil.rmtree(self.dir, ignore_errors=True)


def entry_points(T, cs, tname, files, aligned):
    """(label, run) pairs; run(data, rnd) -> (value, consumed or None).  `consumed` is the stream position after minus
    before where the entry point has a stream; the bytes-like entry points have no observable position."""
    def pre(rnd):
        # the value does not start at stream position 0 (aligned definitions align by stream position: keep that a multiple of 32)
        return rnd.choice([32, 64, 1024, 4096]) if aligned else rnd.choice([1, 3, 7, 32, 1000, 1024, 4095])

    def on_stream(opener, call):
        def run(data, rnd):
            k = pre(rnd)
            s, closer = opener(rnd.randbytes(k) + data)
            try:
                s.seek(k)
                v = call(s)
                return v, s.tell() - k
            finally:
                closer()
        return run

    def bytesio(d):
        return io.BytesIO(d), lambda: None

    def buffered(d):
        return io.BufferedReader(io.BytesIO(d), buffer_size=512), lambda: None

    def minimal(d):
        return MinimalStream(d), lambda: None

    def realfile(buffering):
        def op(d):
            f = open(files.path(d), "rb", buffering=buffering)
            return f, f.close
        return op

    def mapped(d):
        f = open(files.path(d), "rb")
        m = mmap.mmap(f.fileno(), 0, access=mmap.ACCESS_READ)
        return m, lambda: (m.close(), f.close())

    def zero(call):
        def run(data, rnd):
            s = io.BytesIO(data)
            v = call(s)
            return v, s.tell()
        return run

    eps = [
        ("T(bytes)", lambda d, r: (T(d), None)),
        ("T(bytearray)", lambda d, r: (T(bytearray(d)), None)),
        ("T(memoryview)", lambda d, r: (T(memoryview(d)), None)),
        ("T.reads(bytes)", lambda d, r: (T.reads(d), None)),
        ("T.read(bytearray)", lambda d, r: (T.read(bytearray(d)), None)),
        ("T.read(memoryview)", lambda d, r: (T.read(memoryview(d)), None)),
        ("T.read(BytesIO)", zero(T.read)),
        ("T(BytesIO at an offset)", on_stream(bytesio, T)),
        ("T._read(BytesIO at an offset)", on_stream(bytesio, T._read)),
        ("T(BufferedReader)", on_stream(buffered, T)),
        ("T(minimal read/seek/tell object)", on_stream(minimal, T)),
        ("T(real file, buffered)", on_stream(realfile(-1), T)),
        ("T.read(real file, unbuffered)", on_stream(realfile(0), T.read)),
        ("T(mmap)", on_stream(mapped, T)),
    ]
    if tname:
        eps.append(("cs.read(name, BytesIO at an offset)", on_stream(bytesio, lambda s: cs.read(tname, s))))
    return eps


def dump_spellings(T, v, files, is_struct, aligned=False):
    """(label, bytes) for every way to dump a value; exceptions propagate to the caller.  (An aligned definition aligns by the
    absolute stream position when it writes, so the offset written at is a multiple of 32 for those.)"""
    out = [("T.dumps(v)", T.dumps(v))]
    if hasattr(v, "dumps"):
        out.append(("v.dumps()", v.dumps()))
    if is_struct:
        out.append(("bytes(v)", bytes(v)))
    k = 32 if aligned else 5
    s = io.BytesIO(b"\xEE" * k)
    s.seek(k)
    n = T.write(s, v)
    got = s.getvalue()[k:]
    out.append(("T.write(BytesIO at an offset, v)", got))
    # NOT COMPARED (behaviour of the unmodified library, reported): the value write() returns is not the number of bytes it
    # wrote - it counts neither alignment padding nor bit-field units (struct T { uint64 a : 8; uint64 b : 4; char x[]; int48 c; }
    # packed, 256-byte x: returns 263 for 271 bytes written).  The property speaks of the bytes dumped; those are compared.
    del n
    if hasattr(v, "write"):
        p = files.path()
        with open(p, "wb") as f:
            v.write(f)
        with open(p, "rb") as f:
            out.append(("v.write(real file)", f.read()))
    return out


def long_members(eng, res, rnd, tier):
    files = Files()
    try:
        _long_members(eng, res, rnd, tier, files)
    finally:
        files.close()


def _long_members(eng, res, rnd, tier, files):
    n_defs = 42 if tier == "quick" else 1200
    for _ in range(n_defs):
        spec = make_spec(rnd, tier)
        tree = spec["tree"]
        endian, align, compiled = rnd.choice("<>"), rnd.random() < 0.4, rnd.random() < 0.5
        ptr = rnd.choice(["uint64", "uint32", "uint16"])
        cfg = refimpl.Cfg(endian, align, ptr, impl.CONSTS)
        try:
            refimpl.struct_layout(tree[1], cfg)
        except refimpl.Bad:
            continue
        data = None
        for width in (["uint16", "uint24", "uint32"] if rnd.random() < 0.7 else ["uint32"]):
            if not spec["null"]:
                fs = spec["inner"][1] if spec["nested"] else tree[1]
                fs[_index(fs, "n")]["ty"] = ("sc", width)
            data = make_input(rnd, spec, endian, cfg)
            if data is not None:
                break
        if data is None:
            res.feat("long:length value does not fit its field (not run)")
            continue
        L, err = load(tree, endian=endian, align=align, compiled=compiled, pointer=ptr)
        if L is None:
            eng.report(f"a definition with a long dynamic member is rejected: {type(err).__name__}: {err}",
                       {"definition": defs.render_struct("T", tree), "endian": endian, "align": align, "compiled": compiled}, [])
            continue
        T = L.T
        sigs = eng.sigs(L)
        want, obj = real_parse(T, data)
        try:
            rv, rend, rmask = refimpl.parse(tree, data, 0, cfg)
            ref_ok = True
        except (refimpl.Short, refimpl.Bad):
            ref_ok = False
        ekind = spec["elem"][1] if spec["elem"][0] != "struct" else "struct"
        what = f"{'x[]' if spec['null'] else 'x[expr]'} of {ekind}"
        res.feat(f"long:member:{'null-terminated' if spec['null'] else 'expression'}:{spec['elem'][0]}")
        if want[0] != "ok":
            if ref_ok and not sigs:
                eng.report(f"long member ({what}, {spec['count']} elements): the library rejects ({want[1]}) an input the reference parser accepts",
                           eng.case_data(L, data=data), sigs)
            res.feat("input-rejected-or-NaN")
            continue
        if impl.contains_nan(want[1]):
            res.feat("input-rejected-or-NaN")
            continue
        cd = eng.case_data(L, data=data)
        cd["long_member"] = {"kind": what, "elements": spec["count"], "target": spec["target"], "measure": spec["measure"], "nested": spec["nested"]}
        if not ref_ok:
            eng.report("the library parses an input the reference parser rejects", cd, sigs)
            continue
        consumed = want[2]
        res.count(("long", L.text, endian, align, compiled, data[:consumed]), True)
        res.feat(f"long:size:{'<=1025' if consumed <= 1100 else '<=4097' if consumed <= 4200 else '<=16385' if consumed <= 16500 else '>16385'}")
        if spec["nested"]:
            res.feat("long:member inside a nested structure")
        if spec["second"]:
            res.feat("long:second dynamic member behind the long one")
        exp = bytes(b & m for b, m in zip(data[:rend], rmask))
        # --- every entry point on the same input
        eps = entry_points(T, L.cs, "T", files, align)
        # a class of the same definition loaded through cs.loadfile on a fresh instance
        if rnd.random() < 0.5:
            try:
                cs2 = impl.dc().cstruct(endian=endian, pointer=ptr)
                p = files.path(L.text.encode())
                cs2.loadfile(p, compiled=compiled, align=align)
                T2 = cs2.T
                eps.append(("loadfile: T(BytesIO at an offset)", entry_points(T2, cs2, None, files, align)[7][1]))
                eps.append(("loadfile: T(bytes)", lambda d, r, T2=T2: (T2(d), None)))
            except Exception as e:  # noqa: BLE001
                eng.report(f"cs.loadfile rejects a definition cs.load accepts: {type(e).__name__}: {e}", cd, sigs)
        if consumed > ALL_ENTRIES_MAX:
            eps = rnd.sample(eps, 4)
        results = [("T(BytesIO)", obj, consumed, want[1])]
        for label, run in eps:
            res.feat("long:entry:" + label)
            try:
                v, used = run(data, rnd)
            except Exception as e:  # noqa: BLE001
                eng.report(f"{label} fails with {type(e).__name__}: {str(e)[:120]} on an input that T(BytesIO) parses ({what}, {spec['count']} elements)",
                           dict(cd, entry=label), sigs)
                continue
            results.append((label, v, used, None))
        for label, v, used, cv in results:
            res.count(("long-entry", label, L.text, endian, align, compiled, data[:consumed]), True)
            cde = dict(cd, entry=label)
            if used is not None and used != rend:
                eng.report(f"{label}: parsing consumed {used} bytes, the reference says the value occupies {rend} ({what}, {spec['count']} elements)", cde, sigs)
                continue
            try:
                # (the values of the entry points are compared through their dumps: every data bit of the input must come back)
                dumps = dump_spellings(T, v, files, True, align) if label in ("T(BytesIO)", "T(bytes)") or rnd.random() < 0.25 else [("v.dumps()", v.dumps())]
            except Exception as e:  # noqa: BLE001
                eng.report(f"{label}: a parsed value cannot be dumped: {type(e).__name__}: {str(e)[:120]}", cde, sigs)
                continue
            for dl, d in dumps:
                res.feat("long:dump:" + dl.split(" returned")[0])
                if d is None:
                    eng.report(f"{label}: {dl}", cde, sigs)
                elif len(d) != rend:
                    eng.report(f"{label}: {dl} produced {len(d)} bytes, parsing consumed {used if used is not None else rend} ({what}, {spec['count']} elements)", cde, sigs)
                elif d != exp:
                    diff = [i for i in range(rend) if d[i] != exp[i]]
                    eng.report(f"{label}: {dl} differs from the input at data-carrying / must-be-zero positions {diff[:12]} of {rend} ({what}, {spec['count']} elements)", cde, sigs)
        if any(m == 0 for m in rmask):
            res.feat("padding-bytes-present")
        if consumed <= MODEL_MAX and "F23" not in sigs:
            res.feat("long:sent to the model")
            eng.model_read(L, data[:consumed + 4], 0, want, "long member", sigs)
            eng.model_write(L, want[1], impl.dump(T, obj), "dumps of a parsed value (long member)", sigs)
        if len(eng.lines) > 400:
            eng.flush()


def long_arrays(eng, res, rnd, tier):
    """standalone array types built through the API, on the boundary sizes; every consumed byte of an array carries data"""
    files = Files()
    try:
        m = impl.dc()
        for _ in range(40 if tier == "quick" else 1000):
            endian = rnd.choice("<>")
            cfg = refimpl.Cfg(endian, False, "uint64", impl.CONSTS)
            cs = m.cstruct(endian=endian)
            cs.load(defs.PREAMBLE)
            null = rnd.random() < 0.6
            et = elem_choice(rnd, null)
            if et[0] == "struct":
                et = ("sc", rnd.choice(INT_ELEMS))
            ename = et[1]
            base = cs.resolve(ename)
            es, _ = refimpl.size_align(et, cfg)
            target = pick_size(rnd, tier)
            count = max(1, (target - (es if null and rnd.random() < 0.5 else 0)) // es)
            enc = content_bytes(rnd, et, count, endian, cfg, nonzero=null) + (bytes(es) if null else b"")
            follow = rnd.randbytes(rnd.choice([0, 1, 4, 40]))
            data = enc + follow
            spell = rnd.choice(["getitem", "make_array", "resolve"])
            text = f"cs.{ename.replace(' ', '_')}[{None if null else count}]"
            cd = {"type": f"{ename}[{'' if null else count}]", "endian": endian, "elements": count, "data": data.hex(), "via": spell,
                  "repro": f"from dissect.cstruct import cstruct; cs=cstruct(endian={endian!r}); cs.load({defs.PREAMBLE!r}); "
                           f"t=cs.resolve({ename!r})[{None if null else count}]; import io; s=io.BytesIO(bytes.fromhex(<data>)); v=t(s); s.tell(), len(t.dumps(v))"}
            try:
                if spell == "getitem":
                    T = base[None if null else count]
                elif spell == "make_array":
                    T = cs._make_array(base, None if null else count)
                else:
                    T = cs.resolve(f"{ename}[{'' if null else count}]")
                    if not hasattr(T, "num_entries"):
                        T = base[None if null else count]
            except Exception:  # noqa: BLE001
                T = base[None if null else count]
            res.feat(f"long-array:{'null-terminated' if null else 'fixed count'}:{et[0]}")
            eps = entry_points(T, cs, None, files, False)
            eps.append(("T(BytesIO)", lambda d, r, T=T: (lambda s: (T(s), s.tell()))(io.BytesIO(d))))
            if len(enc) > ALL_ENTRIES_MAX:
                eps = rnd.sample(eps, 4)
            first = None
            for label, run in eps:
                if not null and es == 1 and et == ("sc", "char") and label in ("T(bytes)",) and len(data) == count:
                    continue   # (documented shortcut of the class call: bytes of exactly the type's size are taken as the value)
                res.count(("long-array", text, endian, label, enc), True)
                res.feat("long-array:entry:" + label)
                cde = dict(cd, entry=label)
                try:
                    v, used = run(data, rnd)
                except Exception as e:  # noqa: BLE001
                    eng.report(f"{text}: {label} fails with {type(e).__name__}: {str(e)[:120]} on a well-formed encoding of {count} elements", cde, [])
                    continue
                if used is not None and used != len(enc):
                    eng.report(f"{text}: {label} consumed {used} bytes, the encoding of the {count} elements (+ terminator) has {len(enc)}", cde, [])
                    continue
                try:
                    d = T.dumps(v)
                    cv = v
                except Exception as e:  # noqa: BLE001
                    eng.report(f"{text}: {label}: a parsed value cannot be dumped: {type(e).__name__}: {str(e)[:120]}", cde, [])
                    continue
                if first is None:
                    first = cv
                elif not (type(first) is type(cv) and first == cv):
                    eng.report(f"{text}: {label} parses another value than {eps[0][0]} from the same input", cde, [])
                if len(d) != len(enc):
                    eng.report(f"{text}: {label}: dumps produced {len(d)} bytes, parsing consumed {len(enc)}", cde, [])
                elif d != enc:
                    diff = [i for i in range(len(enc)) if d[i] != enc[i]]
                    eng.report(f"{text}: {label}: dumps differs from the input at positions {diff[:12]} of {len(enc)}", cde, [])
    finally:
        files.close()
