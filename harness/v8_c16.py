"""C16 (v8): INPUT KINDS of pointer holders.

"Dereferencing returns what parsing the target type at that absolute stream offset returns" - whatever the holder of the pointer
was parsed FROM.  The library accepts a file-like object or a bytes-like object (`bytes`, `bytearray`, `memoryview`) at four entry
points: `T(x)`, `T.read(x)`, `T.reads(x)` (bytes-like only) and `cs.read(name_or_type, x)`.  For a bytes-like input the "stream" of
the property is the whole buffer handed in, offset 0 being its first byte.

One generated definition per round: a target type (integers of every width, floats, an enum, `char` strings, `wchar`, `void`, fixed
and dynamically sized structures, a structure with a NUL-terminated member, a structure that itself holds a pointer) and the holders

    struct REC  { [scalar] T *p; [scalar] T *q; T *arr[2]; T **pp; [scalar] };
    struct NEST { uint8 a; struct { T *p; T *q; } inner; T *arr[2]; struct { T **pp; scalar t; } inner2; };
    struct TAIL { T *p; T *q; T *arr[2]; T **pp; uint8 n; uint8 d[n & 3]; };            (dynamically sized holder)
    typedef T *PT;  typedef T **PPT;                                                    (pointer types read on their own)
    the array type of member `arr` / `cs.PT[2]`                                         (an array of pointers read on its own)

(packed or aligned).  For every holder an image LONGER than the holder is generated (now and then exactly as long): the holder at
offset 0 and behind it the targets; the stored addresses are null, behind the holder (mostly), anywhere in the image (also inside
the holder), its last byte, just beyond it or the top of the n-bit address space; `pp` points at a planted inner pointer.  The SAME
image is handed in as bytes, bytearray, memoryview of bytes, memoryview of a bytearray, a memoryview slice that starts inside a
larger buffer (offset 0 of the slice is the stream's offset 0) and - as the control - a BytesIO, each through an entry point drawn
among those that accept it.

Oracle, for every pointer of every holder parsed from every input kind: it is a Pointer whose integer value is the unsigned integer
stored in its slot; dereferencing it gives - value or exception class - what parsing the target type of a separately loaded
interpreted copy of the definition at that absolute offset of a fresh BytesIO over the bytes of the SAME buffer gives (a NUL-terminated
string for `char *`, nothing for `void *`; NullPointerDereference for a null pointer); a second dereference gives the same; `T **` is
followed one more hop, a pointer member of a dereferenced structure as well; `(p + k).dereference()` / `(p - k).dereference()` are of
p's class and give the parse at addr +- k; attribute access through a pointer to a structure == the attribute of the parse; the
pointer's dumps() and the holder's dumps() write the stored addresses back; a BytesIO stays where the parse left it; the caller's
buffer is not modified.  The first-hop dereferences are sent to the Lean model (`deref`) as well.  All seven pointer widths, both
byte orders, both readers.
"""
from __future__ import annotations

import io

from . import defs, impl
from .common import A, sx
from .s2_ptr import ALL_PTRS
from .v4_c16 import read_target

INTS = ["uint8", "int8", "uint16", "int16", "uint32", "int32", "uint64", "int64", "uint24", "int24", "uint48", "int128"]
SMALL = ["uint8", "uint16", "uint32", "int8", "int16"]
S = lambda n: ("sc", n)  # noqa: E731
F = lambda n, ty: {"name": n, "ty": ty, "bits": None}  # noqa: E731

INPUTS = ["bytes", "bytearray", "memoryview(bytes)", "memoryview(bytearray)", "memoryview slice of a larger buffer", "BytesIO"]
HOLDERS = ["REC", "NEST", "TAIL", "PT", "PPT", "ARR"]


def gen_target(rnd):
    """-> (kind, tree of the target type, its name in the definition text, text that defines it)"""
    kind = rnd.choice(["int", "int", "float", "enum", "char", "wchar", "void", "struct", "dyn", "cstr", "link"])
    if kind == "int":
        t = rnd.choice(INTS)
        return f"int:{t}", S(t), t, ""
    if kind == "float":
        t = rnd.choice(["float16", "float", "double"])
        return f"float:{t}", S(t), t, ""
    if kind == "enum":
        return "enum", ("enum", "E8"), "E8", ""
    if kind in ("char", "wchar", "void"):
        return kind, S(kind), kind, ""
    fs = [F(f"f{i}", S(rnd.choice(SMALL))) for i in range(rnd.randint(1, 3))]
    if kind == "struct":
        fs.insert(rnd.randint(0, len(fs)), F("s", ("arr", S("char"), ("fixed", rnd.randint(1, 4)))))
    elif kind == "dyn":
        fs = [F("n", S("uint8")), F("d", ("arr", S(rnd.choice(["uint8", "uint16", "char"])), ("expr", f"n & {rnd.choice([1, 3, 7])}")))] + fs[:1]
    elif kind == "cstr":
        fs.insert(rnd.randint(0, len(fs)), F("name", ("arr", S("char"), ("null",))))
    else:
        fs.insert(rnd.randint(0, len(fs)), F("link", ("ptr", S(rnd.choice(["uint8", "uint16", "char"])))))
    tree = ("struct", fs)
    return kind, tree, "X", defs.render_struct("X", tree)


def gen_definition(rnd):
    kind, ttree, cn, pre = gen_target(rnd)
    sm = lambda: rnd.choice(SMALL)  # noqa: E731
    rec = []
    if rnd.random() < 0.6:
        rec.append(f"{sm()} a;")
    rec.append(f"{cn} *p;")
    if rnd.random() < 0.5:
        rec.append(f"{sm()} b;")
    rec += [f"{cn} *q;", f"{cn} *arr[2];", f"{cn} **pp;"]
    if rnd.random() < 0.5:
        rec.append(f"{sm()} z;")
    text = (defs.PREAMBLE + pre
            + "struct REC { " + " ".join(rec) + " };\n"
            + f"struct NEST {{ uint8 a; struct {{ {cn} *p; {cn} *q; }} inner; {cn} *arr[2]; struct {{ {cn} **pp; {sm()} t; }} inner2; }};\n"
            + f"struct TAIL {{ {cn} *p; {cn} *q; {cn} *arr[2]; {cn} **pp; uint8 n; uint8 d[n & 3]; }};\n"
            + f"typedef {cn} *PT;\ntypedef {cn} **PPT;\n")
    return text, kind, ttree


def pick_addr(rnd, lo, N, top):
    """lo: the first offset behind the holder"""
    r = rnd.random()
    if r < 0.10:
        return 0
    if r < 0.62 and lo <= min(N - 1, top):
        return rnd.randint(lo, min(N - 1, top))
    if r < 0.74 and N > 1:
        return rnd.randint(1, min(N - 1, top))
    if r < 0.80:
        return min(max(N - 1, 1), top)
    if r < 0.92:
        return min(N + rnd.randint(0, 8), top)
    return top - rnd.randint(0, 3)


def canonv(v):
    return [A("void")] if v is None else impl.canon(v)


def show(o):
    if o[0] == "ok":
        return "gives " + sx(canonv(o[1]))[:140]
    return "raises NullPointerDereference" if o[0] == "null" else f"raises {type(o[1]).__name__}: {str(o[1])[:60]}"


def holder_plan(hkind, cs, ref, rnd):
    """-> (type under test, reference type, name for cs.read, fixed size or None, first offset behind the holder,
           [(label, accessor, slot offset, level)])   level 1: T *, level 2: T **"""
    psz = ref.pointer.size
    if hkind in ("REC", "TAIL"):
        R = getattr(ref, hkind)
        off = lambda n: R.fields[n].offset  # noqa: E731
        ptrs = [("o.p", lambda o: o.p, off("p"), 1), ("o.q", lambda o: o.q, off("q"), 1), ("o.arr[0]", lambda o: o.arr[0], off("arr"), 1),
                ("o.arr[1]", lambda o: o.arr[1], off("arr") + psz, 1), ("o.pp", lambda o: o.pp, off("pp"), 2)]
        if hkind == "REC":
            return cs.REC, R, "REC", R.size, R.size, ptrs
        return cs.TAIL, R, "TAIL", None, off("n") + 1 + 3 + 16, ptrs
    if hkind == "NEST":
        R = ref.NEST
        i1, i2 = R.fields["inner"], R.fields["inner2"]
        ptrs = [("o.inner.p", lambda o: o.inner.p, i1.offset + i1.type.fields["p"].offset, 1),
                ("o.inner.q", lambda o: o.inner.q, i1.offset + i1.type.fields["q"].offset, 1),
                ("o.arr[0]", lambda o: o.arr[0], R.fields["arr"].offset, 1), ("o.arr[1]", lambda o: o.arr[1], R.fields["arr"].offset + psz, 1),
                ("o.inner2.pp", lambda o: o.inner2.pp, i2.offset + i2.type.fields["pp"].offset, 2)]
        return cs.NEST, R, "NEST", R.size, R.size, ptrs
    if hkind == "PT":
        return cs.PT, ref.PT, "PT", psz, psz, [("o", lambda o: o, 0, 1)]
    if hkind == "PPT":
        return cs.PPT, ref.PPT, "PPT", psz, psz, [("o", lambda o: o, 0, 2)]
    # an array of pointers on its own: the type of member arr, or PT[2]
    if rnd.random() < 0.5:
        T, R, name = cs.REC.fields["arr"].type, ref.REC.fields["arr"].type, "REC.fields['arr'].type"
    else:
        T, R, name = cs.PT[2], ref.PT[2], "PT[2]"
    return T, R, name, 2 * psz, 2 * psz, [("o[0]", lambda o: o[0], 0, 1), ("o[1]", lambda o: o[1], psz, 1)]


def buffer_round(m, pname, endian, compiled, rnd, tier, res, viol, lines, metas):
    NullPointerDereference = m.NullPointerDereference
    psz = ALL_PTRS[pname]
    top = (1 << (8 * psz)) - 1
    order = "little" if endian == "<" else "big"
    align = rnd.random() < 0.3
    text, tkind, ttree = gen_definition(rnd)
    cd0 = {"definition": text, "endian": endian, "compiled": compiled, "pointer": pname, "align": align, "target": tkind}
    try:
        cs = m.cstruct(endian=endian, pointer=pname)
        cs.load(text, compiled=compiled, align=align)
        ref = m.cstruct(endian=endian, pointer=pname)
        ref.load(text, compiled=False, align=align)
        RP, RPP = ref.PT, ref.PPT                      # reference classes: T * and T **
        TT = RP.type                                  # reference target class
        cfg = [A("cfg"), A("le" if endian == "<" else "be"), pname, [[A(k), v] for k, v in impl.CONSTS.items()]]
        tsexp = impl.real_ty_sexp(ttree, TT, align)
    except Exception as e:  # noqa: BLE001
        viol(f"a definition with {pname} pointers to {tkind} is rejected: {type(e).__name__}: {e}", cd0)
        return
    hkinds = rnd.sample(HOLDERS, 3) if tier == "quick" else HOLDERS
    for hkind in hkinds:
        try:
            T, R, rname, fixed, behind, ptrs = holder_plan(hkind, cs, ref, rnd)
        except Exception as e:  # noqa: BLE001
            viol(f"holder {hkind} of {pname} pointers to {tkind}: the loaded types cannot be inspected: {type(e).__name__}: {e}", cd0)
            continue
        tight = fixed is not None and rnd.random() < 0.08
        N = fixed if tight else behind + rnd.randint(30, 90)
        if psz == 1:
            N = min(N, 250)
        img = bytearray(rnd.choice([0, 0, 1, 2, 3, 0x41, 0x42, 0x7F, 0x80, 0xFF, rnd.randrange(256)]) for _ in range(N))
        want_addr = {}
        for label, _, slot, level in ptrs:
            want_addr[label] = pick_addr(rnd, behind, N, top)
        inner_at = None
        if N - psz - 1 >= behind and min(N - psz - 1, top) >= behind:
            for label, _, slot, level in ptrs:
                if level == 2 and rnd.random() < 0.85:
                    inner_at = rnd.randint(behind, min(N - psz - 1, top))
                    want_addr[label] = inner_at
                    img[inner_at:inner_at + psz] = pick_addr(rnd, behind, N, top).to_bytes(psz, order)
        for label, _, slot, level in ptrs:
            img[slot:slot + psz] = want_addr[label].to_bytes(psz, order)
        if hkind == "TAIL":
            img[R.fields["n"].offset] = rnd.randrange(256)
        data = bytes(img)
        cdh = dict(cd0, holder=hkind, holder_type=rname, data=data.hex(), holder_size=fixed)
        expected = {}
        sent = set()

        def expect(level, addr):
            key = (level, addr)
            if key not in expected:
                if addr == 0:
                    expected[key] = ("null",)
                elif level == 1 and issubclass(TT, m.Void):
                    expected[key] = ("ok", None)
                elif level == "link":
                    expected[key] = read_target(TT.fields["link"].type.type, io.BytesIO(data), addr)
                else:
                    expected[key] = read_target(TT if level == 1 else RP, io.BytesIO(data), addr)
            return expected[key]

        def deref_check(r, addr, level, what, cdp, stream, hop=0):
            """the dereference predicate on pointer r whose address must be addr; -> True when it held"""
            want = expect(level, addr)
            before = stream.tell() if stream is not None else None
            v = None
            try:
                v = r.dereference()
                got = ("ok", v)
            except NullPointerDereference:
                got = ("null",)
            except Exception as e:  # noqa: BLE001
                got = ("err", e)
            good = True
            if stream is not None and stream.tell() != before:
                good = False
                viol(f"{what}: dereferencing moved the stream {before} -> {stream.tell()}", cdp)
            if want[0] == "ok":
                ok = got[0] == "ok" and impl.same_val(canonv(want[1]), canonv(got[1]))
            elif want[0] == "err":
                ok = got[0] == "err" and type(got[1]).__name__ == type(want[1]).__name__
            else:
                ok = got[0] == "null"
            tname = "the pointer type" if level == 2 else getattr(TT, "__name__", "the target type") if level == 1 else "the type of member link"
            if not ok:
                good = False
                viol(f"{what}: dereferencing the pointer @ {addr} {show(got)}; parsing {tname} at offset {addr} of the same {len(data)} bytes {show(want)}", cdp)
            res.feat(f"v8:buffer-input:outcome:{got[0]}")
            if got[0] == "ok":
                try:
                    v2 = r.dereference()
                    if v2 is not v and (v is None or v2 is None or not impl.same_val(canonv(v), canonv(v2))):
                        good = False
                        viol(f"{what}: a repeated dereference of the pointer @ {addr} gives a different value", cdp)
                except Exception as e:  # noqa: BLE001
                    good = False
                    viol(f"{what}: a repeated dereference of the pointer @ {addr} raises {type(e).__name__}", cdp)
            # the Lean model on the same case (first hop to the target type; once per image and address)
            if level == 1 and addr >= 0 and addr not in sent and not (tkind == "wchar" and got[0] == "err"):
                sent.add(addr)
                lines.append(sx([A("deref"), cfg, tsexp, data, addr, 1]))
                metas.append((dict(cdp, addr=addr), ("ok", canonv(v)) if got[0] == "ok" else ("null",) if got[0] == "null" else ("err", impl.err_class(got[1]))))
            if good and got[0] == "ok" and hop < 2:
                if level == 2 and isinstance(v, m.Pointer):
                    # T **: the pointer found there reads the same buffer as well
                    res.feat("v8:buffer-input:pointer-to-pointer followed")
                    good = deref_check(v, int(v), 1, what + " -> dereferenced once more", cdp, stream, hop + 1)
                elif level == 1 and tkind == "link":
                    try:
                        lp = v.link
                        res.feat("v8:buffer-input:pointer member of a dereferenced structure followed")
                        good = deref_check(lp, int(lp), "link", what + " -> .link dereferenced", cdp, stream, hop + 1)
                    except Exception as e:  # noqa: BLE001
                        good = False
                        viol(f"{what}: member link of the dereferenced structure cannot be read: {type(e).__name__}: {e}", cdp)
            return good

        for ikind in INPUTS:
            entries = ["T(x)", "T.read(x)", "cs.read(name, x)"] + ([] if ikind == "BytesIO" else ["T.reads(x)", "T.reads(x)"])
            entry = rnd.choice(entries)
            lead = rnd.randint(1, 40)
            backing = None
            if ikind == "bytes":
                x, xs = data, "bytes.fromhex(DATA)"
            elif ikind == "bytearray":
                x, xs = bytearray(data), "bytearray.fromhex(DATA)"
            elif ikind == "memoryview(bytes)":
                x, xs = memoryview(data), "memoryview(bytes.fromhex(DATA))"
            elif ikind == "memoryview(bytearray)":
                backing = bytearray(data)
                x, xs = memoryview(backing), "memoryview(bytearray.fromhex(DATA))"
            elif ikind == "memoryview slice of a larger buffer":
                backing = bytearray(bytes(rnd.randrange(256) for _ in range(lead)) + data)
                x, xs = memoryview(backing)[lead:], f"memoryview(bytearray({lead}) + bytearray.fromhex(DATA))[{lead}:]"
            else:
                x, xs = io.BytesIO(data), "io.BytesIO(bytes.fromhex(DATA))"
            stream = x if ikind == "BytesIO" else None
            tname = f"cs.{rname}"
            call = {"T(x)": f"{tname}(x)", "T.read(x)": f"{tname}.read(x)", "T.reads(x)": f"{tname}.reads(x)",
                    "cs.read(name, x)": f"cs.read({rname!r}, x)" if hkind != "ARR" else f"cs.read({tname}, x)"}[entry]
            setup = ["import io; from dissect.cstruct import cstruct",
                     f"cs = cstruct(endian={endian!r}, pointer={pname!r}); cs.load({text!r}, compiled={compiled}, align={align})",
                     f"DATA = {data.hex()!r}", f"x = {xs}", f"o = {call}"]
            cd = dict(cdh, input=ikind, entry=entry)
            try:
                if entry == "T(x)":
                    o = T(x)
                elif entry == "T.read(x)":
                    o = T.read(x)
                elif entry == "T.reads(x)":
                    o = T.reads(x)
                else:
                    o = cs.read(rname if hkind != "ARR" else T, x)
            except Exception as e:  # noqa: BLE001
                viol(f"{call} on a {ikind} of {N} bytes raises {type(e).__name__}: {e}", dict(cd, repro="\n".join(setup)))
                continue
            res.feat(f"v8:buffer-input:kind:{ikind}")
            res.feat(f"v8:buffer-input:entry:{entry}")
            res.feat(f"v8:buffer-input:holder:{hkind}")
            res.feat(f"v8:buffer-input:target:{tkind.split(':')[0]}")
            res.feat(f"v8:buffer-input:{'aligned' if align else 'packed'}")
            if tight:
                res.feat("v8:buffer-input:image exactly as long as the holder")
            pos1 = stream.tell() if stream is not None else None
            if stream is not None and fixed is not None and pos1 != fixed:
                viol(f"{call}: parsing the holder of {fixed} bytes left the stream at {pos1}", dict(cd, repro="\n".join(setup)))
            for label, acc, slot, level in ptrs:
                a = want_addr[label]
                cdp = dict(cd, pointer_read=label, addr=a, repro="\n".join(setup + [f"p = {label}; print(repr(p)); print(p.dereference())"]))
                what = f"{call} on a {ikind}, {label}"
                try:
                    p = acc(o)
                    if not isinstance(p, m.Pointer) or int(p) != a:
                        viol(f"{what} reads as {p!r}, the unsigned integer stored in its {psz} bytes is {a}", cdp)
                        continue
                except Exception as e:  # noqa: BLE001
                    viol(f"{what} cannot be read from the parsed holder: {type(e).__name__}: {e}", cdp)
                    continue
                res.count(("v8-buffer-input", pname, endian, compiled, text, data, hkind, ikind, entry, label), a != 0)
                res.feat("v8:buffer-input:address:" + ("null" if a == 0 else "inside the holder" if a < behind else "behind the holder" if a < N else "beyond the data"))
                deref_check(p, a, level, what, cdp, stream)
                # arithmetic: same class, reads the same buffer at the new address
                for sym, k in (("+", rnd.randint(1, 12)), ("-", rnd.randint(1, 6))):
                    if rnd.random() < 0.5:
                        continue
                    w = a + k if sym == "+" else a - k
                    cda = dict(cdp, arithmetic=f"{label} {sym} {k}", addr=w,
                               repro="\n".join(setup + [f"p = {label} {sym} {k}; print(repr(p)); print(p.dereference())"]))
                    try:
                        r = p + k if sym == "+" else p - k
                    except Exception as e:  # noqa: BLE001
                        viol(f"{what} {sym} {k}: pointer arithmetic raises {type(e).__name__}: {str(e)[:80]}", cda)
                        continue
                    if type(r) is not type(p) or int(r) != w:
                        viol(f"{what} {sym} {k}: the result is {r!r} ({type(r).__name__}), not a {type(p).__name__} @ {w}", cda)
                        continue
                    res.feat("v8:buffer-input:arithmetic")
                    deref_check(r, w, level, f"{what} {sym} {k}", cda, stream)
                # attribute access through a pointer to a structure
                want = expect(level, a)
                if level == 1 and want[0] == "ok" and isinstance(want[1], m.Structure):
                    fn = "f0"
                    try:
                        if not impl.same_val(impl.canon(getattr(want[1], fn)), impl.canon(getattr(p, fn))):
                            viol(f"{what}.{fn} gives {getattr(p, fn)!r}, member {fn} of the structure parsed at offset {a} is {getattr(want[1], fn)!r}", cdp)
                        res.feat("v8:buffer-input:attribute through the pointer")
                    except Exception as e:  # noqa: BLE001
                        viol(f"{what}.{fn} raises {type(e).__name__}: {e}; the structure parsed at offset {a} has that member", cdp)
                # the address is written back unchanged
                try:
                    b = p.dumps()
                    if b != a.to_bytes(psz, order):
                        viol(f"{what}: dumps() writes {b.hex()}, the address {a} was read from {a.to_bytes(psz, order).hex()}", cdp)
                except Exception as e:  # noqa: BLE001
                    viol(f"{what}: dumps() raises {type(e).__name__}: {e}", cdp)
            # the holder dumps the stored addresses back; stream and buffer are what they were
            cde = dict(cd, repro="\n".join(setup + ["print(o.dumps().hex())"]))
            try:
                out = o.dumps()
                bad = [label for label, _, slot, _ in ptrs if out[slot:slot + psz] != data[slot:slot + psz]]
                if bad or (fixed is not None and len(out) != fixed):
                    viol(f"{call} on a {ikind}: dumps() of the holder gives {out.hex()} ({len(out)} bytes; holder size {fixed}), the addresses of {bad} "
                         f"were read from {data[:len(out)].hex()}", cde)
            except Exception as e:  # noqa: BLE001
                viol(f"{call} on a {ikind}: dumps() of the holder raises {type(e).__name__}: {e}", cde)
            if stream is not None and stream.tell() != pos1:
                viol(f"{call}: the stream moved from {pos1} to {stream.tell()} while its pointers were used", cde)
            try:
                now = stream.getvalue() if stream is not None else bytes(x)
                if now != data or (backing is not None and ikind.startswith("memoryview slice") and bytes(backing[lead:]) != data):
                    viol(f"{call} on a {ikind}: the caller's buffer was modified", cde)
            except Exception as e:  # noqa: BLE001
                viol(f"{call} on a {ikind}: the caller's buffer cannot be read any more: {type(e).__name__}: {e}", cde)


def buffer_inputs(m, env, res, viol, rnd, lines, metas):
    tier = env["tier"]
    for pname in ALL_PTRS:
        for endian in "<>":
            for compiled in (False, True):
                for _ in range(4 if tier == "quick" else 12):
                    buffer_round(m, pname, endian, compiled, rnd, tier, res, viol, lines, metas)
